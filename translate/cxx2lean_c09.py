"""cxx2lean for C09: regenerates lean/CppUModel/Gen/MockEquals.lean from the CURRENT source of
src/CppUTestExt/MockNamedValue.cpp on every check run.

Route: clang++-14 typed JSON AST (every implicit conversion is already an explicit node), restricted
subset -> Lean.  Translated: `MockNamedValue::equals` (whole if-chain, same order), the six widening
integer getters (a failing STRCMP_EQUAL = `.error`), and the table (type-name literal, union member,
C type) of the `setValue`/`setMemoryBuffer` overloads.

Integers map to `BitVec w` (LP64):   cast from a signed source = `.signExtend w'`, from an unsigned
source = `.setWidth w'` (this is C's value conversion for widening, narrowing and same-width casts);
signed comparisons = `BitVec.sle/slt`, unsigned = `BitVec.ule/ult`; `==` = `==`.
Union members map to the readers `self.intValue_` … of Model/MockValue.lean.  The translator keeps the
type-name knowledge established by the enclosing conditions and REFUSES to translate a read of a union
member that is not the one the setter of that type wrote (inactive member = undefined behaviour).

The hand-modelled callees (doubles_equal, SimpleString::MemCmp/StrCmp, operator==/!=, SimpleString(const char*))
are shape-checked against their expected normalised bodies (CALLEE_SHAPES): a change there means
Model/MockValue.lean has to be revisited.

Anything outside the subset raises TranslateError (handled by the check like a broken obligation)."""
import json, os, subprocess
from .common import TranslateError, HEADER, core

SRC = "src/CppUTestExt/MockNamedValue.cpp"
GETTERS = ["getIntValue", "getUnsignedIntValue", "getLongIntValue", "getUnsignedLongIntValue",
           "getLongLongIntValue", "getUnsignedLongLongIntValue"]

INT_TYPES = {            # desugared C type -> (width, signed)
    "int": (32, True), "unsigned int": (32, False),
    "long": (64, True), "unsigned long": (64, False),
    "long long": (64, True), "unsigned long long": (64, False),
}
NON_UNION = ("type_", "size_", "comparator_")
OBJECT_MEMBERS = ("constObjectPointerValue_", "objectPointerValue_")
# members of the same representation that differ in cv-qualification of the pointee only (`void*` / `const void*`): reading
# one where the other was written is the same load; the readers of Model/MockValue.lean return the stored address for both
SIMILAR_MEMBERS = {"pointerValue_": ("constPointerValue_",), "constPointerValue_": ("pointerValue_",)}
OTHER_GETTERS = ["getBoolValue", "getDoubleValue", "getDoubleTolerance", "getStringValue", "getPointerValue",
                 "getConstPointerValue", "getFunctionPointerValue", "getMemoryBuffer", "getSize",
                 "getObjectPointer", "getConstObjectPointer"]
LEAN_RET = {"bool": "Bool", "double": "(D Float)", "const char *": "(Option Bytes)", "void *": "Nat", "const void *": "Nat",
            "void (*)()": "Nat", "const unsigned char *": "Bytes"}
STRINGFROM_PARAM = {"bool": "bool", "int": "int", "unsigned int": "uint", "long": "long", "unsigned long": "ulong",
                    "cpputest_longlong": "llong", "long long": "llong", "cpputest_ulonglong": "ullong",
                    "unsigned long long": "ullong", "const void *": "constVoidPtr", "void (*)()": "fnPtr",
                    "double, int": "double"}
NEEDS_ENV = ("constVoidPtr", "fnPtr", "double")
PASS_THROUGH = ("ExprWithCleanups", "ParenExpr", "MaterializeTemporaryExpr", "CXXBindTemporaryExpr",
                "CXXFunctionalCastExpr")


def clang_ast():
    src = os.path.join(core.REPO, SRC)
    cmd = ["clang++-14", "-std=gnu++17", "-fsyntax-only", "-w",
           "-I" + os.path.join(core.REPO, "include"), "-I" + os.path.join(core.VERIF, "harness", "config"),
           "-DHAVE_CONFIG_H", "-Xclang", "-ast-dump=json", "-Xclang", "-ast-dump-filter=MockNamedValue::", src]
    try:
        p = subprocess.run(cmd, stdout=subprocess.PIPE, stderr=subprocess.PIPE, text=True, timeout=300)
    except OSError as e:
        raise TranslateError("clang++-14 cannot be run: %s" % e)
    if p.returncode != 0:
        raise TranslateError("clang cannot parse %s: %s" % (SRC, p.stderr[-1500:]))
    docs, dec, i, s = [], json.JSONDecoder(), 0, p.stdout
    n = len(s)
    while True:
        while i < n and s[i].isspace():
            i += 1
        if i >= n:
            break
        o, i = dec.raw_decode(s, i)
        docs.append(o)
    return docs


def has_body(d):
    return any(c.get("kind") == "CompoundStmt" for c in d.get("inner", []))


def ctype(node):
    """desugared C type of a node with top-level cv qualifiers removed"""
    t = node.get("type", {})
    q = t.get("desugaredQualType", t.get("qualType", "")).strip()
    q = q.replace("(*const)", "(*)")
    if q.endswith("*const"):
        q = q[:-5]
    if q.startswith("const ") and not any(c in q for c in "*(&"):
        q = q[6:]
    return q.strip()


def where(node):
    r = node.get("range", {}).get("begin", {})
    line = r.get("line") or r.get("expansionLoc", {}).get("line") or r.get("spellingLoc", {}).get("line")
    return " (near line %s)" % line if line else ""


class Fn:
    """translation of one method body"""

    def __init__(self, name, setters, mode):
        self.name, self.setters, self.mode = name, setters, mode      # mode: "bool" | "getter"
        self.ret_types = set()
        self.reads = 0

    # ----- knowledge about the type names on the current path: {"self": lit|None, "p": lit|None, "same": bool}
    @staticmethod
    def kn_add(kn, who, lit):
        k = dict(kn)
        k[who] = lit
        if k.get("same"):
            k["self" if who == "p" else "p"] = lit
        return k

    def facts(self, node, kn):
        """knowledge when `node` evaluates to true"""
        k = node.get("kind")
        if k in PASS_THROUGH or (k == "ImplicitCastExpr" and node.get("castKind") == "NoOp"):
            return self.facts(node["inner"][0], kn)
        if k == "BinaryOperator" and node.get("opcode") == "&&":
            kn = self.facts(node["inner"][0], kn)
            return self.facts(node["inner"][1], kn)
        t = self.type_test(node)
        if t and t[0] == "==" and t[2] is not None:
            return self.kn_add(kn, t[1], t[2])
        if t and t[0] == "==" and t[2] is None:          # type_ == p.type_
            k2 = dict(kn); k2["same"] = True
            return k2
        return kn

    def facts_false(self, node, kn):
        """knowledge when `node` evaluates to false"""
        k = node.get("kind")
        if k in PASS_THROUGH or (k == "ImplicitCastExpr" and node.get("castKind") == "NoOp"):
            return self.facts_false(node["inner"][0], kn)
        t = self.type_test(node)
        if t and t[0] == "!=" and t[2] is None:
            k2 = dict(kn); k2["same"] = True
            if k2.get("self") and not k2.get("p"):
                k2["p"] = k2["self"]
            if k2.get("p") and not k2.get("self"):
                k2["self"] = k2["p"]
            return k2
        return kn

    def type_test(self, node):
        """(op, who, literal|None) for `X.type_ ==/!= "lit"` or `type_ ==/!= p.type_`"""
        if node.get("kind") != "CXXOperatorCallExpr":
            return None
        inner = node["inner"]
        callee = self.strip(inner[0])
        op = callee.get("referencedDecl", {}).get("name")
        if op not in ("operator==", "operator!="):
            return None
        a, b = self.sstr_arg(inner[1]), self.sstr_arg(inner[2])
        op = op[len("operator"):]
        if a[0] == "type" and b[0] == "lit":
            return (op, a[1], b[1])
        if a[0] == "lit" and b[0] == "type":
            return (op, b[1], a[1])
        if a[0] == "type" and b[0] == "type" and a[1] != b[1]:
            return (op, "both", None)
        return None

    def strip(self, node):
        while node.get("kind") in PASS_THROUGH or (node.get("kind") == "ImplicitCastExpr" and
                                                   node.get("castKind") in ("NoOp", "FunctionToPointerDecay", "ArrayToPointerDecay")):
            node = node["inner"][0]
        return node

    def sstr_arg(self, node):
        """classify a SimpleString-typed argument: ("type", who) | ("lit", text) | ("cstr", node)"""
        n = self.strip(node)
        if n.get("kind") == "MemberExpr" and n.get("name") == "type_":
            return ("type", self.owner(n["inner"][0]))
        if n.get("kind") == "CXXConstructExpr" and len(n.get("inner", [])) == 1:
            arg = self.strip(n["inner"][0])
            if arg.get("kind") == "StringLiteral":
                return ("lit", json.loads(arg["value"]))
            if ctype(n["inner"][0]) == "const char *":
                return ("cstr", n["inner"][0])
        raise TranslateError("%s: SimpleString operand not understood: %s%s" % (self.name, n.get("kind"), where(n)))

    def owner(self, node):
        n = self.strip(node)
        if n.get("kind") == "CXXThisExpr":
            return "self"
        if n.get("kind") == "DeclRefExpr" and n.get("referencedDecl", {}).get("name") == "p":
            return "p"
        raise TranslateError("%s: member access on something other than this / p: %s%s" % (self.name, n.get("kind"), where(n)))

    # ----- member reads
    def member(self, node, kn):
        path, n = [], node
        while n.get("kind") == "MemberExpr":
            path.append(n["name"])
            n = n["inner"][0]
        who = self.owner(n)
        path.reverse()
        if path[0] == "value_":
            path = path[1:]
            if not path:
                raise TranslateError("%s: the union is read as a whole%s" % (self.name, where(node)))
            name = path[0]
            for x in path[1:]:
                name += x if name.endswith("_") else "_" + x
            lit = kn.get(who)
            if lit is None:
                if name not in OBJECT_MEMBERS or not kn.get("custom"):
                    raise TranslateError("%s: union member %s of %s is read where the type name is not established%s"
                                         % (self.name, name, who, where(node)))
            else:
                written = [m for (l, m, _) in self.setters if l == lit]
                if not written:
                    raise TranslateError("%s: union member %s read under unknown type name %r%s" % (self.name, name, lit, where(node)))
                if name not in written and not any(m in written for m in SIMILAR_MEMBERS.get(name, ())):
                    raise TranslateError("%s: reads the inactive union member %s of a %r value (setter writes %s): undefined "
                                         "behaviour, not translatable%s" % (self.name, name, lit, "/".join(written), where(node)))
            self.reads += 1
            return "%s.%s" % (who, name)
        if len(path) == 1 and path[0] in NON_UNION:
            return "%s.%s" % (who, path[0])
        raise TranslateError("%s: unknown member %s%s" % (self.name, ".".join(path), where(node)))

    # ----- expressions
    def expr(self, node, kn):
        k = node.get("kind")
        if k in PASS_THROUGH:
            if k == "CXXFunctionalCastExpr":
                raise TranslateError("%s: functional cast outside a SimpleString comparison%s" % (self.name, where(node)))
            return self.expr(node["inner"][0], kn)
        if k in ("ImplicitCastExpr", "CStyleCastExpr", "CXXStaticCastExpr"):
            return self.cast(node, kn)
        if k == "MemberExpr":
            raise TranslateError("%s: member used as an lvalue%s" % (self.name, where(node)))
        if k == "IntegerLiteral":
            w, _ = self.int_type(node)
            return "(%d#%d)" % (int(node["value"]) % (1 << w), w)
        if k == "CXXBoolLiteralExpr":
            return "true" if node["value"] else "false"
        if k == "UnaryOperator" and node.get("opcode") == "!":
            return "(!%s)" % self.expr(node["inner"][0], kn)
        if k == "BinaryOperator":
            return self.binop(node, kn)
        if k == "CXXOperatorCallExpr":
            return self.sstr_compare(node, kn)
        if k == "CallExpr":
            return self.call(node, kn)
        if k == "CXXMemberCallExpr":
            return self.member_call(node, kn)
        raise TranslateError("%s: cannot translate expression node %s%s" % (self.name, k, where(node)))

    def int_type(self, node):
        t = ctype(node)
        if t not in INT_TYPES:
            raise TranslateError("%s: integer type expected, found %r%s" % (self.name, t, where(node)))
        return INT_TYPES[t]

    def cast(self, node, kn):
        ck = node.get("castKind")
        sub = node["inner"][0]
        if ck == "NoOp":
            return self.expr(sub, kn)
        if ck == "LValueToRValue":
            if sub.get("kind") != "MemberExpr":
                raise TranslateError("%s: load from something that is not a member%s" % (self.name, where(node)))
            return self.member(sub, kn)
        if ck == "IntegralCast":
            dst = ctype(node)
            src = ctype(sub)
            if dst not in INT_TYPES:
                raise TranslateError("%s: integral cast to %r%s" % (self.name, dst, where(node)))
            wd, _ = INT_TYPES[dst]
            if src == "bool":
                return "(Mock.boolToBV %d %s)" % (wd, self.expr(sub, kn))
            if src not in INT_TYPES:
                raise TranslateError("%s: integral cast from %r%s" % (self.name, src, where(node)))
            ws, ss = INT_TYPES[src]
            inner = self.strip(sub) if sub.get("kind") in PASS_THROUGH else sub
            if inner.get("kind") == "IntegerLiteral":          # constant folding of C's value conversion
                v = int(inner["value"])
                if ss and v >= (1 << (ws - 1)):
                    v -= 1 << ws
                return "(%d#%d)" % (v % (1 << wd), wd)
            e = self.expr(sub, kn)
            return "(%s.signExtend %d)" % (e, wd) if ss else "(%s.setWidth %d)" % (e, wd)
        if ck == "IntegralToBoolean":
            w, _ = self.int_type(sub)
            return "(%s != (0#%d))" % (self.expr(sub, kn), w)
        if ck == "PointerToBoolean":
            n = self.strip(sub)
            if n.get("kind") == "ImplicitCastExpr" and n.get("castKind") == "LValueToRValue":
                m = n["inner"][0]
                if m.get("kind") == "MemberExpr" and m.get("name") == "comparator_":
                    return "(%s).isSome" % self.member(m, kn)
            raise TranslateError("%s: pointer used as a condition (only comparator_ is understood)%s" % (self.name, where(node)))
        if ck == "BitCast":
            if ctype(node) in ("const void *", "void *"):
                return self.expr(sub, kn)
            raise TranslateError("%s: pointer cast to %r%s" % (self.name, ctype(node), where(node)))
        raise TranslateError("%s: cast kind %s not in the subset%s" % (self.name, ck, where(node)))

    def binop(self, node, kn):
        op = node["opcode"]
        l, r = node["inner"]
        if op == "&&":
            le = self.expr(l, kn)
            re_ = self.expr(r, self.facts(l, kn))         # the right operand is evaluated only when the left is true
            return "(%s && %s)" % (le, re_)
        if op == "||":
            le = self.expr(l, kn)
            re_ = self.expr(r, self.facts_false(l, kn))
            return "(%s || %s)" % (le, re_)
        tl, tr = ctype(l), ctype(r)
        if tl != tr:
            raise TranslateError("%s: operands of %s have different types %r / %r%s" % (self.name, op, tl, tr, where(node)))
        le, re_ = self.expr(l, kn), self.expr(r, kn)
        if op in ("==", "!="):
            if tl in INT_TYPES or tl in ("bool", "void *", "const void *", "void (*)()"):
                return "(%s %s %s)" % (le, op, re_)
            if tl in ("const unsigned char *", "const char *"):
                raise TranslateError("%s: %s compares the ADDRESSES of two strings/buffers; the model holds their content only%s"
                                     % (self.name, op, where(node)))
            raise TranslateError("%s: %s on operands of type %r%s" % (self.name, op, tl, where(node)))
        if op in ("<", "<=", ">", ">="):
            if tl not in INT_TYPES:
                raise TranslateError("%s: ordering on operands of type %r%s" % (self.name, tl, where(node)))
            _, signed = INT_TYPES[tl]
            if op in (">", ">="):
                le, re_ = re_, le
            strict = op in ("<", ">")
            f = ("BitVec.slt" if strict else "BitVec.sle") if signed else ("BitVec.ult" if strict else "BitVec.ule")
            return "(%s %s %s)" % (f, le, re_)
        raise TranslateError("%s: operator %s not in the subset%s" % (self.name, op, where(node)))

    def sstr_compare(self, node, kn):
        inner = node["inner"]
        callee = self.strip(inner[0])
        op = callee.get("referencedDecl", {}).get("name")
        if op not in ("operator==", "operator!="):
            raise TranslateError("%s: overloaded operator %s not in the subset%s" % (self.name, op, where(node)))
        a, b = self.sstr_arg(inner[1]), self.sstr_arg(inner[2])
        sym = op[len("operator"):]

        def tname(x):
            return "%s.type_" % x[1] if x[0] == "type" else json.dumps(x[1])
        if a[0] in ("type", "lit") and b[0] in ("type", "lit"):
            return "(%s %s %s)" % (tname(a), sym, tname(b))
        if a[0] == "cstr" and b[0] == "cstr":
            e = "(Mock.simpleStringEq (Mock.simpleStringOfCStr %s) (Mock.simpleStringOfCStr %s))" % (
                self.expr(a[1], kn), self.expr(b[1], kn))
            return e if sym == "==" else "(!%s)" % e
        raise TranslateError("%s: SimpleString comparison mixes a type name and a C string%s" % (self.name, where(node)))

    def call(self, node, kn):
        inner = node["inner"]
        callee = self.strip(inner[0])
        fn = callee.get("referencedDecl", {}).get("name")
        args = inner[1:]
        if fn == "doubles_equal" and len(args) == 3 and all(ctype(a) == "double" for a in args):
            return "(Mock.doubles_equal %s)" % " ".join(self.expr(a, kn) for a in args)
        if fn == "MemCmp" and len(args) == 3 and ctype(args[2]) == "unsigned long":
            return "(Mock.MemCmpSz %s)" % " ".join(self.expr(a, kn) for a in args)
        raise TranslateError("%s: call of %s not in the subset%s" % (self.name, fn, where(node)))

    def member_call(self, node, kn):
        inner = node["inner"]
        m = inner[0]
        if m.get("kind") == "MemberExpr" and m.get("name") == "isEqual" and len(inner) == 3:
            obj = self.strip(m["inner"][0])
            if obj.get("kind") == "ImplicitCastExpr" and obj.get("castKind") == "LValueToRValue" and \
                    obj["inner"][0].get("name") == "comparator_":
                c = self.member(obj["inner"][0], kn)
                return "(Mock.comparatorIsEqual %s %s %s)" % (c, self.expr(inner[1], kn), self.expr(inner[2], kn))
        raise TranslateError("%s: member call not in the subset%s" % (self.name, where(node)))

    def ascii_lit(self, text, node):
        if any(ord(c) < 32 or ord(c) > 126 for c in text):
            raise TranslateError("%s: string literal with non-printable / non-ASCII characters%s" % (self.name, where(node)))
        return json.dumps(text)

    # ----- SimpleString-valued expressions (toString): Lean type `Bytes`
    def sexpr(self, node, kn):
        k = node.get("kind")
        if k in ("ExprWithCleanups", "CXXBindTemporaryExpr", "MaterializeTemporaryExpr", "ParenExpr"):
            return self.sexpr(node["inner"][0], kn)
        if k == "ImplicitCastExpr" and node.get("castKind") in ("NoOp", "ConstructorConversion"):
            return self.sexpr(node["inner"][0], kn)
        if k in ("CXXConstructExpr", "CXXFunctionalCastExpr", "CXXTemporaryObjectExpr") and len(node.get("inner", [])) == 1:
            a = node["inner"][0]
            if k == "CXXFunctionalCastExpr":
                return self.sexpr(a, kn)
            t = ctype(a)
            if t == "const char *":
                lit = self.strip(a)
                if lit.get("kind") == "StringLiteral":
                    return "(Mock.ascii %s)" % self.ascii_lit(json.loads(lit["value"]), node)
                return "(Mock.simpleStringOfCStr %s)" % self.expr(a, kn)
            if t in ("SimpleString", "const SimpleString"):
                return self.sexpr(a, kn)
            raise TranslateError("%s: SimpleString constructed from %r%s" % (self.name, t, where(node)))
        if k == "CXXOperatorCallExpr":
            callee = self.strip(node["inner"][0])
            if callee.get("referencedDecl", {}).get("name") == "operator+" and len(node["inner"]) == 3:
                return "(%s ++ %s)" % (self.sexpr(node["inner"][1], kn), self.sexpr(node["inner"][2], kn))
            raise TranslateError("%s: SimpleString operator not in the subset%s" % (self.name, where(node)))
        if k == "CallExpr":
            callee = self.strip(node["inner"][0])
            ref = callee.get("referencedDecl", {})
            fn, ftype = ref.get("name"), ref.get("type", {}).get("qualType", "")
            args = [a for a in node["inner"][1:] if a.get("kind") != "CXXDefaultArgExpr"]
            if fn in ("StringFrom", "BracketsFormattedHexStringFrom") and ftype.startswith("SimpleString (") and ftype.endswith(")"):
                params = ftype[len("SimpleString ("):-1]
                if params not in STRINGFROM_PARAM:
                    raise TranslateError("%s: %s(%s) has no model%s" % (self.name, fn, params, where(node)))
                tag = STRINGFROM_PARAM[params]
                if len(args) != 1:
                    raise TranslateError("%s: %s called with %d explicit arguments%s" % (self.name, fn, len(args), where(node)))
                env = "env " if tag in NEEDS_ENV else ""
                return "(Mock.%s_%s %s%s)" % (fn, tag, env, self.expr(args[0], kn))
            if fn == "StringFromBinaryWithSizeOrNull" and len(args) == 2 and ctype(args[1]) == "unsigned long":
                return "(Mock.StringFromBinaryWithSizeOrNull %s %s)" % (self.expr(args[0], kn), self.expr(args[1], kn))
            if fn == "StringFromFormat" and len(args) == 2:
                lit = self.strip(args[0])
                a = self.strip(args[1])
                if lit.get("kind") == "StringLiteral" and a.get("kind") == "CXXMemberCallExpr" and \
                        a["inner"][0].get("name") == "asCharString" and a["inner"][0]["inner"][0].get("name") == "type_":
                    fmt = json.loads(lit["value"])
                    who = self.owner(a["inner"][0]["inner"][0]["inner"][0])
                    if fmt.count("%") == 1 and fmt.count("%s") == 1:
                        pre, post = fmt.split("%s")
                        return "(Mock.ascii %s ++ Mock.ascii %s.type_ ++ Mock.ascii %s)" % (
                            self.ascii_lit(pre, node), who, self.ascii_lit(post, node))
            raise TranslateError("%s: call of %s : %s not in the subset%s" % (self.name, fn, ftype, where(node)))
        if k == "CXXMemberCallExpr":
            m = node["inner"][0]
            if m.get("kind") == "MemberExpr" and m.get("name") == "valueToString" and len(node["inner"]) == 2:
                obj = self.strip(m["inner"][0])
                if obj.get("kind") == "ImplicitCastExpr" and obj.get("castKind") == "LValueToRValue" and \
                        obj["inner"][0].get("name") == "comparator_" and self.owner(obj["inner"][0]["inner"][0]) == "self":
                    return "(env.valueToString %s)" % self.expr(node["inner"][1], kn)
            raise TranslateError("%s: member call not in the subset%s" % (self.name, where(node)))
        raise TranslateError("%s: cannot translate SimpleString expression node %s%s" % (self.name, k, where(node)))

    # ----- statements (continuation style: `k` is the Lean text of what follows, None = falls off the end)
    def stmts(self, lst, kn, k, ind):
        if not lst:
            if k is None:
                raise TranslateError("%s: control can reach the end of the function without a return" % self.name)
            return k(kn, ind)
        head, rest = lst[0], lst[1:]
        return self.stmt(head, kn, lambda kn2, ind2: self.stmts(rest, kn2, k, ind2), ind, bool(rest) or k is not None)

    def stmt(self, node, kn, k, ind, has_next=True):
        kind = node.get("kind")
        pad = "  " * ind
        if kind == "CompoundStmt":
            return self.stmts(node.get("inner", []), kn, k, ind)
        if kind == "NullStmt":
            return k(kn, ind)
        if kind == "ReturnStmt":
            if not node.get("inner"):
                raise TranslateError("%s: return without a value" % self.name)
            e = node["inner"][0]
            self.ret_types.add(ctype(e))
            if self.mode == "sstr":
                return pad + self.sexpr(e, kn)
            txt = self.expr(e, kn)
            return pad + (txt if self.mode == "bool" else ".ok %s" % txt)
        if kind == "IfStmt":
            inner = node["inner"]
            if node.get("hasVar") or node.get("hasInit"):
                raise TranslateError("%s: if with a declaration%s" % (self.name, where(node)))
            cond, then = inner[0], inner[1]
            els = inner[2] if len(inner) > 2 else None
            c = self.expr(cond, kn)
            knt, knf = self.facts(cond, kn), self.facts_false(cond, kn)
            t = self.stmt(then, knt, k, ind + 1)
            if els is not None:
                e = self.stmt(els, knf, k, ind + 1 if els.get("kind") != "IfStmt" else ind)
                if els.get("kind") == "IfStmt":
                    return "%sif %s then\n%s\n%selse %s" % (pad, c, t, pad, e.lstrip())
                return "%sif %s then\n%s\n%selse\n%s" % (pad, c, t, pad, e)
            e = k(knf, ind + 1)
            return "%sif %s then\n%s\n%selse\n%s" % (pad, c, t, pad, e)
        if kind == "DoStmt" and self.mode == "getter":
            lit = self.strcmp_equal(node)
            kn2 = self.kn_add(kn, "self", lit)
            body = k(kn2, ind + 1)
            # assertCstrEqual fails iff StrCmp(expected, actual) != 0; equality of strings is symmetric
            return "%sif (self.type_ == %s) then\n%s\n%selse\n%s  .error (.typeMismatch %s)" % (
                pad, json.dumps(lit), body, pad, pad, json.dumps(lit))
        raise TranslateError("%s: statement %s not in the subset%s" % (self.name, kind, where(node)))

    def strcmp_equal(self, node):
        """`do { UtestShell::getCurrent()->assertCstrEqual("lit", type_.asCharString(), NULL, file, line); } while(0)`"""
        try:
            body, cond = node["inner"]
            c = self.strip(cond)
            if c.get("kind") == "ImplicitCastExpr":
                c = c["inner"][0]
            if not (c.get("kind") in ("IntegerLiteral", "CXXBoolLiteralExpr") and str(c.get("value")) in ("0", "False")):
                raise KeyError
            call = body["inner"]
            if len(call) != 1 or call[0]["kind"] != "CXXMemberCallExpr":
                raise KeyError
            call = call[0]["inner"]
            m = call[0]
            if m["kind"] != "MemberExpr" or m["name"] != "assertCstrEqual":
                raise KeyError
            g = self.strip(m["inner"][0])
            if g["kind"] != "CallExpr" or self.strip(g["inner"][0]).get("referencedDecl", {}).get("name") != "getCurrent":
                raise KeyError
            exp = self.strip(call[1])
            if exp["kind"] != "StringLiteral":
                raise KeyError
            act = self.strip(call[2])
            if act["kind"] != "CXXMemberCallExpr" or act["inner"][0]["name"] != "asCharString":
                raise KeyError
            t = act["inner"][0]["inner"][0]
            if t["kind"] != "MemberExpr" or t["name"] != "type_" or self.owner(t["inner"][0]) != "self":
                raise KeyError
            return json.loads(exp["value"])
        except (KeyError, IndexError, TypeError, ValueError):
            raise TranslateError("%s: do-statement is not `STRCMP_EQUAL(\"<literal>\", type_.asCharString())`%s" % (self.name, where(node)))


# ---- shape checks of the hand-modelled functions (Model/MockValue.lean, Model/MockNamedValueList.lean): comment-stripped
# bodies, whitespace removed outside string literals, compared with translate/c09_shapes.py; a change means the hand-written
# model must be looked at again (TranslateError, like a broken obligation).  The real functions are additionally run by
# the h_c09 correspondence.
def nows_outside_strings(t):
    import re
    return "".join(m.group(0) if m.group(0)[0] in "\"'" else re.sub(r"\s+", "", m.group(0))
                   for m in re.finditer(r'"(?:\\.|[^"\\])*"|\'(?:\\.|[^\'\\])*\'|[^"\']+', t))


def check_callee_shapes():
    import re
    from .common import read, strip_comments, function_body
    from .c09_shapes import SHAPES
    cache = {}
    for rel, what, model, sig, want in SHAPES:
        if rel not in cache:
            cache[rel] = strip_comments(read(rel))
        got = nows_outside_strings(function_body(cache[rel], sig))
        if got != want:
            raise TranslateError("hand-modelled function changed shape: %s in %s [model: %s] is now `%s`" % (what, rel, model, got[:300]))
    hdr = strip_comments(read("include/CppUTest/SimpleString.h"))
    if not re.search(r"SimpleString\s+StringFrom\s*\(\s*double\s+value\s*,\s*int\s+precision\s*=\s*6\s*\)\s*;", hdr):
        raise TranslateError("StringFrom(double, int precision = 6): the default precision changed (Env.g6 is the %.6g rendering)")


def platform_predicates():
    """IsNan / IsInf / Fabs as wired in the Gcc platform (same extraction and text as C03's Gen.AssertShapes.platformPredicates)"""
    from . import extract_asserts
    return extract_asserts.platform_predicates()


def body_of(d):
    return [c for c in d["inner"] if c.get("kind") == "CompoundStmt"][0]


def extract_setters(docs):
    """(type literal, member written, C type of the member = C type of the setter's argument) for every setter that stores
    a literal type name.  Checked: the stored payload is the argument itself (a plain load of the parameter, same type, no
    conversion), setMemoryBuffer also stores `size_ = size`, setValue(double) forwards to setValue(value, defaultDoubleTolerance)."""
    out = []
    helper = Fn("setter", [], "bool")
    forwards = 0
    for d in docs:
        if d.get("kind") != "CXXMethodDecl" or d.get("name") not in ("setValue", "setMemoryBuffer") or not has_body(d):
            continue
        sig = d.get("type", {}).get("qualType")
        params = {c["name"]: ctype(c) for c in d["inner"] if c.get("kind") == "ParmVarDecl" and "name" in c}
        lit, members, sizes = None, [], []

        def param_load(n):
            """name of the parameter if `n` is a plain load of one, else None"""
            if n.get("kind") == "ImplicitCastExpr" and n.get("castKind") == "LValueToRValue":
                r = n["inner"][0]
                if r.get("kind") == "DeclRefExpr" and r.get("referencedDecl", {}).get("kind") == "ParmVarDecl":
                    return r["referencedDecl"]["name"]
            return None

        def walk(n):
            nonlocal lit
            if n.get("kind") == "CXXOperatorCallExpr":
                callee = helper.strip(n["inner"][0])
                if callee.get("referencedDecl", {}).get("name") == "operator=":
                    lhs = helper.strip(n["inner"][1])
                    if lhs.get("kind") == "MemberExpr" and lhs.get("name") == "type_":
                        a = helper.sstr_arg(n["inner"][2])
                        if a[0] != "lit":
                            raise TranslateError("setter %s assigns a non-literal type name%s" % (sig, where(n)))
                        if lit is not None:
                            raise TranslateError("setter %s assigns type_ twice%s" % (sig, where(n)))
                        lit = a[1]
                        return
            if n.get("kind") == "BinaryOperator" and n.get("opcode") == "=":
                lhs, rhs = n["inner"]
                path, m = [], lhs
                while m.get("kind") == "MemberExpr":
                    path.append(m["name"]); m = m["inner"][0]
                path.reverse()
                pn = param_load(rhs)
                if path and path[0] == "value_" and len(path) > 1:
                    name = path[1]
                    for x in path[2:]:
                        name += x if name.endswith("_") else "_" + x
                    if pn is None or params.get(pn) != ctype(lhs):
                        raise TranslateError("setter %s: %s is not assigned the argument itself (same type, no conversion)%s"
                                             % (sig, name, where(n)))
                    members.append((name, ctype(lhs), pn))
                    return
                if path == ["size_"]:
                    if pn is None or params.get(pn) != "unsigned long":
                        raise TranslateError("setter %s: size_ is not assigned a size_t argument%s" % (sig, where(n)))
                    sizes.append(pn)
                    return
                raise TranslateError("setter %s assigns to %s%s" % (sig, ".".join(path) or "?", where(n)))
            if n.get("kind") == "CompoundAssignOperator" or (n.get("kind") == "UnaryOperator" and n.get("opcode") in ("++", "--")):
                raise TranslateError("setter %s modifies something in place%s" % (sig, where(n)))
            for c in n.get("inner", []):
                walk(c)
        body = body_of(d)
        if sig == "void (double)":
            try:
                (call,) = body["inner"]
                ok = call["kind"] == "CXXMemberCallExpr" and call["inner"][0]["name"] == "setValue" and \
                    call["inner"][0]["inner"][0]["kind"] == "CXXThisExpr" and param_load(call["inner"][1]) == "value" and \
                    helper.strip(call["inner"][2]["inner"][0]).get("referencedDecl", {}).get("name") == "defaultDoubleTolerance" and \
                    len(call["inner"]) == 3
            except (KeyError, IndexError, ValueError, TypeError):
                ok = False
            if not ok:
                raise TranslateError("setValue(double) is not `setValue(value, defaultDoubleTolerance);`")
            forwards += 1
            continue
        walk(body)
        if lit is None:
            raise TranslateError("setter %s stores no type name" % sig)
        if not members:
            raise TranslateError("setter for %r writes no union member" % lit)
        if d.get("name") == "setMemoryBuffer":
            if sizes != ["size"] or [m[2] for m in members] != ["value"]:
                raise TranslateError("setMemoryBuffer does not store (value, size)")
        elif sizes:
            raise TranslateError("setter %s writes size_" % sig)
        for name, t, _ in members:
            out.append((lit, name, t))
    if forwards != 1:
        raise TranslateError("setValue(double) not found")
    lits = [l for (l, _, _) in out]
    for l in set(lits):
        ms = [m for (x, m, _) in out if x == l]
        if len(ms) != len(set(ms)):
            raise TranslateError("two setters store the type name %r" % l)
    if not out:
        raise TranslateError("no setValue overloads found")
    return out


def default_tolerance(docs):
    for d in docs:
        if d.get("kind") == "VarDecl" and d.get("name") == "defaultDoubleTolerance" and d.get("inner"):
            lit = d["inner"][0]
            if lit.get("kind") == "FloatingLiteral" and ctype(lit) == "double":
                v = float(lit["value"])
                if not (0 < v < 1e6) or v != v:
                    raise TranslateError("defaultDoubleTolerance has the unusual value %r" % lit["value"])
                return repr(v)
    raise TranslateError("initialiser of MockNamedValue::defaultDoubleTolerance not found")


def lean_str(s):
    return json.dumps(s)


# ---- return-value readers: every integer reader of MockCheckedActualCall and MockSupport and the getter it ends in
RET_WORDS = ["Int", "UnsignedInt", "LongInt", "UnsignedLongInt", "LongLongInt", "UnsignedLongLongInt"]
RET_CTYPE = {"int": "int", "unsigned int": "uint", "long int": "long", "unsigned long int": "ulong",
             "cpputest_longlong": "llong", "cpputest_ulonglong": "ullong"}


def ret_readers():
    """rows (level, reader, kind of the declared return type, form, target):
    form "plain": body is `return returnValue().<target>();` (target = a MockNamedValue getter);
    form "orDefault": body returns the default exactly when `hasReturnValue()` is false, otherwise `<target>()`
    (target = a plain reader of the same level).  A body of another shape is reported with its normalised text as target
    (the table then differs from the required one).  Also shape-checked: the `andReturnValue(<integer type>)` overloads store
    their argument under the name "returnValue", `hasReturnValue` = the name is not empty, the two `returnValue()`."""
    import re
    from .common import read, strip_comments, function_body
    rows = []
    for level, src, cls, plain_name, form_od in (
            ("call", "src/CppUTestExt/MockActualCall.cpp", "MockCheckedActualCall", "return%sValue",
             r"if\(!hasReturnValue\(\)\)\{return(\w+);\}return(\w+)\(\);"),
            ("support", "src/CppUTestExt/MockSupport.cpp", "MockSupport", None,
             r"if\(hasReturnValue\(\)\)\{return(\w+)\(\);\}return(\w+);")):
        c = strip_comments(read(src))
        for w in RET_WORDS:
            lw = w[0].lower() + w[1:]
            for form, reader in (("plain", (plain_name % w) if plain_name else lw + "ReturnValue"),
                                 ("orDefault", "return%sValueOrDefault" % w)):
                m = re.search(r"([\w ]+?)\s+%s::%s\s*\(\s*([\w ]*?)\s*\)\s*\{" % (cls, reader), c)
                if not m:
                    raise TranslateError("%s::%s not found" % (cls, reader))
                rt = re.sub(r"\s+", " ", m.group(1)).strip()
                if rt not in RET_CTYPE:
                    raise TranslateError("%s::%s returns the unmodelled type %r" % (cls, reader, rt))
                body = nows_outside_strings(function_body(c, re.escape(m.group(0)[:-1]).replace("\\ ", "\\s*") + r"\{"))
                target = body
                if form == "plain":
                    mm = re.fullmatch(r"returnreturnValue\(\)\.(\w+)\(\);", body)
                    if mm:
                        target = mm.group(1)
                else:
                    mm = re.fullmatch(form_od, body)
                    if mm:
                        param = (m.group(2).split() or ["?"])[-1]
                        dflt, callee = (mm.group(1), mm.group(2)) if level == "call" else (mm.group(2), mm.group(1))
                        if dflt == param:
                            target = callee
                rows.append((level, reader, RET_CTYPE[rt], form, target))
    # shape checks of what the table takes for granted
    e = strip_comments(read("src/CppUTestExt/MockExpectedCall.cpp"))
    for t in RET_CTYPE:
        m = re.search(r"MockCheckedExpectedCall::andReturnValue\s*\(\s*%s\s+value\s*\)\s*\{" % t.replace(" ", r"\s+"), e)
        if not m:
            raise TranslateError("MockCheckedExpectedCall::andReturnValue(%s value) not found" % t)
        body = nows_outside_strings(function_body(e, re.escape(m.group(0)[:-1]).replace("\\ ", "\\s*") + r"\{"))
        if body != 'returnValue_.setName("returnValue");returnValue_.setValue(value);return*this;':
            raise TranslateError("andReturnValue(%s) does not store its argument as the return value: `%s`" % (t, body[:200]))
    a = strip_comments(read("src/CppUTestExt/MockActualCall.cpp"))
    sup = strip_comments(read("src/CppUTestExt/MockSupport.cpp"))
    for text, sig, want in (
            (a, r"bool\s+MockCheckedActualCall::hasReturnValue\s*\(\s*\)\s*\{", "return!returnValue().getName().isEmpty();"),
            (a, r"MockNamedValue\s+MockCheckedActualCall::returnValue\s*\(\s*\)\s*\{",
             'checkExpectations();if(matchingExpectation_)returnmatchingExpectation_->returnValue();returnMockNamedValue("no return value");'),
            (e, r"MockNamedValue\s+MockCheckedExpectedCall::returnValue\s*\(\s*\)\s*\{", "returnreturnValue_;"),
            (sup, r"MockNamedValue\s+MockSupport::returnValue\s*\(\s*\)\s*\{",
             'if(lastActualFunctionCall_)returnlastActualFunctionCall_->returnValue();returnMockNamedValue("");'),
            (sup, r"bool\s+MockSupport::hasReturnValue\s*\(\s*\)\s*\{",
             "if(lastActualFunctionCall_)returnlastActualFunctionCall_->hasReturnValue();returnfalse;")):
        got = nows_outside_strings(function_body(text, sig))
        if got != want:
            raise TranslateError("return-value plumbing changed shape: %s is now `%s`" % (sig[:60], got[:200]))
    return rows


# ---- typed entry points of the mock API through which an integer parameter value is created
CPP_KIND = {"int": "int", "unsigned int": "uint", "long int": "long", "unsigned long int": "ulong",
            "cpputest_longlong": "llong", "cpputest_ulonglong": "ullong"}
CALL_CLASSES = (("actual", "include/CppUTestExt/MockActualCall.h", "MockActualCall", "src/CppUTestExt/MockActualCall.cpp",
                 "MockCheckedActualCall",
                 "MockNamedValueactualParameter(name);actualParameter.setValue(value);checkInputParameter(actualParameter);return*this;"),
                ("expected", "include/CppUTestExt/MockExpectedCall.h", "MockExpectedCall", "src/CppUTestExt/MockExpectedCall.cpp",
                 "MockCheckedExpectedCall",
                 "MockNamedValue*newParameter=newMockExpectedFunctionParameter(name);inputParameters_->add(newParameter);"
                 "newParameter->setValue(value);return*this;"))


def api_entries():
    """(a) the inline `withParameter(name, <integer type> value)` overloads of MockActualCall / MockExpectedCall and the explicit
    method each forwards to; (b) the explicit `with…IntParameter(name, T value)` methods of the checked call classes, shape-checked
    to store `value` through `setValue(value)` (overload selected by T)."""
    import re
    from .common import read, strip_comments, function_body
    overloads, explicit = [], []
    for cls, hdr, base, src, impl, want in CALL_CLASSES:
        h = strip_comments(read(hdr))
        found = {}
        for m in re.finditer(r"%s\s*&\s*withParameter\s*\(\s*const\s+SimpleString\s*&\s*name\s*,\s*([\w ]+?)\s+value\s*\)\s*"
                             r"\{\s*return\s+(\w+)\s*\(\s*name\s*,\s*value\s*\)\s*;\s*\}" % base, h):
            t = re.sub(r"\s+", " ", m.group(1))
            if t in CPP_KIND:
                if t in found:
                    raise TranslateError("%s: two withParameter overloads for %s" % (base, t))
                found[t] = m.group(2)
        for t, k in CPP_KIND.items():
            if t not in found:
                raise TranslateError("%s::withParameter(name, %s value) is not an inline forwarder `return withX(name, value);`" % (base, t))
            overloads.append((cls, k, found[t]))
        c = strip_comments(read(src))
        methods = sorted(set(found.values()) | {"with%sParameter" % x for x in
                                                ("Int", "UnsignedInt", "LongInt", "UnsignedLongInt", "LongLongInt", "UnsignedLongLongInt")})
        for meth in methods:
            m = re.search(r"%s::%s\s*\(\s*const\s+SimpleString\s*&\s*name\s*,\s*([\w ]+?)\s+value\s*\)\s*\{" % (impl, meth), c)
            if not m:
                raise TranslateError("%s::%s(const SimpleString& name, T value) not found" % (impl, meth))
            t = re.sub(r"\s+", " ", m.group(1))
            if t not in CPP_KIND:
                raise TranslateError("%s::%s takes the unmodelled type %s" % (impl, meth, t))
            body = nows_outside_strings(function_body(c, re.escape(m.group(0)[:-1]).replace("\\ ", "\\s*") + r"\{"))
            if body != want:
                raise TranslateError("%s::%s does not store its argument through setValue(value): `%s`" % (impl, meth, body[:200]))
            explicit.append((cls, meth, CPP_KIND[t]))
    return overloads, explicit


# ---- non-integer typed entry points (bool, double with / without tolerance, string, the three pointer kinds, memory buffer)
X_PARAMS = {"boolvalue": "bool", "doublevalue": "double", "doublevalue,doubletolerance": "double2",
            "constchar*value": "string", "void*value": "ptr", "constvoid*value": "cptr", "void(*value)()": "fptr",
            "constunsignedchar*value,size_tsize": "membuf"}
X_ARGS = {"bool": "value", "double": "value", "double2": "value,tolerance", "string": "value", "ptr": "value", "cptr": "value",
          "fptr": "value", "membuf": "value,size"}
X_ACTUAL = ["bool", "double", "string", "ptr", "cptr", "fptr", "membuf"]      # the actual side has no tolerance argument
# the local variable may have any name; on the expectation side storing the argument and linking the new value into the list
# are independent statements (either order)
X_TEMPLATES = {
    "actual": [r"MockNamedValue(?P<v>\w+)\(name\);(?P=v)\.(?P<set>\w+\([\w,]*\));checkInputParameter\((?P=v)\);return\*this;"],
    "expected": [r"MockNamedValue\*(?P<v>\w+)=newMockExpectedFunctionParameter\(name\);inputParameters_->add\((?P=v)\);"
                 r"(?P=v)->(?P<set>\w+\([\w,]*\));return\*this;",
                 r"MockNamedValue\*(?P<v>\w+)=newMockExpectedFunctionParameter\(name\);(?P=v)->(?P<set>\w+\([\w,]*\));"
                 r"inputParameters_->add\((?P=v)\);return\*this;"]}


def api_entries_x():
    """(a) the inline `withParameter(name, <non-integer argument(s)>)` overloads and the explicit method each forwards to, with the
    arguments passed on in order; (b) the explicit methods of the checked call classes: which setter call stores the argument(s)
    (`setValue(value)`, `setValue(value,tolerance)`, `setMemoryBuffer(value,size)` — recorded as found, compared with the
    required table by a proof obligation)."""
    import re
    from .common import read, strip_comments, function_body
    overloads, explicit = [], []
    for cls, hdr, base, src, impl, _ in CALL_CLASSES:
        h = strip_comments(read(hdr))
        found = {}
        for m in re.finditer(r"%s\s*&\s*withParameter\s*\(\s*const\s+SimpleString\s*&\s*name\s*,\s*(.*?)\)\s*\{\s*return\s+(\w+)\s*"
                             r"\(\s*name\s*,\s*([\w ,]*?)\s*\)\s*;\s*\}" % base, h):
            params = re.sub(r"\s+", "", m.group(1))
            if params not in X_PARAMS:
                continue                                  # the integer overloads: api_entries()
            k = X_PARAMS[params]
            if k in found:
                raise TranslateError("%s: two withParameter overloads for (%s)" % (base, params))
            args = re.sub(r"\s+", "", m.group(3))
            if args != X_ARGS[k]:
                raise TranslateError("%s::withParameter(name, %s) passes (%s) on instead of (%s)" % (base, params, args, X_ARGS[k]))
            found[k] = m.group(2)
        want_kinds = X_ACTUAL if cls == "actual" else X_ACTUAL + ["double2"]
        for k in want_kinds:
            if k not in found:
                raise TranslateError("%s::withParameter for %s is not an inline forwarder `return withX(name, …);`" % (base, k))
            overloads.append((cls, k, found[k]))
        for k in found:
            if k not in want_kinds:
                raise TranslateError("%s::withParameter has an unmodelled overload of kind %s" % (base, k))
        c = strip_comments(read(src))
        seen = set()
        for m in re.finditer(r"%s::(with\w+Parameter)\s*\(\s*const\s+SimpleString\s*&\s*name\s*,\s*([^{;]*?)\)\s*\{" % impl, c):
            params = re.sub(r"\s+", "", m.group(2))
            if params not in X_PARAMS:
                continue
            k, meth = X_PARAMS[params], m.group(1)
            if (meth, k) in seen:
                raise TranslateError("%s::%s(%s) is defined twice" % (impl, meth, params))
            seen.add((meth, k))
            body = nows_outside_strings(function_body(c[m.start():], re.escape(m.group(0)[:-1]).replace("\\ ", "\\s*") + r"\{"))
            mm = None
            for t in X_TEMPLATES[cls]:
                mm = mm or re.fullmatch(t, body)
            if not mm:
                raise TranslateError("%s::%s(%s) does not store its argument through one setter call: `%s`" % (impl, meth, params, body[:200]))
            explicit.append((cls, meth, k, mm.group("set")))
        for (_, k, meth) in [o for o in overloads if o[0] == cls]:
            if (meth, k) not in seen:
                raise TranslateError("%s::%s for an argument of kind %s not found" % (impl, meth, k))
    return overloads, explicit


def has_input_parameter():
    """`MockCheckedExpectedCall::hasInputParameter`: which operand's `equals` is asked (the receiver is the LEFT operand)"""
    import re
    from .common import read, strip_comments, function_body
    e = strip_comments(read("src/CppUTestExt/MockExpectedCall.cpp"))
    body = nows_outside_strings(function_body(e, r"bool\s+MockCheckedExpectedCall::hasInputParameter\s*\(\s*const\s+MockNamedValue\s*&\s*parameter\s*\)\s*\{"))
    m = re.fullmatch(r"MockNamedValue\*(?P<v>\w+)=inputParameters_->getValueByName\(parameter\.getName\(\)\);"
                     r"return\(?(?P=v)\)?\?(?P<call>.*?):ignoreOtherParameters_;", body)
    if not m or m.group("v") == "parameter":
        raise TranslateError("MockCheckedExpectedCall::hasInputParameter changed shape: `%s`" % body[:200])
    v, call = m.group("v"), m.group("call")
    if call == "%s->equals(parameter)" % v:
        return "equalsGen p parameter"
    if call in ("parameter.equals(*%s)" % v, "parameter.equals(*(%s))" % v):
        return "equalsGen parameter p"
    raise TranslateError("MockCheckedExpectedCall::hasInputParameter: comparison `%s` not understood" % call[:120])


# ---- the data store of MockSupport: setData overloads / setDataObject / setDataConstObject, retrieveDataFromStore, getData
D_PARAMS = {"boolvalue": "bool", "intvalue": "int", "unsignedintvalue": "uint", "doublevalue": "double", "constchar*value": "string",
            "void*value": "ptr", "constvoid*value": "cptr", "void(*value)()": "fptr",
            "constSimpleString&type,void*value": "obj", "constSimpleString&type,constvoid*value": "cobj"}


def data_setters():
    """rows (method, kind of the argument list, the setter call made on the stored value): every `MockSupport::setData` overload,
    `setDataObject`, `setDataConstObject`; each body must be `MockNamedValue* newData = retrieveDataFromStore(name); newData-><setter>;`.
    Shape-checked: retrieveDataFromStore (existing value of that name, else a new one appended), getData (copy of the value, a
    fresh MockNamedValue("") when there is none), hasData."""
    import re
    from .common import read, strip_comments, function_body
    c = strip_comments(read("src/CppUTestExt/MockSupport.cpp"))
    rows, seen = [], set()
    for m in re.finditer(r"void\s+MockSupport::(setData|setDataObject|setDataConstObject)\s*\(\s*const\s+SimpleString\s*&\s*name\s*,\s*([^{;]*?)\)\s*\{", c):
        params = re.sub(r"\s+", "", m.group(2))
        if params not in D_PARAMS:
            raise TranslateError("MockSupport::%s(name, %s): unmodelled argument list" % (m.group(1), params))
        k = D_PARAMS[params]
        if (m.group(1), k) in seen:
            raise TranslateError("MockSupport::%s(%s) is defined twice" % (m.group(1), params))
        seen.add((m.group(1), k))
        body = nows_outside_strings(function_body(c[m.start():], re.escape(m.group(0)[:-1]).replace("\\ ", "\\s*") + r"\{"))
        mm = re.fullmatch(r"MockNamedValue\*(?P<v>\w+)=retrieveDataFromStore\(name\);(?P=v)->(\w+\([\w,]*\));", body)
        if not mm:
            raise TranslateError("MockSupport::%s(%s) is not `retrieveDataFromStore(name)-><one setter call>`: `%s`" % (m.group(1), params, body[:200]))
        rows.append((m.group(1), k, mm.group(2)))
    for sig, want in (
            (r"MockNamedValue\s*\*\s*MockSupport::retrieveDataFromStore\s*\(\s*const\s+SimpleString\s*&\s*name\s*\)\s*\{",
             "MockNamedValue*newData=data_.getValueByName(name);if(newData==NULLPTR){newData=newMockNamedValue(name);data_.add(newData);}returnnewData;"),
            (r"MockNamedValue\s+MockSupport::getData\s*\(\s*const\s+SimpleString\s*&\s*name\s*\)\s*\{",
             'MockNamedValue*value=data_.getValueByName(name);if(value==NULLPTR)returnMockNamedValue("");return*value;'),
            (r"bool\s+MockSupport::hasData\s*\(\s*const\s+SimpleString\s*&\s*name\s*\)\s*\{", "returndata_.getValueByName(name)!=NULLPTR;")):
        got = nows_outside_strings(function_body(c, sig))
        if got != want:
            raise TranslateError("data store changed shape: %s is now `%s`" % (sig[:50], got[:200]))
    if not rows:
        raise TranslateError("no MockSupport::setData overloads found")
    return rows


def generate():
    check_callee_shapes()
    docs = clang_ast()
    defs = {}
    for d in docs:       # the dump filter `MockNamedValue::` selects members of that class only
        if d.get("kind") == "CXXMethodDecl" and has_body(d):
            defs.setdefault(d["name"], []).append(d)
    setters = extract_setters(docs)
    out = [(HEADER % ("translate/cxx2lean_c09.py (clang++-14 JSON AST)", SRC)).rstrip("\n"),
           "import CppUModel.Model.MockValue",
           "set_option maxRecDepth 4000",
           "namespace Gen.MockEquals",
           "open Mock",
           "",
           "/-- (type-name literal, union member written, C type) of the setValue / setMemoryBuffer overloads -/",
           "def setters : List (String × String × String) :=",
           "  [ " + ",\n    ".join("(%s, %s, %s)" % (lean_str(a), lean_str(b), lean_str(c)) for a, b, c in setters) + " ]",
           ""]
    # equals
    if len(defs.get("equals", [])) != 1:
        raise TranslateError("MockNamedValue::equals: expected exactly one definition, found %d" % len(defs.get("equals", [])))
    d = defs["equals"][0]
    params = [c for c in d["inner"] if c.get("kind") == "ParmVarDecl"]
    if len(params) != 1 or params[0].get("name") != "p" or ctype(params[0]) != "const MockNamedValue &":
        raise TranslateError("equals: signature changed")
    f = Fn("equals", setters, "bool")
    body = f.stmts(body_of(d)["inner"], {"self": None, "p": None, "same": False, "custom": True}, None, 1)
    if f.ret_types != {"bool"}:
        raise TranslateError("equals returns %r" % f.ret_types)
    out += ["/-- `bool MockNamedValue::equals(const MockNamedValue& p) const` -/",
            "def equalsGen (self p : MVal) : Bool :=", body, ""]
    stats = {"equals_if": body.count("if "), "equals_reads": f.reads}
    for g in GETTERS:
        if len(defs.get(g, [])) != 1:
            raise TranslateError("MockNamedValue::%s: expected exactly one definition" % g)
        d = defs[g][0]
        if [c for c in d["inner"] if c.get("kind") == "ParmVarDecl"]:
            raise TranslateError("%s: takes parameters" % g)
        f = Fn(g, setters, "getter")
        body = f.stmts(body_of(d)["inner"], {"self": None, "p": None, "same": False, "custom": False}, None, 1)
        if len(f.ret_types) != 1 or list(f.ret_types)[0] not in INT_TYPES:
            raise TranslateError("%s returns %r" % (g, f.ret_types))
        rt = list(f.ret_types)[0]
        w, s = INT_TYPES[rt]
        out += ["/-- `%s MockNamedValue::%s() const`; `.error` = the STRCMP_EQUAL on the type name fails the test -/" % (rt, g),
                "def %sGen (self : MVal) : Except Fail (BitVec %d) :=" % (g, w), body,
                "def %sSigned : Bool := %s" % (g, "true" if s else "false"), ""]
        stats[g + "_if"] = body.count("if ")
    # the other getters (bool, double, string, pointers, buffer, size, object pointers)
    for g in OTHER_GETTERS:
        if len(defs.get(g, [])) != 1:
            raise TranslateError("MockNamedValue::%s: expected exactly one definition" % g)
        d = defs[g][0]
        if [c for c in d["inner"] if c.get("kind") == "ParmVarDecl"]:
            raise TranslateError("%s: takes parameters" % g)
        f = Fn(g, setters, "getter")
        custom = g in ("getObjectPointer", "getConstObjectPointer")     # read without a type test: meaningful for object values
        body = f.stmts(body_of(d)["inner"], {"self": None, "p": None, "same": False, "custom": custom}, None, 1)
        if len(f.ret_types) != 1:
            raise TranslateError("%s returns %r" % (g, f.ret_types))
        rt = list(f.ret_types)[0]
        lt = LEAN_RET.get(rt) or ("(BitVec %d)" % INT_TYPES[rt][0] if rt in INT_TYPES else None)
        if lt is None:
            raise TranslateError("%s returns the unmodelled type %r" % (g, rt))
        out += ["/-- `%s MockNamedValue::%s() const` -/" % (rt, g),
                "def %sGen (self : MVal) : Except Fail %s :=" % (g, lt), body, ""]
    # compatibleForCopying
    if len(defs.get("compatibleForCopying", [])) != 1:
        raise TranslateError("MockNamedValue::compatibleForCopying: expected exactly one definition")
    d = defs["compatibleForCopying"][0]
    params = [c for c in d["inner"] if c.get("kind") == "ParmVarDecl"]
    if len(params) != 1 or params[0].get("name") != "p" or ctype(params[0]) != "const MockNamedValue &":
        raise TranslateError("compatibleForCopying: signature changed")
    f = Fn("compatibleForCopying", setters, "bool")
    body = f.stmts(body_of(d)["inner"], {"self": None, "p": None, "same": False, "custom": False}, None, 1)
    out += ["/-- `bool MockNamedValue::compatibleForCopying(const MockNamedValue& p) const` -/",
            "def compatibleForCopyingGen (self p : MVal) : Bool :=", body, ""]
    # toString
    if len(defs.get("toString", [])) != 1:
        raise TranslateError("MockNamedValue::toString: expected exactly one definition")
    d = defs["toString"][0]
    if [c for c in d["inner"] if c.get("kind") == "ParmVarDecl"]:
        raise TranslateError("toString: takes parameters")
    f = Fn("toString", setters, "sstr")
    body = f.stmts(body_of(d)["inner"], {"self": None, "p": None, "same": False, "custom": True}, None, 1)
    if f.ret_types != {"SimpleString"}:
        raise TranslateError("toString returns %r" % f.ret_types)
    out += ["/-- `SimpleString MockNamedValue::toString() const`; `env` = libc / environment renderings (Mock.Env) -/",
            "def toStringGen (env : Env) (self : MVal) : Bytes :=", body, ""]
    stats["toString_if"] = body.count("if ")
    out += ["/-- `const double MockNamedValue::defaultDoubleTolerance`: the tolerance `setValue(double)` stores -/",
            "def defaultDoubleTolerance : Float := %s" % default_tolerance(docs), "",
            "/-- the platform predicates doubles_equal and StringFrom(double) rely on (src/Platforms/Gcc/UtestPlatform.cpp) -/",
            "def platformPredicates : List (String × String) :=",
            "  [ " + ",\n    ".join("(%s, %s)" % (lean_str(a), lean_str(b)) for a, b in platform_predicates()) + " ]", ""]
    overloads, explicit = api_entries()
    out += ["/-- C++ `withParameter(name, <integer type> value)` overloads of MockActualCall / MockExpectedCall:",
            "    (call class, kind of the argument type, explicit method the inline forwarder calls) -/",
            "def cppOverloads : List (String × String × String) :=",
            "  [ " + ",\n    ".join("(%s, %s, %s)" % tuple(map(lean_str, x)) for x in overloads) + " ]", "",
            "/-- explicit typed methods of MockCheckedActualCall / MockCheckedExpectedCall: (call class, method, kind of the declared",
            "    parameter type; the body stores `value` through the `setValue` overload of that type) -/",
            "def cppExplicit : List (String × String × String) :=",
            "  [ " + ",\n    ".join("(%s, %s, %s)" % tuple(map(lean_str, x)) for x in explicit) + " ]", ""]
    overloads_x, explicit_x = api_entries_x()
    out += ["/-- C++ `withParameter(name, <non-integer argument(s)>)` overloads: (call class, kind of the argument list, explicit method",
            "    the inline forwarder passes the arguments on to, in order) -/",
            "def cppOverloadsX : List (String × String × String) :=",
            "  [ " + ",\n    ".join("(%s, %s, %s)" % tuple(map(lean_str, x)) for x in overloads_x) + " ]", "",
            "/-- explicit typed methods for non-integer arguments: (call class, method, kind of its argument list, the one setter call",
            "    that stores the argument(s) in the new parameter value) -/",
            "def cppExplicitX : List (String × String × String × String) :=",
            "  [ " + ",\n    ".join("(%s, %s, %s, %s)" % tuple(map(lean_str, x)) for x in explicit_x) + " ]", "",
            "/-- `bool MockCheckedExpectedCall::hasInputParameter(const MockNamedValue& parameter)`; `found` = the expectation's own",
            "    parameter of that name (`inputParameters_->getValueByName(parameter.getName())`), `parameter` = the actual one -/",
            "def hasInputParameterGen (found : Option MVal) (parameter : MVal) (ignoreOtherParameters_ : Bool) : Bool :=",
            "  match found with",
            "  | some p => %s" % has_input_parameter(),
            "  | none => ignoreOtherParameters_", ""]
    out += ["/-- `MockSupport::setData` overloads, `setDataObject`, `setDataConstObject`: (method, kind of the argument list, the setter",
            "    call made on the value found or created by `retrieveDataFromStore(name)`) -/",
            "def dataSetters : List (String × String × String) :=",
            "  [ " + ",\n    ".join("(%s, %s, %s)" % tuple(map(lean_str, x)) for x in data_setters()) + " ]", ""]
    out += ["/-- integer return-value readers: (level: call = MockCheckedActualCall, support = MockSupport; reader; kind of its return",
            "    type; plain ↦ the MockNamedValue getter it ends in / orDefault ↦ the plain reader used when a return value exists) -/",
            "def retReaders : List (String × String × String × String × String) :=",
            "  [ " + ",\n    ".join("(%s, %s, %s, %s, %s)" % tuple(map(lean_str, x)) for x in ret_readers()) + " ]", ""]
    out += ["end Gen.MockEquals", ""]
    return "\n".join(out), stats


def run():
    text, stats = generate()
    core.write_if_changed(os.path.join(core.LEAN, "CppUModel", "Gen", "MockEquals.lean"), text)
    return []


if __name__ == "__main__":
    t, s = generate()
    print(t)
    print("-- stats:", s)
