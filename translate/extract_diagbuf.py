"""cxx2lean for C14: regenerates lean/CppUModel/Gen/DiagnosticsBuffer.lean from the clang++-14 typed JSON AST of
src/CppUTest/MemoryLeakDetector.cpp on every check run.

Translated (the CODE, not its text: renaming a local or re-spelling an expression gives the same Lean term or an
equivalent one, which the equality theorems of Props/C14.lean re-prove):

  SimpleStringBuffer::SimpleStringBuffer, clear, add, setWriteLimit, resetWriteLimit, reachedItsCapacity
      as functions on the two `size_t` counters (`BitVec 64`; `int` = `BitVec 32`, every implicit conversion that clang
      inserted is translated), with the writes to `buffer_` and the `PlatformSpecificVSNprintf(buffer_ + off, size, ..)`
      call recorded as effects; the value `vsnprintf` returns is a parameter;
  MemoryLeakOutputStringBuffer::startMemoryLeakReporting
      its `size_t` arithmetic (the `sizeof`s are those clang computed for the macro literals) and the order of its effects;
  MemoryLeakOutputStringBuffer::stopMemoryLeakReporting, reportMemoryLeak, reportFailure, clear and the eight one-line
  `add…` helpers
      as statement lists over a small call language (`Gen.DiagBuf.Stmt`) that `Model/DiagnosticsCode.lean` interprets.

Subset: CompoundStmt, IfStmt (condition over scalars; branches = assignments, or a leading `return`), DeclStmt of scalars,
assignments / `+=` to members and locals, `+ - < <= > >= == !=`, integer/character literals, the enum constant, sizeof of a
string literal, IntegralCast / LValueToRValue / NoOp casts, the va_list boiler plate.  Anything else raises TranslateError
(reported like a broken obligation)."""
import json, os, subprocess
from .common import TranslateError, HEADER, core

SRC = "src/CppUTest/MemoryLeakDetector.cpp"
INT_TYPES = {"int": (32, True), "unsigned int": (32, False), "long": (64, True), "unsigned long": (64, False),
             "long long": (64, True), "unsigned long long": (64, False), "char": (8, True), "unsigned char": (8, False),
             "signed char": (8, True), "short": (16, True), "unsigned short": (16, False), "bool": (1, False)}
PASS = ("ParenExpr", "ExprWithCleanups", "MaterializeTemporaryExpr", "CXXBindTemporaryExpr", "ConstantExpr")
MEMBERS = {"positions_filled_": "filled", "write_limit_": "limit"}
LEN_ENUM = "SIMPLE_STRING_BUFFER_LEN"


def clang_docs(filt):
    src = os.path.join(core.REPO, SRC)
    cmd = ["clang++-14", "-std=gnu++17", "-fsyntax-only", "-w", "-I" + os.path.join(core.REPO, "include"),
           "-I" + os.path.join(core.VERIF, "harness", "config"), "-DHAVE_CONFIG_H", "-DCPPUTEST_VERIF_HOOKS",
           "-Xclang", "-ast-dump=json", "-Xclang", "-ast-dump-filter=" + filt, src]
    try:
        p = subprocess.run(cmd, stdout=subprocess.PIPE, stderr=subprocess.PIPE, text=True, timeout=300)
    except OSError as e:
        raise TranslateError("clang++-14 cannot be run: %s" % e)
    if p.returncode != 0:
        raise TranslateError("clang cannot parse %s: %s" % (SRC, p.stderr[-1500:]))
    docs, dec, i, s = [], json.JSONDecoder(), 0, p.stdout
    n = len(s)
    while True:
        while i < n and s[i].isspace():
            i += 1
        if i >= n:
            break
        o, i = dec.raw_decode(s, i)
        docs.append(o)
    return docs


def body_of(d):
    for c in d.get("inner", []):
        if c.get("kind") == "CompoundStmt":
            return c
    return None


def definition(docs, name, kind=("CXXMethodDecl",)):
    found = [d for d in docs if d.get("kind") in kind and d.get("name") == name and body_of(d) is not None]
    if len(found) != 1:
        raise TranslateError("expected exactly one definition of %s, found %d" % (name, len(found)))
    return found[0]


def ctype(node):
    t = node.get("type", {})
    q = t.get("desugaredQualType", t.get("qualType", "")).strip()
    if q.startswith("const "):
        q = q[6:]
    return q.strip()


def where(node):
    r = node.get("range", {}).get("begin", {})
    line = r.get("line") or r.get("expansionLoc", {}).get("line") or r.get("spellingLoc", {}).get("line")
    return " (near line %s)" % line if line else ""


def strip(node):
    while node.get("kind") in PASS or (node.get("kind") in ("ImplicitCastExpr", "CStyleCastExpr")
                                       and node.get("castKind") in ("NoOp", "LValueToRValue")):
        node = node["inner"][0]
    return node


def int_type(node):
    t = ctype(node)
    if t not in INT_TYPES:
        raise TranslateError("not an integer type: %r%s" % (t, where(node)))
    return INT_TYPES[t]


class Scalars:
    """expressions over the counters, locals and parameters -> Lean `BitVec` terms"""

    def __init__(self, env, enum_value):
        self.env = env                   # C name -> Lean term
        self.enum_value = enum_value

    def expr(self, n):
        k = n.get("kind")
        if k in PASS:
            return self.expr(n["inner"][0])
        if k in ("ImplicitCastExpr", "CStyleCastExpr"):
            ck = n.get("castKind")
            if ck in ("NoOp", "LValueToRValue"):
                return self.expr(n["inner"][0])
            if ck == "IntegralCast":
                sub = n["inner"][0]
                w2, _ = int_type(n)
                inner = strip(sub)
                if inner.get("kind") == "DeclRefExpr" and inner.get("referencedDecl", {}).get("kind") == "EnumConstantDecl":
                    return self.enum_const(inner, w2)
                w1, s1 = int_type(sub)
                e = self.expr(sub)
                if w1 == w2:
                    return e
                if w2 > w1 and s1:
                    return "(%s.signExtend %d)" % (e, w2)
                return "(%s.setWidth %d)" % (e, w2)
            raise TranslateError("cast %s not in the subset%s" % (ck, where(n)))
        if k == "IntegerLiteral":
            w, _ = int_type(n)
            return "(%s#%d)" % (n["value"], w)
        if k == "CharacterLiteral":
            w, _ = int_type(n)
            return "(%d#%d)" % (int(n["value"]) % (1 << w), w)
        if k == "UnaryExprOrTypeTraitExpr" and n.get("name") == "sizeof":
            w, _ = int_type(n)
            arg = strip(n["inner"][0]) if n.get("inner") else None
            if arg is None or arg.get("kind") != "StringLiteral":
                raise TranslateError("sizeof of something that is not a string literal%s" % where(n))
            t = arg.get("type", {}).get("qualType", "")
            if not (t.startswith("const char[") and t.endswith("]")):
                raise TranslateError("sizeof operand type %r%s" % (t, where(n)))
            return "(%s#%d)" % (int(t[len("const char["):-1]), w)
        if k == "DeclRefExpr":
            rd = n.get("referencedDecl", {})
            if rd.get("kind") == "EnumConstantDecl":
                return self.enum_const(n, 32)
            nm = rd.get("name")
            if nm in self.env:
                return self.env[nm]
            raise TranslateError("reference to %r outside the subset%s" % (nm, where(n)))
        if k == "MemberExpr":
            base = strip(n["inner"][0])
            if base.get("kind") == "CXXThisExpr" and n.get("name") in self.env:
                return self.env[n["name"]]
            raise TranslateError("member %r outside the subset%s" % (n.get("name"), where(n)))
        if k == "BinaryOperator":
            op = n["opcode"]
            a, b = n["inner"]
            if op in ("+", "-"):
                int_type(n)
                return "(%s %s %s)" % (self.expr(a), op, self.expr(b))
            if op in ("<", "<=", ">", ">=", "==", "!="):
                w1, s1 = int_type(a)
                w2, s2 = int_type(b)
                if (w1, s1) != (w2, s2):
                    raise TranslateError("comparison of different types%s" % where(n))
                x, y = self.expr(a), self.expr(b)
                lt, le = ("BitVec.slt", "BitVec.sle") if s1 else ("BitVec.ult", "BitVec.ule")
                return {"<": "(%s %s %s)" % (lt, x, y), "<=": "(%s %s %s)" % (le, x, y),
                        ">": "(%s %s %s)" % (lt, y, x), ">=": "(%s %s %s)" % (le, y, x),
                        "==": "(%s == %s)" % (x, y), "!=": "(%s != %s)" % (x, y)}[op]
            raise TranslateError("operator %s not in the subset%s" % (op, where(n)))
        raise TranslateError("expression kind %s not in the subset%s" % (k, where(n)))

    def enum_const(self, n, width):
        nm = n["referencedDecl"].get("name")
        if nm != LEN_ENUM or self.enum_value is None:
            raise TranslateError("enum constant %r%s" % (nm, where(n)))
        return "(BitVec.ofNat %d bufferLen)" % width


def is_buffer(n):
    n = strip(n)
    if n.get("kind") == "ImplicitCastExpr" and n.get("castKind") == "ArrayToPointerDecay":
        n = strip(n["inner"][0])
    return n.get("kind") == "MemberExpr" and n.get("name") == "buffer_" and strip(n["inner"][0]).get("kind") == "CXXThisExpr"


def callee_name(call):
    c = strip(call["inner"][0])
    while c.get("kind") == "ImplicitCastExpr":
        c = strip(c["inner"][0])
    if c.get("kind") == "DeclRefExpr":
        return c.get("referencedDecl", {}).get("name")
    if c.get("kind") == "MemberExpr":
        return c.get("name")
    return None


class BufFn:
    """one SimpleStringBuffer member function -> Lean definition over `St`"""

    def __init__(self, enum_value):
        self.enum_value = enum_value
        self.counter = 0
        self.inputs = []          # (lean name, width) of external results

    def fresh(self, base):
        self.counter += 1
        return "%s%d" % (base, self.counter)

    def result(self, env, effs):
        return "({ filled := %s, limit := %s }, [%s])" % (env["positions_filled_"], env["write_limit_"], ", ".join(effs))

    def assign_target(self, lhs):
        lhs = strip(lhs)
        if lhs.get("kind") == "MemberExpr" and strip(lhs["inner"][0]).get("kind") == "CXXThisExpr" and lhs.get("name") in MEMBERS:
            return lhs["name"]
        if lhs.get("kind") == "DeclRefExpr":
            return lhs.get("referencedDecl", {}).get("name")
        return None

    def simple_assignments(self, stmt, env):
        """branch of an `if`: assignments only; returns {var: Lean term}"""
        stmts = stmt["inner"] if stmt.get("kind") == "CompoundStmt" else [stmt]
        local = dict(env)
        changed = {}
        for s in stmts:
            s = strip(s)
            if s.get("kind") in ("BinaryOperator", "CompoundAssignOperator") and s.get("opcode") in ("=", "+=", "-="):
                tgt = self.assign_target(s["inner"][0])
                if tgt is None or tgt not in local:
                    raise TranslateError("assignment target outside the subset%s" % where(s))
                sc = Scalars(local, self.enum_value)
                rhs = sc.expr(s["inner"][1])
                if s["opcode"] != "=":
                    rhs = "(%s %s %s)" % (local[tgt], s["opcode"][0], rhs)
                local[tgt] = rhs
                changed[tgt] = rhs
            else:
                raise TranslateError("statement %s inside an if-branch is not in the subset%s" % (s.get("kind"), where(s)))
        return changed

    def stmts(self, ss, env, effs, lines, ret_bool=False):
        """returns the Lean term for the rest of the function"""
        if not ss:
            return "\n".join(lines + ["  " + self.result(env, effs)])
        s, rest = strip(ss[0]), ss[1:]
        k = s.get("kind")
        sc = Scalars(env, self.enum_value)
        if k == "ReturnStmt":
            if s.get("inner"):
                if not ret_bool:
                    raise TranslateError("return of a value%s" % where(s))
                return "\n".join(lines + ["  " + sc.expr(s["inner"][0])])
            return "\n".join(lines + ["  " + self.result(env, effs)])
        if k == "IfStmt":
            inner = s["inner"]
            cond, then = inner[0], strip(inner[1])
            els = inner[2] if len(inner) > 2 else None
            then_list = then["inner"] if then.get("kind") == "CompoundStmt" else [then]
            if then_list and strip(then_list[0]).get("kind") == "ReturnStmt" and not strip(then_list[0]).get("inner") and els is None:
                c = sc.expr(cond)
                lines = lines + ["  if %s then %s else" % (c, self.result(env, effs))]
                return self.stmts(rest, env, effs, lines, ret_bool)
            c = sc.expr(cond)
            ch_then = self.simple_assignments(then, env)
            ch_else = self.simple_assignments(els, env) if els is not None else {}
            env = dict(env)
            new_lines = []
            for v in sorted(set(ch_then) | set(ch_else)):
                nm = self.fresh(MEMBERS.get(v, v))
                new_lines.append("  let %s := if %s then %s else %s" % (nm, c, ch_then.get(v, env[v]), ch_else.get(v, env[v])))
                env[v] = nm
            return self.stmts(rest, env, effs, lines + new_lines, ret_bool)
        if k == "DeclStmt":
            new_lines = []
            env = dict(env)
            effs = list(effs)
            for d in s.get("inner", []):
                if d.get("kind") != "VarDecl":
                    raise TranslateError("declaration %s%s" % (d.get("kind"), where(d)))
                t = ctype(d)
                if t.startswith("__va_list_tag") or t.startswith("__builtin_va_list"):
                    continue
                if t not in INT_TYPES:
                    raise TranslateError("local of type %r%s" % (t, where(d)))
                init = strip(d["inner"][0]) if d.get("inner") else None
                if init is None:
                    raise TranslateError("uninitialised local %s%s" % (d.get("name"), where(d)))
                if init.get("kind") == "CallExpr":
                    if callee_name(init) != "PlatformSpecificVSNprintf":
                        raise TranslateError("call of %r%s" % (callee_name(init), where(init)))
                    args = init["inner"][1:]
                    dst = strip(args[0])
                    if not (dst.get("kind") == "BinaryOperator" and dst.get("opcode") == "+" and is_buffer(dst["inner"][0])):
                        raise TranslateError("vsnprintf destination is not `buffer_ + offset`%s" % where(init))
                    off = Scalars(env, self.enum_value).expr(dst["inner"][1])
                    size = Scalars(env, self.enum_value).expr(args[1])
                    fmt = strip(args[2])
                    if not (fmt.get("kind") == "DeclRefExpr" and fmt.get("referencedDecl", {}).get("name") == "format"):
                        raise TranslateError("vsnprintf format argument is not `format`%s" % where(init))
                    effs.append("Eff.vsnprintf %s %s" % (off, size))
                    w, signed = INT_TYPES[t]
                    if (w, signed) != (32, True):
                        raise TranslateError("vsnprintf result stored in %r%s" % (t, where(d)))
                    if self.inputs:
                        raise TranslateError("more than one vsnprintf call%s" % where(init))
                    self.inputs.append(("count", 32))
                    env[d["name"]] = "count"
                    continue
                nm = self.fresh(d["name"] + "_")
                new_lines.append("  let %s : BitVec %d := %s" % (nm, INT_TYPES[t][0], Scalars(env, self.enum_value).expr(init)))
                env[d["name"]] = nm
            return self.stmts(rest, env, effs, lines + new_lines, ret_bool)
        if k in ("BinaryOperator", "CompoundAssignOperator") and s.get("opcode") in ("=", "+=", "-="):
            lhs = strip(s["inner"][0])
            if lhs.get("kind") == "ArraySubscriptExpr" and is_buffer(lhs["inner"][0]) and s["opcode"] == "=":
                idx = sc.expr(lhs["inner"][1])
                val = sc.expr(s["inner"][1])
                return self.stmts(rest, env, effs + ["Eff.storeBuf %s %s" % (idx, val)], lines, ret_bool)
            tgt = self.assign_target(lhs)
            if tgt is None or tgt not in env:
                raise TranslateError("assignment target outside the subset%s" % where(s))
            rhs = sc.expr(s["inner"][1])
            if s["opcode"] != "=":
                rhs = "(%s %s %s)" % (env[tgt], s["opcode"][0], rhs)
            nm = self.fresh(MEMBERS.get(tgt, tgt))
            env = dict(env)
            env[tgt] = nm
            return self.stmts(rest, env, effs, lines + ["  let %s := %s" % (nm, rhs)], ret_bool)
        if k == "CallExpr":
            nm = callee_name(s)
            if nm in ("__builtin_va_start", "__builtin_va_end", "__builtin_va_copy"):
                return self.stmts(rest, env, effs, lines, ret_bool)
            raise TranslateError("call of %r%s" % (nm, where(s)))
        if k == "CXXMemberCallExpr":
            nm = callee_name(s)
            if len(s["inner"]) == 1 and strip(strip(s["inner"][0])["inner"][0]).get("kind") == "CXXThisExpr":
                return self.stmts(rest, env, effs + ['Eff.call "%s"' % nm], lines, ret_bool)
            raise TranslateError("member call %r with arguments%s" % (nm, where(s)))
        if k == "NullStmt":
            return self.stmts(rest, env, effs, lines, ret_bool)
        raise TranslateError("statement kind %s not in the subset%s" % (k, where(s)))


def translate_buffer(docs, out):
    enum_value = None
    for d in docs:
        if d.get("kind") == "EnumDecl":
            for c in d.get("inner", []):
                if c.get("kind") == "EnumConstantDecl" and c.get("name") == LEN_ENUM:
                    enum_value = True
    if enum_value is None:
        raise TranslateError("enum constant %s not found" % LEN_ENUM)
    base_env = {"positions_filled_": "st.filled", "write_limit_": "st.limit"}

    # constructor: member initialisers, then the body
    ctor = definition(docs, "SimpleStringBuffer", ("CXXConstructorDecl",))
    inits = {}
    for c in ctor.get("inner", []):
        if c.get("kind") == "CXXCtorInitializer":
            nm = c.get("anyInit", {}).get("name")
            if nm not in MEMBERS:
                raise TranslateError("constructor initialises %r" % nm)
            inits[nm] = Scalars({}, enum_value).expr(c["inner"][0])
    if set(inits) != set(MEMBERS):
        raise TranslateError("constructor does not initialise both counters in its initialiser list: %s" % sorted(inits))
    f = BufFn(enum_value)
    term = f.stmts(body_of(ctor)["inner"], dict(inits), [], [])
    out.append("/-- `SimpleStringBuffer::SimpleStringBuffer()` -/")
    out.append("def ctor : St × List Eff :=\n" + term)

    for name, params, ret_bool in (("clear", [], False), ("add", None, False), ("setWriteLimit", ["write_limit"], False),
                                   ("resetWriteLimit", [], False), ("reachedItsCapacity", [], True)):
        d = definition(docs, name)
        env = dict(base_env)
        sig = ["(st : St)"]
        pnames = []
        for p in d.get("inner", []):
            if p.get("kind") == "ParmVarDecl":
                t = ctype(p)
                if t in INT_TYPES:
                    pn = "p_" + p["name"]
                    env[p["name"]] = pn
                    sig.append("(%s : BitVec %d)" % (pn, INT_TYPES[t][0]))
                    pnames.append(p["name"])
                elif name == "add" and p.get("name") == "format":
                    pass
                else:
                    raise TranslateError("%s: parameter %s of type %r" % (name, p.get("name"), t))
        if params is not None and len(pnames) != len(params):
            raise TranslateError("%s: expected %d scalar parameters" % (name, len(params)))
        f = BufFn(enum_value)
        term = f.stmts(body_of(d)["inner"], env, [], [], ret_bool)
        for nm, w in f.inputs:
            sig.append("(%s : BitVec %d)" % (nm, w))
        if name == "add" and [i[0] for i in f.inputs] != ["count"]:
            raise TranslateError("add no longer calls PlatformSpecificVSNprintf exactly once")
        out.append("/-- `SimpleStringBuffer::%s` -/" % name)
        out.append("def %s %s : %s :=\n%s" % (name, " ".join(sig), "Bool" if ret_bool else "St × List Eff", term))


# ------------------------------------------------------------------ MemoryLeakOutputStringBuffer: statement lists

OB_HELPERS = ["addAllocationLocation", "addDeallocationLocation", "addNoMemoryLeaksMessage", "addMemoryLeakHeader",
              "addErrorMessageForTooMuchLeaks", "addMemoryLeakFooter", "addWarningForUsingMalloc"]
# argument expressions the interpreter of Model/DiagnosticsCode.lean knows (anything else: TranslateError)
WORDS = {"leak.number_": "leakNumber", "leak.size_": "leakSize", "leak.file_": "leakFile", "(int)leak.line_": "leakLineAsInt",
         "leak.allocator_.alloc_name()": "leakAllocName", "leak.memory_": "leakMemory",
         "message": "message", "allocFile": "allocFile", "(int)allocLine": "allocLineAsInt", "allocSize": "allocSize",
         "allocAllocator.alloc_name()": "allocAllocName", "freeFile": "freeFile", "(int)freeLine": "freeLineAsInt",
         "freeAllocator.free_name()": "freeFreeName", "(int)this.total_leaks_": "totalAsInt"}


def ob_member(n):
    n = strip(n)
    if n.get("kind") == "MemberExpr" and strip(n["inner"][0]).get("kind") == "CXXThisExpr":
        return n.get("name")
    return None


def uncast(n):
    n = strip(n)
    while n.get("kind") == "ImplicitCastExpr":
        n = strip(n["inner"][0])
    return n


def ob_call(s):
    """(receiver, method, args) of `outputBuffer_.m(args)` / `m(args)` on this / `param->m(args)`"""
    callee = strip(s["inner"][0])
    if callee.get("kind") != "MemberExpr":
        raise TranslateError("call shape%s" % where(s))
    recv = uncast(callee["inner"][0])
    if recv.get("kind") == "CXXThisExpr":
        return "this", callee.get("name"), s["inner"][1:]
    if ob_member(recv) == "outputBuffer_":
        return "outputBuffer_", callee.get("name"), s["inner"][1:]
    if recv.get("kind") == "DeclRefExpr" and recv.get("referencedDecl", {}).get("kind") == "ParmVarDecl":
        return "param:" + recv["referencedDecl"]["name"], callee.get("name"), s["inner"][1:]
    raise TranslateError("call on something other than this / outputBuffer_ / a parameter%s" % where(s))


def arg_word(a):
    """canonical word for an argument expression of a forwarded call"""
    a = strip(a)
    k = a.get("kind")
    if k in ("ImplicitCastExpr", "CStyleCastExpr", "CXXStaticCastExpr"):
        inner = arg_word(a["inner"][0])
        if a.get("castKind") == "IntegralCast":
            return "(%s)%s" % (ctype(a), inner)
        return inner
    if k == "DeclRefExpr":
        return a.get("referencedDecl", {}).get("name", "?")
    if k == "CXXThisExpr":
        return "this"
    if k == "MemberExpr":
        return arg_word(a["inner"][0]) + "." + a.get("name")
    if k == "StringLiteral":
        return "lit:" + a.get("value", "")
    if k == "IntegerLiteral":
        return "int:" + a.get("value", "")
    if k == "CXXMemberCallExpr":
        callee = strip(a["inner"][0])
        if len(a["inner"]) != 1:
            raise TranslateError("argument is a call with arguments%s" % where(a))
        return arg_word(callee["inner"][0]) + "." + callee.get("name") + "()"
    if k == "CallExpr":
        return (callee_name(a) or "?") + "(" + ",".join(arg_word(x) for x in a["inner"][1:]) + ")"
    raise TranslateError("argument kind %s%s" % (k, where(a)))


def subst_word(w, binding):
    import re
    m = re.match(r"^((?:\([^)]*\))?)([A-Za-z_]\w*)(.*)$", w)
    if not m or m.group(2) not in binding:
        return w
    actual = binding[m.group(2)]
    if actual.startswith("(") or actual.startswith("lit:"):
        if m.group(1) or m.group(3):
            raise TranslateError("cannot substitute %r into %r" % (actual, w))
        return actual
    return m.group(1) + actual + m.group(3)


def literal_bytes(word):
    from .extract_diagnostics import c_unescape
    body = word[4:]
    if not (body.startswith('"') and body.endswith('"')):
        raise TranslateError("string literal %r" % body[:40])
    return c_unescape(body[1:-1])


def lean_word(w):
    if w.startswith("lit:"):
        return "(Word.lit [%s])" % ", ".join(str(b) for b in literal_bytes(w))
    if w not in WORDS:
        raise TranslateError("argument expression %r is not one the report model knows" % w)
    return "Word." + WORDS[w]


def buf_call(m, words, where_):
    from .extract_diagnostics import lean_fmt
    if m == "add":
        if not words or not words[0].startswith("lit:"):
            raise TranslateError("outputBuffer_.add without a literal format%s" % where_)
        return "Call.add %s [%s]" % (lean_fmt(literal_bytes(words[0])), ", ".join(lean_word(w) for w in words[1:]))
    if m == "addMemoryDump" and words == ["leak.memory_", "leak.size_"]:
        return "Call.addMemoryDump"
    if m in ("resetWriteLimit", "clear") and not words:
        return "Call." + m
    if m == "setWriteLimit" and words == ["startLimitArg"]:
        return "Call.setWriteLimit"
    raise TranslateError("outputBuffer_.%s(%s) is not in the subset%s" % (m, ", ".join(words), where_))


class ObFn:
    def __init__(self, helpers, binding=None):
        self.helpers = helpers            # name -> (params, body) of the one-line helpers
        self.binding = binding or {}
        self.flags = {}

    def cond(self, n):
        n = uncast(n)
        if n.get("kind") == "BinaryOperator" and n.get("opcode") == "==":
            a, b = uncast(n["inner"][0]), uncast(n["inner"][1])
            if b.get("kind") == "IntegerLiteral" and b.get("value") == "0":
                if ob_member(a) == "total_leaks_":
                    return "Cond.totalIsZero"
                if a.get("kind") == "CallExpr" and callee_name(a) == "StrCmp":
                    args = [arg_word(x) for x in a["inner"][1:]]
                    if len(args) == 2 and args[0] == "leak.allocator_.alloc_name()" and args[1].startswith("lit:"):
                        return "(Cond.allocNameIs [%s])" % ", ".join(str(x) for x in literal_bytes(args[1]))
            raise TranslateError("condition%s" % where(n))
        if ob_member(n) == "giveWarningOnUsingMalloc_":
            return "Cond.mallocWarn"
        if n.get("kind") == "DeclRefExpr" and n.get("referencedDecl", {}).get("name") in self.flags:
            return "Cond.reachedFlag"
        raise TranslateError("condition kind %s%s" % (n.get("kind"), where(n)))

    def simples(self, s):
        """statement -> list of `Simple` terms"""
        s = strip(s)
        k = s.get("kind")
        if k == "CompoundStmt":
            out = []
            for x in s.get("inner", []):
                out += self.simples(x)
            return out
        if k == "ReturnStmt" and not s.get("inner"):
            return ["Simple.ret"]
        if k == "CXXMemberCallExpr":
            recv, m, args = ob_call(s)
            words = [subst_word(arg_word(a), self.binding) for a in args]
            if recv == "outputBuffer_":
                return ["Simple.buf (%s)" % buf_call(m, words, where(s))]
            if recv == "param:reporter" and m == "fail" and words == ["this.toString()"]:
                return ["Simple.fail"]
            if recv == "this" and m in self.helpers:
                params, body = self.helpers[m]
                if len(params) != len(words):
                    raise TranslateError("helper %s called with %d arguments" % (m, len(words)))
                sub = ObFn({}, dict(zip(params, words)))
                out = []
                for x in body["inner"]:
                    out += sub.simples(x)
                return out
            raise TranslateError("call %s.%s not in the subset%s" % (recv, m, where(s)))
        if k == "BinaryOperator" and s.get("opcode") == "=":
            tgt = ob_member(s["inner"][0])
            rhs = uncast(s["inner"][1])
            if tgt == "giveWarningOnUsingMalloc_" and rhs.get("kind") == "CXXBoolLiteralExpr":
                return ["Simple.setMallocWarn %s" % ("true" if rhs.get("value") else "false")]
            if tgt == "total_leaks_" and rhs.get("kind") == "IntegerLiteral":
                return ["Simple.setTotal %s" % rhs["value"]]
            raise TranslateError("assignment%s" % where(s))
        if k == "UnaryOperator" and s.get("opcode") == "++" and ob_member(s["inner"][0]) == "total_leaks_":
            return ["Simple.incTotal"]
        if k == "DeclStmt":
            out = []
            for d in s.get("inner", []):
                init = uncast(d["inner"][0]) if d.get("kind") == "VarDecl" and d.get("inner") else None
                if init is not None and ctype(d) == "bool" and init.get("kind") == "CXXMemberCallExpr":
                    recv, m, args = ob_call(init)
                    if recv == "outputBuffer_" and m == "reachedItsCapacity" and not args and not self.flags:
                        self.flags[d["name"]] = True
                        out.append("Simple.letReached")
                        continue
                raise TranslateError("declaration%s" % where(s))
            return out
        raise TranslateError("statement kind %s%s" % (k, where(s)))

    def stmts(self, body):
        out = []
        for s in body["inner"]:
            s0 = strip(s)
            if s0.get("kind") == "IfStmt":
                inner = s0["inner"]
                c = self.cond(inner[0])
                t = self.simples(inner[1])
                e = self.simples(inner[2]) if len(inner) > 2 else []
                out.append("Stmt.ite %s [%s] [%s]" % (c, ", ".join(t), ", ".join(e)))
            else:
                out += ["Stmt.simple (%s)" % x for x in self.simples(s0)]
        return out


def translate_outbuf(docs, out):
    helpers = {}
    for h in OB_HELPERS:
        d = definition(docs, h)
        params = [p["name"] for p in d.get("inner", []) if p.get("kind") == "ParmVarDecl"]
        helpers[h] = (params, body_of(d))
    # startMemoryLeakReporting: scalar arithmetic; the argument of setWriteLimit becomes `startLimitArg`
    d = definition(docs, "startMemoryLeakReporting")
    env, lines, stmts = {}, [], []
    f = ObFn(helpers)
    seen_limit = False
    for s in body_of(d)["inner"]:
        s0 = strip(s)
        if s0.get("kind") == "DeclStmt":
            for v in s0.get("inner", []):
                if v.get("kind") != "VarDecl" or ctype(v) not in INT_TYPES or not v.get("inner"):
                    raise TranslateError("startMemoryLeakReporting: declaration%s" % where(s0))
                nm = "v_" + v["name"]
                lines.append("def %s : BitVec %d := %s" % (nm, INT_TYPES[ctype(v)][0], Scalars(env, True).expr(v["inner"][0])))
                env[v["name"]] = nm
            continue
        if s0.get("kind") == "CXXMemberCallExpr":
            recv, m, args = ob_call(s0)
            if recv == "outputBuffer_" and m == "setWriteLimit" and len(args) == 1 and not seen_limit:
                lines.append("/-- the argument of `setWriteLimit` in `startMemoryLeakReporting` -/")
                lines.append("def startLimitArg : BitVec 64 := %s" % Scalars(env, True).expr(args[0]))
                stmts.append("Stmt.simple (Simple.buf Call.setWriteLimit)")
                seen_limit = True
                continue
        stmts += ["Stmt.simple (%s)" % x for x in f.simples(s0)]
    if not seen_limit:
        raise TranslateError("startMemoryLeakReporting no longer calls outputBuffer_.setWriteLimit")
    out.extend(lines)
    out.append("/-- `MemoryLeakOutputStringBuffer::startMemoryLeakReporting` -/")
    out.append("def startMemoryLeakReporting : List Stmt := [%s]" % ", ".join(stmts))
    for name in ["stopMemoryLeakReporting", "reportMemoryLeak", "reportFailure", "clear"]:
        d = definition(docs, name)
        st = ObFn(helpers).stmts(body_of(d))
        out.append("/-- `MemoryLeakOutputStringBuffer::%s` (its one-line `add…` helpers inlined) -/" % name)
        out.append("def %s : List Stmt := [%s]" % (name if name != "clear" else "obClear", ", ".join(st)))
    # the three misuse entry points: message literal and the arguments they forward to reportFailure
    for name, lean in (("reportDeallocateNonAllocatedMemoryFailure", "nonAllocatedArgs"),
                       ("reportAllocationDeallocationMismatchFailure", "mismatchArgs"),
                       ("reportMemoryCorruptionFailure", "corruptionArgs")):
        d = definition(docs, name)
        body = body_of(d)["inner"]
        if len(body) != 1 or strip(body[0]).get("kind") != "CXXMemberCallExpr":
            raise TranslateError("%s is no longer a single call" % name)
        recv, m, args = ob_call(strip(body[0]))
        if recv != "this" or m != "reportFailure":
            raise TranslateError("%s no longer forwards to reportFailure" % name)
        words = [arg_word(a) for a in args]
        if not words[0].startswith("lit:"):
            raise TranslateError("%s: message is not a literal" % name)
        out.append("/-- `%s`: message, then the words forwarded to `reportFailure` -/" % name)
        out.append("def %s : List UInt8 × List String := ([%s], [%s])" % (
            lean, ", ".join(str(b) for b in literal_bytes(words[0])),
            ", ".join(lean_str(w if not w.startswith("lit:") else "lit:" + bytes(literal_bytes(w)).decode("latin-1")) for w in words[1:])))


def lean_str(s):
    return '"' + s.replace("\\", "\\\\").replace('"', '\\"').replace("\n", "\\n").replace("\t", "\\t") + '"'



PRELUDE = """import CppUModel.Gen.DiagnosticsConstants
namespace Gen.DiagBuf
open Gen.Diag
/-- effects of a `SimpleStringBuffer` member function other than on its two counters -/
inductive Eff
  | storeBuf (idx : BitVec 32) (val : BitVec 8)      -- `buffer_[idx] = val`
  | vsnprintf (off size : BitVec 64)                 -- `PlatformSpecificVSNprintf(buffer_ + off, size, format, arguments)`
  | call (name : String)                             -- a member call without arguments
deriving DecidableEq, Repr
/-- `positions_filled_`, `write_limit_` (`size_t`) -/
structure St where
  filled : BitVec 64
  limit : BitVec 64
deriving DecidableEq, Repr
/-- argument expressions of the report builder's `add` calls -/
inductive Word
  | leakNumber | leakSize | leakFile | leakLineAsInt | leakAllocName | leakMemory
  | message | allocFile | allocLineAsInt | allocSize | allocAllocName | freeFile | freeLineAsInt | freeFreeName
  | totalAsInt
  | lit (b : List UInt8)
deriving DecidableEq, Repr
/-- calls on `outputBuffer_` -/
inductive Call
  | add (fmt : List Fmt.Seg) (args : List Word)
  | addMemoryDump                  -- `(leak->memory_, leak->size_)`
  | setWriteLimit                  -- `(startLimitArg)`
  | resetWriteLimit
  | clear
deriving DecidableEq, Repr
/-- conditions of the report builder -/
inductive Cond
  | totalIsZero                    -- `total_leaks_ == 0`
  | mallocWarn                     -- `giveWarningOnUsingMalloc_`
  | reachedFlag                    -- the `bool` local holding `outputBuffer_.reachedItsCapacity()`
  | allocNameIs (s : List UInt8)   -- `StrCmp(leak->allocator_->alloc_name(), s) == 0`
deriving DecidableEq, Repr
inductive Simple
  | buf (c : Call)
  | setMallocWarn (b : Bool)
  | setTotal (n : Nat)
  | incTotal
  | letReached                     -- `bool flag = outputBuffer_.reachedItsCapacity()`
  | fail                           -- `reporter->fail(toString())`
  | ret
deriving DecidableEq, Repr
/-- statements of the report builder (`MemoryLeakOutputStringBuffer`) -/
inductive Stmt
  | simple (s : Simple)
  | ite (c : Cond) (t e : List Simple)
deriving DecidableEq, Repr
"""


def extract():
    out = [(HEADER % ("translate/extract_diagbuf.py (clang++-14 JSON AST)", SRC)).rstrip("\n"), PRELUDE.rstrip("\n")]
    translate_buffer(clang_docs("SimpleStringBuffer::"), out)
    translate_outbuf(clang_docs("MemoryLeakOutputStringBuffer::"), out)
    out.append("end Gen.DiagBuf")
    return "\n".join(out) + "\n"


def run():
    text = extract()
    core.write_if_changed(os.path.join(core.LEAN, "CppUModel", "Gen", "DiagnosticsBuffer.lean"), text)
    return []


if __name__ == "__main__":
    print(extract())
