"""Regenerates lean/CppUModel/Gen/LeakPluginCode.lean from MemoryLeakWarningPlugin.cpp,
MemoryLeakDetector.cpp, Utest.cpp and TestPlugin.cpp (property C07).

What is translated (statement by statement, anything unexpected raises TranslateError):
  * MemoryLeakWarningPlugin::preTestAction / postTestAction  -> lists of PStep, the failure
    condition and the warning condition as Lean boolean functions;
  * MemoryLeakDetector::startChecking / stopChecking / enable -> lists of DStep;
  * MemoryLeakDetectorList::isInPeriod                        -> Lean boolean function;
  * markCheckingPeriodLeaksAsNonCheckingPeriod                -> (scan period, from, to);
  * constructor initial values, ignoreAllLeaksInTest / expectLeaksInTest, FinalReport periods;
  * reallocMemory: the whole function is shape-checked (old node removed first, new node stored by
    storeLeakInformation) and the sources of number / size / period of the node that is
    re-registered after a FAILED platform realloc are extracted (FieldSrc);
  * the call order of UtestShell::runOneTestInCurrentProcess  -> list of RStep.
What is only shape-checked (normalised text must be the expected one): getTotalLeaks (list and
table), totalMemoryLeaks, getLeakFrom, ConstructMemoryLeakReport, report, storeLeakInformation,
MemoryLeakDetectorNode::init, TestPlugin::runAllPre/PostTestAction, Utest::run.
"""
import os, re
from .common import *

PLUGIN = "src/CppUTest/MemoryLeakWarningPlugin.cpp"
DET = "src/CppUTest/MemoryLeakDetector.cpp"
UTEST = "src/CppUTest/Utest.cpp"
TPLUGIN = "src/CppUTest/TestPlugin.cpp"

PERIODS = {"mem_leak_period_all": ".all", "mem_leak_period_disabled": ".disabled",
           "mem_leak_period_enabled": ".enabled", "mem_leak_period_checking": ".checking"}


def norm(s):
    return re.sub(r"\s+", "", s)


# --------------------------------------------------------------------------- expressions

ATOMS_PLUGIN = {
    "ignoreAllWarnings_": ("ignoreAllWarnings", "bool"),
    "expectedLeaks_": ("expectedLeaks", "nat"),
    "leaks": ("leaks", "nat"),
    "failureCount_": ("failureCount", "nat"),
    "resultFailureCount": ("resultFailureCount", "nat"),
}
ATOMS_PERIOD = {
    "nodePeriod": ("nodePeriod", "period"),
    "period": ("period", "period"),
}
for k, v in PERIODS.items():
    ATOMS_PERIOD[k] = ("Period" + v, "period")

TOKEN = re.compile(r"\s*([A-Za-z_][A-Za-z_0-9]*|\d+|&&|\|\||==|!=|<=|>=|[!<>()])")


def tokenize(text):
    toks, i = [], 0
    text = text.strip()
    while i < len(text):
        m = TOKEN.match(text, i)
        if not m:
            raise TranslateError("cannot tokenise expression at: " + text[i:i + 30])
        toks.append(m.group(1))
        i = m.end()
    return toks


class ExprParser:
    """C boolean/comparison expressions over a fixed atom table -> Lean Bool expression"""

    def __init__(self, toks, atoms):
        self.t, self.i, self.atoms = toks, 0, atoms

    def peek(self):
        return self.t[self.i] if self.i < len(self.t) else None

    def eat(self, tok=None):
        cur = self.peek()
        if cur is None or (tok is not None and cur != tok):
            raise TranslateError("expression: expected %r, found %r" % (tok, cur))
        self.i += 1
        return cur

    def parse(self):
        e, ty = self.p_or()
        if self.peek() is not None:
            raise TranslateError("expression: trailing tokens from %r" % self.peek())
        if ty != "bool":
            raise TranslateError("expression is not boolean")
        return e

    def p_or(self):
        e, ty = self.p_and()
        while self.peek() == "||":
            self.eat()
            f, ty2 = self.p_and()
            self.need(ty, ty2, "bool")
            e = "(%s || %s)" % (e, f)
        return e, ty

    def p_and(self):
        e, ty = self.p_eq()
        while self.peek() == "&&":
            self.eat()
            f, ty2 = self.p_eq()
            self.need(ty, ty2, "bool")
            e = "(%s && %s)" % (e, f)
        return e, ty

    def need(self, a, b, want):
        if a != want or b != want:
            raise TranslateError("expression: operands of type %s/%s where %s is needed" % (a, b, want))

    def p_eq(self):
        e, ty = self.p_rel()
        while self.peek() in ("==", "!="):
            op = self.eat()
            f, ty2 = self.p_rel()
            if ty != ty2:
                raise TranslateError("expression: comparison of %s with %s" % (ty, ty2))
            e, ty = "(%s %s %s)" % (e, op, f), "bool"
        return e, ty

    def p_rel(self):
        e, ty = self.p_unary()
        while self.peek() in ("<", ">", "<=", ">="):
            op = self.eat()
            f, ty2 = self.p_unary()
            self.need(ty, ty2, "nat")
            lean_op = {"<": "<", ">": ">", "<=": "≤", ">=": "≥"}[op]
            e, ty = "(decide (%s %s %s))" % (e, lean_op, f), "bool"
        return e, ty

    def p_unary(self):
        if self.peek() == "!":
            self.eat()
            e, ty = self.p_unary()
            if ty != "bool":
                raise TranslateError("expression: ! applied to %s" % ty)
            return "(!%s)" % e, "bool"
        return self.p_primary()

    def p_primary(self):
        t = self.eat()
        if t == "(":
            e, ty = self.p_or()
            self.eat(")")
            return e, ty
        if t.isdigit():
            return t, "nat"
        if t in ("true", "false"):
            return t, "bool"
        if t in self.atoms:
            return self.atoms[t]
        raise TranslateError("expression: unknown identifier %r" % t)


def expr(text, atoms):
    text = text.replace("result.getFailureCount()", "resultFailureCount")
    text = re.sub(r"node\s*->\s*period_", "nodePeriod", text)
    return ExprParser(tokenize(text), atoms).parse()


# --------------------------------------------------------------------------- statements

def split_statements(body):
    """top-level statements of a function body: `...;` or `if (...) {...} [else ...]`"""
    out, i, n = [], 0, len(body)
    while i < n:
        while i < n and body[i].isspace():
            i += 1
        if i >= n:
            break
        if re.match(r"if\b", body[i:]):
            j = i
            # condition
            j = body.index("(", j)
            j = match_paren(body, j, "(", ")") + 1
            j = skip_block_or_stmt(body, j)
            while True:
                k = j
                while k < n and body[k].isspace():
                    k += 1
                if re.match(r"else\b", body[k:]):
                    k += 4
                    while k < n and body[k].isspace():
                        k += 1
                    if re.match(r"if\b", body[k:]):
                        k = body.index("(", k)
                        k = match_paren(body, k, "(", ")") + 1
                    j = skip_block_or_stmt(body, k)
                else:
                    break
            out.append(body[i:j].strip())
            i = j
        else:
            j = i
            depth = 0
            while j < n:
                c = body[j]
                if c in "({":
                    depth += 1
                elif c in ")}":
                    depth -= 1
                elif c == ";" and depth == 0:
                    break
                j += 1
            out.append(body[i:j].strip())
            i = j + 1
    return [s for s in out if s]


def match_paren(s, i, o, c):
    depth = 0
    for j in range(i, len(s)):
        if s[j] == o:
            depth += 1
        elif s[j] == c:
            depth -= 1
            if depth == 0:
                return j
    raise TranslateError("unbalanced " + o)


def skip_block_or_stmt(s, i):
    while i < len(s) and s[i].isspace():
        i += 1
    if i < len(s) and s[i] == "{":
        return match_paren(s, i, "{", "}") + 1
    depth = 0
    j = i
    while j < len(s):
        if s[j] in "({":
            depth += 1
        elif s[j] in ")}":
            depth -= 1
        elif s[j] == ";" and depth == 0:
            return j + 1
        j += 1
    raise TranslateError("statement without end")


def period(name):
    if name not in PERIODS:
        raise TranslateError("unknown period constant: " + name)
    return PERIODS[name]


VERDICT_RE = re.compile(
    r"^if\((?P<cond>.*?)\)\{"
    r"if\(MemoryLeakWarningPlugin::areNewDeleteOverloaded\(\)\)\{"
    r"TestFailuref\(&test,memLeakDetector_->report\((?P<period>\w+)\)\);result\.addFailure\(f\);\}"
    r"elseif\((?P<warn>[^{}]*?)\)\{result\.print\(StringFromFormat\(.*?\)\.asCharString\(\)\);\}\}$")


def plugin_steps(body, what, conds):
    steps = []
    for st in split_statements(body):
        n = norm(st)
        m = None
        if n == "memLeakDetector_->startChecking()":
            steps.append(".startChecking")
        elif n == "memLeakDetector_->stopChecking()":
            steps.append(".stopChecking")
        elif n == "failureCount_=result.getFailureCount()":
            steps.append(".saveFailureCount")
        elif re.match(r"^size_tleaks=memLeakDetector_->totalMemoryLeaks\((\w+)\)$", n):
            steps.append(".countLeaks " + period(re.match(r".*\((\w+)\)$", n).group(1)))
        elif n == "memLeakDetector_->markCheckingPeriodLeaksAsNonCheckingPeriod()":
            steps.append(".demote")
        elif re.match(r"^ignoreAllWarnings_=(true|false)$", n):
            steps.append(".setIgnore " + n.split("=")[1])
        elif re.match(r"^expectedLeaks_=(\d+)$", n):
            steps.append(".setExpected " + n.split("=")[1])
        elif n.startswith("if("):
            m = VERDICT_RE.match(n)
            if not m:
                raise TranslateError("%s: the if statement does not have the expected shape: %s" % (what, n[:200]))
            if "fail" in conds:
                raise TranslateError("%s: more than one verdict block" % what)
            # the condition text with spaces (from the un-normalised statement)
            cond_text = st[st.index("(") + 1: match_paren(st, st.index("("), "(", ")")]
            conds["fail"] = expr(cond_text, ATOMS_PLUGIN)
            conds["warn"] = expr(m.group("warn"), ATOMS_PLUGIN)
            steps.append(".verdict " + period(m.group("period")))
        else:
            raise TranslateError("%s: statement not understood: %s" % (what, st[:120]))
    return steps


def detector_steps(body, what):
    steps = []
    for st in split_statements(body):
        n = norm(st)
        if n == "outputBuffer_.clear()":
            steps.append(".clearOutput")
        elif re.match(r"^current_period_=(\w+)$", n):
            steps.append(".setPeriod " + period(n.split("=")[1]))
        else:
            raise TranslateError("%s: statement not understood: %s" % (what, st[:120]))
    return steps


def expect_shape(src, sig, want, what):
    body = norm(function_body(src, sig))
    if body != want:
        raise TranslateError("%s changed shape: %s" % (what, body[:300]))


def extract():
    plugin = strip_comments(read(PLUGIN))
    det = strip_comments(read(DET))
    utest = strip_comments(read(UTEST))
    tplugin = strip_comments(read(TPLUGIN))

    conds = {}
    pre = plugin_steps(function_body(plugin, r"MemoryLeakWarningPlugin::preTestAction\s*\([^)]*\)\s*\{"), "preTestAction", conds)
    if "fail" in conds:
        raise TranslateError("preTestAction contains a verdict block")
    post = plugin_steps(function_body(plugin, r"MemoryLeakWarningPlugin::postTestAction\s*\([^)]*\)\s*\{"), "postTestAction", conds)
    if "fail" not in conds:
        # no verdict block at all: the functions below still need definitions
        conds["fail"], conds["warn"] = "false", "false"

    start = detector_steps(function_body(det, r"MemoryLeakDetector::startChecking\s*\(\s*\)\s*\{"), "startChecking")
    stop = detector_steps(function_body(det, r"MemoryLeakDetector::stopChecking\s*\(\s*\)\s*\{"), "stopChecking")
    enable = detector_steps(function_body(det, r"MemoryLeakDetector::enable\s*\(\s*\)\s*\{"), "enable")

    body = function_body(det, r"MemoryLeakDetectorList::isInPeriod\s*\([^)]*\)\s*\{")
    m = re.match(r"^\s*return\s+(.*?);\s*$", body, re.S)
    if not m:
        raise TranslateError("isInPeriod is not a single return statement")
    in_period = expr(m.group(1), ATOMS_PERIOD)

    body = norm(function_body(det, r"MemoryLeakDetector::markCheckingPeriodLeaksAsNonCheckingPeriod\s*\(\s*\)\s*\{"))
    m = re.match(r"^MemoryLeakDetectorNode\*leak=memoryTable_\.getFirstLeak\((\w+)\);while\(leak\)\{"
                 r"if\(leak->period_==(\w+)\)leak->period_=(\w+);leak=memoryTable_\.getNextLeak\(leak,(\w+)\);\}$", body)
    if not m:
        raise TranslateError("markCheckingPeriodLeaksAsNonCheckingPeriod changed shape: " + body[:300])
    if m.group(1) != m.group(4):
        raise TranslateError("markCheckingPeriodLeaksAsNonCheckingPeriod scans two different periods")
    scan, dfrom, dto = period(m.group(1)), period(m.group(2)), period(m.group(3))

    # detector constructor
    body = function_body(det, r"MemoryLeakDetector::MemoryLeakDetector\s*\([^)]*\)\s*\{")
    m1 = re.search(r"allocationSequenceNumber_\s*=\s*(\d+)\s*;", body)
    m2 = re.search(r"current_period_\s*=\s*(\w+)\s*;", body)
    if not m1 or not m2:
        raise TranslateError("detector constructor: initial sequence number / period not found")
    init_seq, init_period = int(m1.group(1)), period(m2.group(1))

    # plugin constructor
    m = re.search(r"MemoryLeakWarningPlugin::MemoryLeakWarningPlugin\s*\([^)]*\)\s*:(.*?)\{", plugin, re.S)
    if not m:
        raise TranslateError("plugin constructor not found")
    inits = norm(m.group(1))
    mi = re.search(r"ignoreAllWarnings_\((true|false)\)", inits)
    me = re.search(r"expectedLeaks_\((\d+)\)", inits)
    if not mi or not me:
        raise TranslateError("plugin constructor: initialisers of ignoreAllWarnings_/expectedLeaks_ not found")
    body = function_body(plugin, r"MemoryLeakWarningPlugin::MemoryLeakWarningPlugin\s*\([^)]*\)\s*:[^{]*\{")
    if "memLeakDetector_->enable();" not in norm(body):
        raise TranslateError("plugin constructor no longer enables the detector")
    # firstPlugin_: set by the constructor (only while it is still NULL?), never by anything else
    mc = re.match(r"^(?P<first>if\(firstPlugin_==NULLPTR\)firstPlugin_=this;|firstPlugin_=this;)"
                  r"if\(localDetector\)memLeakDetector_=localDetector;elsememLeakDetector_=getGlobalDetector\(\);"
                  r"memLeakDetector_->enable\(\);$", norm(body))
    if not mc:
        raise TranslateError("plugin constructor changed shape: " + norm(body)[:300])
    first_only_if_null = "true" if mc.group("first").startswith("if(") else "false"
    expect_shape(plugin, r"MemoryLeakWarningPlugin::~MemoryLeakWarningPlugin\s*\(\s*\)\s*\{",
                 "if(destroyGlobalDetectorAndTurnOfMemoryLeakDetectionInDestructor_){MemoryLeakWarningPlugin::turnOffNewDeleteOverloads();"
                 "MemoryLeakWarningPlugin::destroyGlobalDetector();}", "plugin destructor")
    expect_shape(plugin, r"MemoryLeakWarningPlugin::getFirstPlugin\s*\(\s*\)\s*\{", "returnfirstPlugin_;", "getFirstPlugin")
    if len(re.findall(r"firstPlugin_\s*=[^=]", plugin)) != 2:       # the static's initialiser and the constructor
        raise TranslateError("firstPlugin_ is assigned somewhere else than in its definition and the constructor")
    if not re.search(r"MemoryLeakWarningPlugin\s*\*\s*MemoryLeakWarningPlugin::firstPlugin_\s*=\s*NULLPTR\s*;", plugin):
        raise TranslateError("firstPlugin_ is no longer initialised with NULLPTR")
    hdr = strip_comments(read("include/CppUTest/MemoryLeakWarningPlugin.h"))
    nh = norm(hdr)
    for macro, call in (("IGNORE_ALL_LEAKS_IN_TEST()", "ignoreAllLeaksInTest()"), ("EXPECT_N_LEAKS(n)", "expectLeaksInTest(n)")):
        want = ("#define%sif(MemoryLeakWarningPlugin::getFirstPlugin())MemoryLeakWarningPlugin::getFirstPlugin()->%s" % (macro, call))
        if want not in nh:
            raise TranslateError("macro %s no longer routes through getFirstPlugin()" % macro)

    expect_shape(plugin, r"MemoryLeakWarningPlugin::expectLeaksInTest\s*\([^)]*\)\s*\{", "expectedLeaks_=n;", "expectLeaksInTest")
    body = norm(function_body(plugin, r"MemoryLeakWarningPlugin::ignoreAllLeaksInTest\s*\(\s*\)\s*\{"))
    m = re.match(r"^ignoreAllWarnings_=(true|false);$", body)
    if not m:
        raise TranslateError("ignoreAllLeaksInTest changed shape: " + body)
    ignore_value = m.group(1)

    body = norm(function_body(plugin, r"MemoryLeakWarningPlugin::FinalReport\s*\([^)]*\)\s*\{"))
    m = re.match(r'^size_tleaks=memLeakDetector_->totalMemoryLeaks\((\w+)\);'
                 r'if\(leaks!=toBeDeletedLeaks\)returnmemLeakDetector_->report\((\w+)\);return"";$', body)
    if not m:
        raise TranslateError("FinalReport changed shape: " + body[:300])
    final_count, final_report = period(m.group(1)), period(m.group(2))

    # shape checks: counting, scanning, reporting, stamping
    expect_shape(det, r"MemoryLeakDetectorList::getTotalLeaks\s*\([^)]*\)\s*\{",
                 "size_ttotal_leaks=0;for(MemoryLeakDetectorNode*node=head_;node;node=node->next_){"
                 "if(isInPeriod(node,period))total_leaks++;}returntotal_leaks;", "MemoryLeakDetectorList::getTotalLeaks")
    expect_shape(det, r"MemoryLeakDetectorTable::getTotalLeaks\s*\([^)]*\)\s*\{",
                 "size_ttotal_leaks=0;for(inti=0;i<hash_prime;i++)total_leaks+=table_[i].getTotalLeaks(period);"
                 "returntotal_leaks;", "MemoryLeakDetectorTable::getTotalLeaks")
    expect_shape(det, r"MemoryLeakDetector::totalMemoryLeaks\s*\([^)]*\)\s*\{",
                 "returnmemoryTable_.getTotalLeaks(period);", "totalMemoryLeaks")
    expect_shape(det, r"MemoryLeakDetectorList::getLeakFrom\s*\([^)]*\)\s*\{",
                 "for(MemoryLeakDetectorNode*cur=node;cur;cur=cur->next_)if(isInPeriod(cur,period))returncur;"
                 "returnNULLPTR;", "getLeakFrom")
    expect_shape(det, r"MemoryLeakDetector::ConstructMemoryLeakReport\s*\([^)]*\)\s*\{",
                 "MemoryLeakDetectorNode*leak=memoryTable_.getFirstLeak(period);outputBuffer_.startMemoryLeakReporting();"
                 "while(leak){outputBuffer_.reportMemoryLeak(leak);leak=memoryTable_.getNextLeak(leak,period);}"
                 "outputBuffer_.stopMemoryLeakReporting();", "ConstructMemoryLeakReport")
    expect_shape(det, r"MemoryLeakDetector::report\s*\([^)]*\)\s*\{",
                 "ConstructMemoryLeakReport(period);returnoutputBuffer_.toString();", "MemoryLeakDetector::report")
    expect_shape(det, r"MemoryLeakDetector::storeLeakInformation\s*\([^)]*\)\s*\{",
                 "node->init(new_memory,allocationSequenceNumber_++,size,allocator,current_period_,"
                 "current_allocation_stage_,file,line);addMemoryCorruptionInformation(node->memory_+node->size_);"
                 "memoryTable_.addNewNode(node);", "storeLeakInformation")
    body = norm(function_body(det, r"MemoryLeakDetectorNode::init\s*\([^)]*\)\s*\{"))
    for need in ("number_=number;", "size_=size;", "period_=period;", "memory_=memory;"):
        if need not in body:
            raise TranslateError("MemoryLeakDetectorNode::init no longer has `%s`" % need)
    m = re.search(r"MemoryLeakDetectorNode::init\s*\(([^)]*)\)", det)
    params = [p.strip().split()[-1].lstrip("*") for p in m.group(1).split(",")]
    if params[:5] != ["memory", "number", "size", "allocator", "period"]:
        raise TranslateError("MemoryLeakDetectorNode::init parameter order changed: %r" % params)

    # reallocMemory: success = removeNode(old) + storeLeakInformation(new); failure = the old node is re-registered
    body = norm(function_body(det, r"MemoryLeakDetector::reallocMemory\s*\([^)]*\)\s*\{"))
    m = re.match(
        r"^#ifdefCPPUTEST_DISABLE_MEM_CORRUPTION_CHECKallocatNodesSeperately=true;#endif"
        r"if\(sizeOfMemoryWithCorruptionInfo\(size\)\+sizeof\(MemoryLeakDetectorNode\)<size\)returnNULLPTR;"
        r"MemoryLeakDetectorNodeoldNode;"
        r"if\(memory\)\{MemoryLeakDetectorNode\*node=memoryTable_\.removeNode\(memory\);"
        r"if\(node==NULLPTR\)\{outputBuffer_\.reportDeallocateNonAllocatedMemoryFailure\(file,line,allocator,reporter_\);returnNULLPTR;\}"
        r"oldNode=\*node;checkForCorruption\(node,file,line,allocator,allocatNodesSeperately\);\}"
        r"char\*new_memory=reallocateMemoryAndLeakInformation\(allocator,memory,size,file,line,allocatNodesSeperately\);"
        r"if\(new_memory==NULLPTR&&memory\)\{"
        r"MemoryLeakDetectorNode\*node=createMemoryLeakAccountingInformation\(oldNode\.allocator_,oldNode\.size_,memory,allocatNodesSeperately\);"
        r"node->init\(memory,(?P<number>[^,]+),(?P<size>[^,]+),oldNode\.allocator_,(?P<period>[^,]+),oldNode\.allocation_stage_,oldNode\.file_,oldNode\.line_\);"
        r"memoryTable_\.addNewNode\(node\);\}returnnew_memory;$", body)
    if not m:
        raise TranslateError("reallocMemory changed shape: " + body[:600])

    def field_src(text, old, fresh, what):
        if text == old:
            return ".old"
        if text == fresh:
            return ".fresh"
        raise TranslateError("reallocMemory, failed-realloc branch: %s of the re-registered node is `%s`" % (what, text))
    rf_number = field_src(m.group("number"), "oldNode.number_", "allocationSequenceNumber_++", "allocation number")
    rf_size = field_src(m.group("size"), "oldNode.size_", "size", "size")
    rf_period = field_src(m.group("period"), "oldNode.period_", "current_period_", "period")
    expect_shape(det, r"MemoryLeakDetector::reallocateMemoryAndLeakInformation\s*\([^)]*\)\s*\{",
                 "char*new_memory=reallocateMemoryWithAccountingInformation(allocator,memory,size,file,line,allocatNodesSeperately);"
                 "if(new_memory==NULLPTR)returnNULLPTR;"
                 "MemoryLeakDetectorNode*node=createMemoryLeakAccountingInformation(allocator,size,new_memory,allocatNodesSeperately);"
                 "storeLeakInformation(node,new_memory,size,allocator,file,line);returnnode->memory_;",
                 "reallocateMemoryAndLeakInformation")

    # the overload switches and destroyGlobalDetector
    body = norm(function_body(plugin, r"MemoryLeakWarningPlugin::areNewDeleteOverloaded\s*\(\s*\)\s*\{"))
    m = re.match(r"^#ifCPPUTEST_USE_MEM_LEAK_DETECTIONreturn(.*?);#elsereturnfalse;#endif$", body)
    if not m:
        raise TranslateError("areNewDeleteOverloaded changed shape: " + body[:200])
    on_set = set()
    for part in m.group(1).split("||"):
        mm = re.match(r"^operator_new_fptr==(\w+)$", part)
        if not mm:
            raise TranslateError("areNewDeleteOverloaded: disjunct not understood: " + part)
        on_set.add(mm.group(1))

    def new_fptr_after(fn):
        b = norm(function_body(plugin, r"MemoryLeakWarningPlugin::%s\s*\(\s*\)\s*\{" % fn))
        mm = re.search(r"operator_new_fptr=(\w+);", b)
        if not mm:
            raise TranslateError("%s does not assign operator_new_fptr" % fn)
        return "true" if mm.group(1) in on_set else "false"
    after_off = new_fptr_after("turnOffNewDeleteOverloads")
    after_on = new_fptr_after("turnOnDefaultNotThreadSafeNewDeleteOverloads")
    body = norm(function_body(plugin, r"MemoryLeakWarningPlugin::destroyGlobalDetector\s*\(\s*\)\s*\{"))
    m = re.match(r"^(turnOffNewDeleteOverloads\(\);)?deleteglobalDetector;deleteglobalReporter;globalDetector=NULLPTR;$", body)
    if not m:
        raise TranslateError("destroyGlobalDetector changed shape: " + body[:200])
    destroy_off = "true" if m.group(1) else "false"
    body = norm(function_body(plugin, r"MemoryLeakWarningPlugin::getGlobalDetector\s*\(\s*\)\s*\{"))
    if body != ("if(globalDetector==NULLPTR){saveAndDisableNewDeleteOverloads();globalReporter=newMemoryLeakWarningReporter;"
                "globalDetector=newMemoryLeakDetector(globalReporter);restoreNewDeleteOverloads();}returnglobalDetector;"):
        raise TranslateError("getGlobalDetector changed shape: " + body[:300])

    # the plugin chain and the runner
    # (TestPlugin::runAllPre/PostTestAction are translated by extract_leakchain.py into Gen/LeakChainCode.lean)
    body = function_body(utest, r"UtestShell::runOneTestInCurrentProcess\s*\([^)]*\)\s*\{")
    calls = []
    for mm in re.finditer(r"plugin->runAllPreTestAction\(|=\s*createTest\(\)|testToRun->run\(\)|destroyTest\(testToRun\)|"
                          r"plugin->runAllPostTestAction\(|catch\s*\(", body):
        t = mm.group(0)
        calls.append("pre" if "PreTestAction" in t else "post" if "PostTestAction" in t else
                     "create" if "createTest" in t else "run" if "testToRun->run" in t else
                     "destroy" if "destroyTest" in t else "catch")
    # the destroyTest inside the catch(...) handler is the exceptional path
    seq, in_catch = [], False
    for c in calls:
        if c == "catch":
            in_catch = True
            continue
        if in_catch and c == "destroy":
            in_catch = False
            continue
        seq.append(c)
    names = {"pre": ".preActions", "create": ".createTest", "run": ".runTest", "destroy": ".destroyTest", "post": ".postActions"}
    order = [names[c] for c in seq]

    body = function_body(utest, r"void\s+Utest::run\s*\(\s*\)\s*\{")   # first definition: the one with exceptions
    nb = norm(body)
    i1 = nb.find("jumpResult=PlatformSpecificSetJmp(helperDoTestSetup,this);")
    i2 = nb.find("if(jumpResult){")
    i3 = nb.find("PlatformSpecificSetJmp(helperDoTestBody,this);")
    i4 = nb.find("PlatformSpecificSetJmp(helperDoTestTeardown,this);")
    if not (0 <= i1 < i2 < i3 < i4):
        raise TranslateError("Utest::run: setup / body-if-setup-completed / teardown order not recognised")
    j = match_paren(nb, nb.index("{", i2), "{", "}")
    if not (i3 < j < i4):
        raise TranslateError("Utest::run: the teardown is no longer outside the body-if-setup-completed block")

    L = lambda xs: "[" + ", ".join(xs) + "]"
    text = HEADER % ("translate/extract_leakplugin.py", ", ".join([PLUGIN, DET, UTEST, TPLUGIN]))
    text += "import CppUModel.Model.LeakPluginSyntax\n"
    text += "set_option linter.unusedVariables false\nnamespace Gen.LeakCode\nopen LeakPlugin\n\n"
    text += "/-- `MemoryLeakWarningPlugin::preTestAction` -/\ndef preSteps : List PStep := %s\n\n" % L(pre)
    text += "/-- `MemoryLeakWarningPlugin::postTestAction` -/\ndef postSteps : List PStep := %s\n\n" % L(post)
    text += ("/-- condition of the outer `if` of postTestAction -/\n"
             "def failCond (ignoreAllWarnings : Bool) (expectedLeaks leaks failureCount resultFailureCount : Nat) : Bool :=\n  %s\n\n"
             % conds["fail"])
    text += ("/-- condition of the `else if` (overloads off): print the warning -/\n"
             "def warnCond (ignoreAllWarnings : Bool) (expectedLeaks leaks failureCount resultFailureCount : Nat) : Bool :=\n  %s\n\n"
             % conds["warn"])
    text += "/-- `MemoryLeakDetector::startChecking` -/\ndef startCheckingSteps : List DStep := %s\n" % L(start)
    text += "/-- `MemoryLeakDetector::stopChecking` -/\ndef stopCheckingSteps : List DStep := %s\n" % L(stop)
    text += "/-- `MemoryLeakDetector::enable` (called by the plugin constructor) -/\ndef enableSteps : List DStep := %s\n\n" % L(enable)
    text += ("/-- `MemoryLeakDetectorList::isInPeriod(node, period)` -/\n"
             "def isInPeriod (nodePeriod period : Period) : Bool :=\n  %s\n\n" % in_period)
    text += "/-- `markCheckingPeriodLeaksAsNonCheckingPeriod`: nodes scanned, nodes changed, new period -/\n"
    text += "def demoteScan : Period := %s\ndef demoteFrom : Period := %s\ndef demoteTo : Period := %s\n\n" % (scan, dfrom, dto)
    text += "/-- detector constructor -/\ndef initialSeq : Nat := %d\ndef initialPeriod : Period := %s\n" % (init_seq, init_period)
    text += "/-- plugin constructor initialisers, `ignoreAllLeaksInTest` -/\n"
    text += "def ctorIgnore : Bool := %s\ndef ctorExpected : Nat := %s\ndef ignoreAllLeaksValue : Bool := %s\n" % (
        mi.group(1), me.group(1), ignore_value)
    text += "/-- the constructor sets `firstPlugin_` only while it is still NULL (`true`) or always (`false`) -/\n"
    text += "def firstPluginSetOnlyIfNull : Bool := %s\n" % first_only_if_null
    text += "/-- `FinalReport`: period counted, period reported -/\n"
    text += "def finalCountPeriod : Period := %s\ndef finalReportPeriod : Period := %s\n\n" % (final_count, final_report)
    text += "/-- what `areNewDeleteOverloaded()` answers after `turnOffNewDeleteOverloads()` / after\n"
    text += "    `turnOnDefaultNotThreadSafeNewDeleteOverloads()`; does `destroyGlobalDetector()` turn the overloads off -/\n"
    text += "def overloadsAfterTurnOff : Bool := %s\ndef overloadsAfterTurnOn : Bool := %s\ndef destroyTurnsOverloadsOff : Bool := %s\n\n" % (
        after_off, after_on, destroy_off)
    text += "/-- `reallocMemory`, branch taken when the platform realloc failed: fields of the re-registered node -/\n"
    text += "def reallocFailNumber : FieldSrc := %s\ndef reallocFailSize : FieldSrc := %s\ndef reallocFailPeriod : FieldSrc := %s\n\n" % (
        rf_number, rf_size, rf_period)
    text += "/-- `UtestShell::runOneTestInCurrentProcess`: order of the calls (normal path) -/\n"
    text += "def runOneTestOrder : List RStep := %s\n" % L(order)
    text += "end Gen.LeakCode\n"
    return text


def run():
    text = extract()
    core.write_if_changed(os.path.join(core.LEAN, "CppUModel", "Gen", "LeakPluginCode.lean"), text)
    return []
