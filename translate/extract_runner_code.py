"""Regenerates lean/CppUModel/Gen/RunnerCode.lean for C01: CODE of the runner as data, executed by the
interpreters of lean/CppUModel/Model/RunnerCode.lean and proved equal to the hand-written model in
Props/C01.lean (section "regenerated code"):

  * `Utest::run`, both variants (src/CppUTest/Utest.cpp): the try blocks, their statements in order
    (printVeryVerbose / [jumpResult =] PlatformSpecificSetJmp(helperDoTest<Phase>, this) / the
    `if (jumpResult)` guard) and every catch clause in order with its statements (addFailure of the
    unexpected-exception record, PlatformSpecificRestoreJumpBuffer, the rethrow guard);
  * `UtestShell::runOneTestInCurrentProcess`: the statement list (very verbose prints, pre actions,
    context save / set, createTest, run, context restore, destroyTest, post actions) with the
    `catch (...) { destroyTest; throw; }` clause;
  * `UtestShell::runOneTest`, `failWith`, `addFailure`, `exitTest`, the terminators: statement lists;
  * the print sequences of `TestOutput::printFailure` and everything it calls (both working-environment
    formats, the selection between them, the one-location / two-location layouts, the message), and
    `TestFailure::isOutsideTestFile / isInHelperFunction`;
  * `CompositeTestOutput`: for every forwarded callback the list of receivers in order;
  * `CommandLineTestRunner::initializeTestRun`: every statement that writes the process-wide static
    `UtestShell::rethrowExceptions_` (guard and value), in order.

Everything is parsed from the token structure of the function bodies; a statement outside the
understood subset raises TranslateError (handled like a broken obligation).
"""
import os, re
from .common import *

UTEST = "src/CppUTest/Utest.cpp"
OUTPUT = "src/CppUTest/TestOutput.cpp"
FAILURE = "src/CppUTest/TestFailure.cpp"
RUNNER = "src/CppUTest/CommandLineTestRunner.cpp"

CTOKEN = re.compile(r'\s*("(?:\\.|[^"\\])*"|[A-Za-z_][A-Za-z_0-9]*|\d+|->|::|\.\.\.|\+\+|--|==|!=|<=|>=|&&|\|\||[-+*/%<>=!&|(){}\[\];,.?:~])')


def ctokens(text):
    out, i = [], 0
    text = re.sub(r"^\s*#.*$", "", text, flags=re.M)      # preprocessor lines (the configuration is fixed by the build)
    text = text.strip()
    while i < len(text):
        m = CTOKEN.match(text, i)
        if not m:
            if text[i:].strip() == "":
                break
            raise TranslateError("cannot tokenise at: " + text[i:i + 30])
        out.append(m.group(1))
        i = m.end()
    # adjacent string literals are one literal
    merged = []
    for t in out:
        if t.startswith('"') and merged and merged[-1].startswith('"'):
            merged[-1] = merged[-1][:-1] + t[1:]
        else:
            merged.append(t)
    return merged


def all_bodies(src, signature_regex):
    """bodies of every function whose header matches, in source order"""
    out = []
    pos = 0
    while True:
        m = re.search(signature_regex, src[pos:])
        if not m:
            break
        start = pos + m.start()
        out.append(function_body(src[start:], signature_regex))
        pos = pos + m.end()
    return out


def c_string_value(tok):
    """value of a C string literal token (only the escapes the sources use)"""
    s = tok[1:-1]
    out, i = "", 0
    while i < len(s):
        if s[i] == "\\":
            c = s[i + 1]
            if c == "n":
                out += "\n"; i += 2
            elif c == "t":
                out += "\t"; i += 2
            elif c == "\\":
                out += "\\"; i += 2
            elif c == '"':
                out += '"'; i += 2
            elif c == "0" and s[i + 1:i + 4] == "033":
                out += "\x1b"; i += 4
            else:
                raise TranslateError("escape outside the understood subset in " + tok)
        else:
            out += s[i]; i += 1
    return out


def lean_string(v):
    out = '"'
    for ch in v:
        if ch == "\n":
            out += "\\n"
        elif ch == "\t":
            out += "\\t"
        elif ch == "\\":
            out += "\\\\"
        elif ch == '"':
            out += '\\"'
        elif ch == "\x1b":
            out += "\\x1b"
        else:
            out += ch
    return out + '"'


class Toks:
    def __init__(self, toks, what):
        self.t, self.i, self.what = toks, 0, what

    def peek(self, k=0):
        return self.t[self.i + k] if self.i + k < len(self.t) else None

    def at(self, *seq):
        return self.t[self.i:self.i + len(seq)] == list(seq)

    def eat(self, *seq):
        if not self.at(*seq):
            raise TranslateError("%s: expected `%s`, found `%s`" % (self.what, " ".join(seq), " ".join(self.t[self.i:self.i + len(seq) + 2])))
        self.i += len(seq)

    def done(self):
        return self.i >= len(self.t)


PHASE_HELPERS = {"helperDoTestSetup": 0, "helperDoTestBody": 1, "helperDoTestTeardown": 2}


def parse_setjmp(tk):
    tk.eat("PlatformSpecificSetJmp", "(")
    h = tk.peek()
    if h not in PHASE_HELPERS:
        raise TranslateError("%s: PlatformSpecificSetJmp of `%s`" % (tk.what, h))
    tk.i += 1
    tk.eat(",", "this", ")")
    return PHASE_HELPERS[h]


def parse_run_stmts(tk, guarded, out):
    """statements of a (try) block body up to the closing brace (not consumed)"""
    while not tk.at("}") and not tk.done():
        if tk.at("current", "->", "printVeryVerbose", "("):
            tk.eat("current", "->", "printVeryVerbose", "(")
            s = tk.peek()
            if not s or not s.startswith('"'):
                raise TranslateError(tk.what + ": printVeryVerbose of a non-literal")
            tk.i += 1
            tk.eat(")", ";")
            out.append((guarded, ".vv %s" % lean_string(c_string_value(s))))
        elif tk.at(tk.jump, "=", "PlatformSpecificSetJmp"):
            if guarded:
                raise TranslateError(tk.what + ": the setjmp result is assigned inside its own guard")
            tk.eat(tk.jump, "=")
            ph = parse_setjmp(tk)
            tk.eat(";")
            out.append((guarded, ".setJmp %d true" % ph))
        elif tk.at("PlatformSpecificSetJmp"):
            ph = parse_setjmp(tk)
            tk.eat(";")
            out.append((guarded, ".setJmp %d false" % ph))
        elif tk.at("if", "(", tk.jump, ")", "{"):
            if guarded:
                raise TranslateError(tk.what + ": nested guard on the setjmp result")
            tk.eat("if", "(", tk.jump, ")", "{")
            parse_run_stmts(tk, True, out)
            tk.eat("}")
        elif tk.at("if", "(", "PlatformSpecificSetJmp"):
            if guarded:
                raise TranslateError(tk.what + ": nested `if (PlatformSpecificSetJmp(..))`")
            tk.eat("if", "(")
            ph = parse_setjmp(tk)
            tk.eat(")", "{")
            out.append((guarded, ".setJmp %d true" % ph))
            parse_run_stmts(tk, True, out)
            tk.eat("}")
        else:
            raise TranslateError("%s: statement outside the understood subset at `%s`" % (tk.what, " ".join(tk.t[tk.i:tk.i + 8])))


def parse_catch_ops(tk):
    ops = []
    while not tk.at("}"):
        if tk.at("current", "->", "addFailure", "(", "UnexpectedExceptionFailure", "(", "current", ",", "e", ")", ")", ";"):
            tk.eat("current", "->", "addFailure", "(", "UnexpectedExceptionFailure", "(", "current", ",", "e", ")", ")", ";")
            ops.append(".addFailure true")
        elif tk.at("current", "->", "addFailure", "(", "UnexpectedExceptionFailure", "(", "current", ")", ")", ";"):
            tk.eat("current", "->", "addFailure", "(", "UnexpectedExceptionFailure", "(", "current", ")", ")", ";")
            ops.append(".addFailure false")
        elif tk.at("PlatformSpecificRestoreJumpBuffer", "(", ")", ";"):
            tk.eat("PlatformSpecificRestoreJumpBuffer", "(", ")", ";")
            ops.append(".restore")
        elif tk.at("if", "(", "current", "->", "isRethrowingExceptions", "(", ")", ")"):
            tk.eat("if", "(", "current", "->", "isRethrowingExceptions", "(", ")", ")")
            if tk.at("{"):
                tk.eat("{", "throw", ";", "}")
            else:
                tk.eat("throw", ";")
            ops.append(".rethrowIfMode")
        elif tk.at("throw", ";"):
            tk.eat("throw", ";")
            ops.append(".rethrow")
        else:
            raise TranslateError("%s: catch statement outside the understood subset at `%s`" % (tk.what, " ".join(tk.t[tk.i:tk.i + 8])))
    return ops


def parse_catch_pattern(tk):
    tk.eat("catch", "(")
    if tk.at("..."):
        tk.eat("...", ")")
        return ".any"
    if tk.at("CppUTestFailedException", "&", ")"):
        tk.eat("CppUTestFailedException", "&", ")")
        return ".failed"
    if tk.at("const", "CppUTestFailedException", "&", ")"):
        tk.eat("const", "CppUTestFailedException", "&", ")")
        return ".failed"
    if tk.at("const", "std", "::", "exception", "&", "e", ")"):
        tk.eat("const", "std", "::", "exception", "&", "e", ")")
        return ".std"
    raise TranslateError("%s: catch pattern outside the understood subset at `%s`" % (tk.what, " ".join(tk.t[tk.i:tk.i + 8])))


def parse_utest_run(body, what):
    tk = Toks(ctokens(body), what)
    blocks = []
    # prologue of the variant with exceptions
    if tk.at("UtestShell", "*", "current", "=", "UtestShell", "::", "getCurrent", "(", ")", ";"):
        tk.eat("UtestShell", "*", "current", "=", "UtestShell", "::", "getCurrent", "(", ")", ";")
    tk.jump = "jumpResult"
    if tk.peek() == "int" and tk.peek(2) == "=" and tk.peek(3) == "0" and tk.peek(4) == ";" and re.fullmatch(r"[A-Za-z_]\w*", tk.peek(1) or ""):
        tk.jump = tk.peek(1)                      # the local that holds the result of the setup's setjmp call (any name)
        tk.i += 5
    while not tk.done():
        if tk.at("try", "{"):
            tk.eat("try", "{")
            stmts = []
            parse_run_stmts(tk, False, stmts)
            tk.eat("}")
            catches = []
            while tk.at("catch"):
                pat = parse_catch_pattern(tk)
                tk.eat("{")
                ops = parse_catch_ops(tk)
                tk.eat("}")
                catches.append((pat, ops))
            if not catches:
                raise TranslateError(what + ": try without catch")
            blocks.append((stmts, catches))
        else:
            # statements outside any try block: one block without handlers
            stmts = []
            before = tk.i
            # parse up to the next `try` or the end
            sub = Toks(tk.t[tk.i:], what)
            j = 0
            depth = 0
            while j < len(sub.t) and not (sub.t[j] == "try" and depth == 0):
                if sub.t[j] == "{":
                    depth += 1
                elif sub.t[j] == "}":
                    depth -= 1
                j += 1
            part = Toks(sub.t[:j], what)
            part.jump = tk.jump
            parse_run_stmts(part, False, stmts)
            if not part.done():
                raise TranslateError(what + ": unbalanced block")
            tk.i = before + j
            blocks.append((stmts, []))
    return blocks


def lean_blocks(blocks):
    out = []
    for stmts, catches in blocks:
        s = ",\n      ".join("⟨%s, %s⟩" % ("true" if g else "false", op) for g, op in stmts)
        c = ",\n      ".join("⟨%s, [%s]⟩" % (pat, ", ".join(ops)) for pat, ops in catches)
        out.append("  ⟨[%s],\n     [%s]⟩" % (s, c))
    return "[\n" + ",\n".join(out) + "]"


# ---------------------------------------------------------------- runOneTestInCurrentProcess & co

ONE_SIMPLE = [
    (("plugin", "->", "runAllPreTestAction", "(", "*", "this", ",", "result", ")", ";"), ".preActions"),
    (("plugin", "->", "runAllPostTestAction", "(", "*", "this", ",", "result", ")", ";"), ".postActions"),
    (("UtestShell", "*", "savedTest", "=", "UtestShell", "::", "getCurrent", "(", ")", ";"), ".saveCurrent"),
    (("TestResult", "*", "savedResult", "=", "UtestShell", "::", "getTestResult", "(", ")", ";"), ".saveResult"),
    (("UtestShell", "::", "setTestResult", "(", "&", "result", ")", ";"), ".setResult"),
    (("UtestShell", "::", "setCurrentTest", "(", "this", ")", ";"), ".setCurrent"),
    (("Utest", "*", "testToRun", "=", "NULLPTR", ";"), ".declTest"),
    (("testToRun", "=", "createTest", "(", ")", ";"), ".createTest"),
    (("testToRun", "->", "run", "(", ")", ";"), ".runTest"),
    (("UtestShell", "::", "setCurrentTest", "(", "savedTest", ")", ";"), ".restoreCurrent"),
    (("UtestShell", "::", "setTestResult", "(", "savedResult", ")", ";"), ".restoreResult"),
    (("destroyTest", "(", "testToRun", ")", ";"), ".destroyTest"),
    (("throw", ";"), ".rethrow"),
]


def parse_one_ops(tk, stop):
    ops = []
    while not tk.done() and not tk.at(*stop):
        if tk.at("result", ".", "printVeryVerbose", "("):
            tk.eat("result", ".", "printVeryVerbose", "(")
            s = tk.peek()
            if not s or not s.startswith('"'):
                raise TranslateError(tk.what + ": printVeryVerbose of a non-literal")
            tk.i += 1
            tk.eat(")", ";")
            ops.append(".vv %s" % lean_string(c_string_value(s)))
            continue
        for seq, name in ONE_SIMPLE:
            if tk.at(*seq):
                tk.eat(*seq)
                ops.append(name)
                break
        else:
            raise TranslateError("%s: statement outside the understood subset at `%s`" % (tk.what, " ".join(tk.t[tk.i:tk.i + 8])))
    return ops


def parse_run_one_in_process(body):
    what = "UtestShell::runOneTestInCurrentProcess"
    tk = Toks(ctokens(body), what)
    before = parse_one_ops(tk, ("try",))
    tk.eat("try", "{")
    inside = parse_one_ops(tk, ("}",))
    tk.eat("}", "catch", "(", "...", ")", "{")
    handler = parse_one_ops(tk, ("}",))
    tk.eat("}")
    after = parse_one_ops(tk, ("@never@",))
    return before, inside, handler, after


def simple_seq(body, what, table):
    """a body that is a plain sequence of known statements -> list of names"""
    tk = Toks(ctokens(body), what)
    ops = []
    while not tk.done():
        for seq, name in table:
            if tk.at(*seq):
                tk.eat(*seq)
                ops.append(name)
                break
        else:
            raise TranslateError("%s: statement outside the understood subset at `%s`" % (what, " ".join(tk.t[tk.i:tk.i + 8])))
    return ops


# ---------------------------------------------------------------- TestOutput::printFailure family

def parse_prints(body, what, args):
    """sequence of print(..) calls -> list of PItem; args: C expression text -> PItem name"""
    tk = Toks(ctokens(body), what)
    items = []
    while not tk.done():
        tk.eat("print", "(")
        t = tk.peek()
        if t is not None and t.startswith('"'):
            tk.i += 1
            tk.eat(")", ";")
            items.append(".lit %s" % lean_string(c_string_value(t)))
            continue
        j = tk.i
        depth = 0
        while j < len(tk.t) and not (tk.t[j] == ")" and depth == 0):
            if tk.t[j] == "(":
                depth += 1
            elif tk.t[j] == ")":
                depth -= 1
            j += 1
        expr = "".join(tk.t[tk.i:j])
        if expr not in args:
            raise TranslateError("%s: print of `%s` is outside the understood subset" % (what, expr))
        items.append(args[expr])
        tk.i = j
        tk.eat(")", ";")
    return items


PART_CALLS = [
    (("printErrorInFileOnLineFormattedForWorkingEnvironment", "(", "failure", ".", "getTestFileName", "(", ")", ",",
      "failure", ".", "getTestLineNumber", "(", ")", ")", ";"), ".testLoc"),
    (("printErrorInFileOnLineFormattedForWorkingEnvironment", "(", "failure", ".", "getFileName", "(", ")", ",",
      "failure", ".", "getFailureLineNumber", "(", ")", ")", ";"), ".failLoc"),
    (("printFailureInTest", "(", "failure", ".", "getTestName", "(", ")", ")", ";"), ".inTest"),
]

COMPOSITE_CALLBACKS = ["printTestsStarted()", "printTestsEnded(result)", "printCurrentTestStarted(test)",
                       "printCurrentTestEnded(res)", "printCurrentGroupStarted(test)", "printCurrentGroupEnded(res)",
                       "verbose(level)", "color()", "printBuffer(buffer)", "print(buffer)", "print(number)", "print(number)",
                       "printDouble(number)", "printFailure(failure)", "setProgressIndicator(indicator)",
                       "printVeryVerbose(str)", "flush()"]


def parse_rethrow_init(body):
    """the statements of initializeTestRun that call UtestShell::setRethrowExceptions -> [(guard, value)]"""
    opt = r"arguments_->isRethrowingExceptions\(\)"
    guards = [(r"", ".always"), (r"if\(%s\)" % opt, ".ifOption"), (r"if\(%s==true\)" % opt, ".ifOption"),
              (r"if\(!%s\)" % opt, ".ifNotOption"), (r"if\(%s==false\)" % opt, ".ifNotOption")]
    values = [(opt, ".option"), ("!" + opt, ".notOption"), ("true", ".lit true"), ("false", ".lit false")]
    out = []
    for st in re.sub(r"\s+", "", body).split(";"):
        if "setRethrowExceptions" not in st and "rethrowExceptions_" not in st:
            continue
        if st.startswith("else") and out and out[-1][0] in (".ifOption", ".ifNotOption"):     # the other branch of the `if` before
            other = ".ifNotOption" if out[-1][0] == ".ifOption" else ".ifOption"
            for v, vname in values:
                if re.fullmatch(r"elseUtestShell::setRethrowExceptions\(" + v + r"\)", st):
                    out.append((other, vname))
                    break
            else:
                raise TranslateError("initializeTestRun: statement writing the rethrow flag is outside the understood subset: " + st[:160])
            continue
        for g, gname in guards:
            for v, vname in values:
                if re.fullmatch(g + r"UtestShell::setRethrowExceptions\(" + v + r"\)", st):
                    out.append((gname, vname))
                    break
            else:
                continue
            break
        else:
            raise TranslateError("initializeTestRun: statement writing the rethrow flag is outside the understood subset: " + st[:160])
    return out


def extract():
    rn = strip_comments(read(RUNNER))
    rethrow_init = parse_rethrow_init(function_body(rn, r"void\s+CommandLineTestRunner::initializeTestRun\s*\(\s*\)\s*\{"))
    ut_src = strip_comments(read(UTEST))
    m = re.search(r"void\s+UtestShell::setRethrowExceptions\s*\(\s*bool\s+(\w+)\s*\)\s*\{", ut_src)
    b = re.sub(r"\s+", "", function_body(ut_src, r"void\s+UtestShell::setRethrowExceptions\s*\(\s*bool\s+\w+\s*\)\s*\{"))
    if not m or b != "rethrowExceptions_=%s;" % m.group(1):
        raise TranslateError("shape of UtestShell::setRethrowExceptions changed: " + b[:120])
    b = re.sub(r"\s+", "", function_body(ut_src, r"bool\s+UtestShell::isRethrowingExceptions\s*\(\s*\)\s*\{"))
    if b != "returnrethrowExceptions_;":
        raise TranslateError("shape of UtestShell::isRethrowingExceptions changed: " + b[:120])
    if not re.search(r"bool\s+UtestShell::rethrowExceptions_\s*=\s*false\s*;", ut_src):
        raise TranslateError("the initial value of the static UtestShell::rethrowExceptions_ is not `false`")
    ut = strip_comments(read(UTEST))
    runs = all_bodies(ut, r"void\s+Utest::run\s*\(\s*\)\s*\{")
    if len(runs) != 2:
        raise TranslateError("expected two variants of Utest::run (with / without exceptions), found %d" % len(runs))
    m = re.search(r"#if\s+CPPUTEST_HAVE_EXCEPTIONS\s+void\s+Utest::run", ut)
    if not m:
        raise TranslateError("the first Utest::run is not the CPPUTEST_HAVE_EXCEPTIONS variant")
    exc_blocks = parse_utest_run(runs[0], "Utest::run (exceptions)")
    noexc_blocks = parse_utest_run(runs[1], "Utest::run (no exceptions)")
    if any(c for _, c in noexc_blocks):
        raise TranslateError("the variant of Utest::run without exceptions contains a try block")

    body = function_body(ut, r"void\s+UtestShell::runOneTestInCurrentProcess\s*\(\s*TestPlugin\s*\*\s*plugin\s*,\s*TestResult\s*&\s*result\s*\)\s*\{")
    before, inside, handler, after = parse_run_one_in_process(body)

    run_one = simple_seq(function_body(ut, r"void\s+UtestShell::runOneTest\s*\(\s*TestPlugin\s*\*\s*plugin\s*,\s*TestResult\s*&\s*result\s*\)\s*\{"),
                         "UtestShell::runOneTest", [
        (("hasFailed_", "=", "false", ";"), ".clearFailed"),
        (("result", ".", "countRun", "(", ")", ";"), ".countRun"),
        (("HelperTestRunInfo", "runInfo", "(", "this", ",", "plugin", ",", "&", "result", ")", ";"), ".mkInfo"),
        (("if", "(", "isRunInSeperateProcess", "(", ")", ")", "PlatformSpecificSetJmp", "(", "helperDoRunOneTestSeperateProcess", ",", "&", "runInfo", ")", ";",
          "else", "PlatformSpecificSetJmp", "(", "helperDoRunOneTestInCurrentProcess", ",", "&", "runInfo", ")", ";"), ".setJmpByMode"),
    ])
    fail_with = simple_seq(function_body(ut, r"void\s+UtestShell::failWith\s*\(\s*const\s+TestFailure\s*&\s*failure\s*,\s*const\s+TestTerminator\s*&\s*terminator\s*\)\s*\{"),
                           "UtestShell::failWith", [
        (("addFailure", "(", "failure", ")", ";"), ".addFailure"),
        (("terminator", ".", "exitCurrentTest", "(", ")", ";"), ".exitCurrentTest"),
    ])
    add_failure = simple_seq(function_body(ut, r"void\s+UtestShell::addFailure\s*\(\s*const\s+TestFailure\s*&\s*failure\s*\)\s*\{"),
                             "UtestShell::addFailure", [
        (("hasFailed_", "=", "true", ";"), ".setFailed"),
        (("getTestResult", "(", ")", "->", "addFailure", "(", "failure", ")", ";"), ".resultAddFailure"),
    ])
    exit_test = simple_seq(function_body(ut, r"void\s+UtestShell::exitTest\s*\(\s*const\s+TestTerminator\s*&\s*terminator\s*\)\s*\{"),
                           "UtestShell::exitTest", [
        (("terminator", ".", "exitCurrentTest", "(", ")", ";"), ".exitCurrentTest"),
    ])
    fail_fn = simple_seq(function_body(ut, r"void\s+UtestShell::fail\s*\(\s*const\s+char\s*\*\s*text\s*,[^)]*\)\s*\{"),
                         "UtestShell::fail", [
        (("getTestResult", "(", ")", "->", "countCheck", "(", ")", ";"), ".countCheck"),
        (("failWith", "(", "FailFailure", "(", "this", ",", "fileName", ",", "lineNumber", ",", "text", ")", ",", "testTerminator", ")", ";"), ".failWith"),
    ])
    # terminators: the raw body with its preprocessor structure
    raw = function_body(ut, r"void\s+NormalTestTerminator::exitCurrentTest\s*\(\s*\)\s*const\s*\{")
    want = "#ifCPPUTEST_HAVE_EXCEPTIONSthrowCppUTestFailedException();#elseTestTerminatorWithoutExceptions().exitCurrentTest();#endif"
    if re.sub(r"\s+", "", raw) != want:
        raise TranslateError("shape of NormalTestTerminator::exitCurrentTest changed: " + re.sub(r"\s+", "", raw)[:160])
    term_c = simple_seq(function_body(ut, r"void\s+TestTerminatorWithoutExceptions::exitCurrentTest\s*\(\s*\)\s*const\s*\{"),
                        "TestTerminatorWithoutExceptions::exitCurrentTest", [
        (("PlatformSpecificLongJmp", "(", ")", ";"), ".longJmp"),
    ])
    crash_n = simple_seq(function_body(ut, r"void\s+CrashingTestTerminator::exitCurrentTest\s*\(\s*\)\s*const\s*\{"),
                         "CrashingTestTerminator::exitCurrentTest", [
        (("UtestShell", "::", "crash", "(", ")", ";"), ".crash"),
        (("NormalTestTerminator", "::", "exitCurrentTest", "(", ")", ";"), ".normalExit"),
    ])
    crash_c = simple_seq(function_body(ut, r"void\s+CrashingTestTerminatorWithoutExceptions::exitCurrentTest\s*\(\s*\)\s*const\s*\{"),
                         "CrashingTestTerminatorWithoutExceptions::exitCurrentTest", [
        (("UtestShell", "::", "crash", "(", ")", ";"), ".crash"),
        (("TestTerminatorWithoutExceptions", "::", "exitCurrentTest", "(", ")", ";"), ".longJmpExit"),
    ])

    outp = strip_comments(read(OUTPUT))
    loc_args = {"file.asCharString()": ".file", "lineNumber": ".line"}
    ecl = parse_prints(function_body(outp, r"void\s+TestOutput::printEclipseErrorInFileOnLine\s*\([^)]*\)\s*\{"),
                       "printEclipseErrorInFileOnLine", loc_args)
    vs = parse_prints(function_body(outp, r"void\s+TestOutput::printVisualStudioErrorInFileOnLine\s*\([^)]*\)\s*\{"),
                      "printVisualStudioErrorInFileOnLine", loc_args)
    in_test = parse_prints(function_body(outp, r"void\s+TestOutput::printFailureInTest\s*\([^)]*\)\s*\{"),
                           "printFailureInTest", {"testName.asCharString()": ".name"})
    message = parse_prints(function_body(outp, r"void\s+TestOutput::printFailureMessage\s*\([^)]*\)\s*\{"),
                           "printFailureMessage", {"reason.asCharString()": ".msg"})
    two = simple_seq(function_body(outp, r"void\s+TestOutput::printFileAndLineForTestAndFailure\s*\([^)]*\)\s*\{"),
                     "printFileAndLineForTestAndFailure", PART_CALLS)
    one = simple_seq(function_body(outp, r"void\s+TestOutput::printFileAndLineForFailure\s*\([^)]*\)\s*\{"),
                     "printFileAndLineForFailure", PART_CALLS)
    # the selection of the layout and of the format
    b = re.sub(r"\s+", "", function_body(outp, r"void\s+TestOutput::printFailure\s*\(\s*const\s+TestFailure\s*&\s*failure\s*\)\s*\{"))
    m = re.fullmatch(r"if\((.*?)\)printFileAndLineForTestAndFailure\(failure\);elseprintFileAndLineForFailure\(failure\);"
                     r"printFailureMessage\(failure\.getMessage\(\)\);", b)
    if not m:
        raise TranslateError("shape of TestOutput::printFailure changed: " + b[:200])
    cond = m.group(1)
    conds = {"failure.isOutsideTestFile()||failure.isInHelperFunction()": "(outside || helper)",
             "failure.isInHelperFunction()||failure.isOutsideTestFile()": "(helper || outside)"}
    if cond not in conds:
        raise TranslateError("layout condition of TestOutput::printFailure is outside the understood subset: " + cond)
    layout = conds[cond]
    b = re.sub(r"\s+", "", function_body(outp, r"void\s+TestOutput::printErrorInFileOnLineFormattedForWorkingEnvironment\s*\([^)]*\)\s*\{"))
    shapes = {
        "if(TestOutput::getWorkingEnvironment()==TestOutput::visualStudio)printVisualStudioErrorInFileOnLine(file,lineNumber);"
        "elseprintEclipseErrorInFileOnLine(file,lineNumber);": "isVisualStudio",
        "if(TestOutput::getWorkingEnvironment()==TestOutput::eclipse)printEclipseErrorInFileOnLine(file,lineNumber);"
        "elseprintVisualStudioErrorInFileOnLine(file,lineNumber);": "isVisualStudio",
    }
    if b not in shapes:
        raise TranslateError("shape of printErrorInFileOnLineFormattedForWorkingEnvironment changed: " + b[:240])
    use_vs = shapes[b]
    # getWorkingEnvironment: the detected environment is the platform's
    b = re.sub(r"\s+", "", function_body(outp, r"TestOutput::WorkingEnvironment\s+TestOutput::getWorkingEnvironment\s*\(\s*\)\s*\{"))
    if b != "if(workingEnvironment_==TestOutput::detectEnvironment)returnPlatformSpecificGetWorkingEnvironment();returnworkingEnvironment_;":
        raise TranslateError("shape of TestOutput::getWorkingEnvironment changed: " + b[:200])
    plat = strip_comments(read("src/Platforms/Gcc/UtestPlatform.cpp"))
    b = re.sub(r"\s+", "", function_body(plat, r"TestOutput::WorkingEnvironment\s+PlatformSpecificGetWorkingEnvironment\s*\(\s*\)\s*\{"))
    m = re.fullmatch(r"returnTestOutput::(eclipse|visualStudio);", b)
    if not m:
        raise TranslateError("shape of PlatformSpecificGetWorkingEnvironment changed: " + b[:120])
    detected_vs = m.group(1) == "visualStudio"

    fl = strip_comments(read(FAILURE))
    b = re.sub(r"\s+", "", function_body(fl, r"bool\s+TestFailure::isOutsideTestFile\s*\(\s*\)\s*const\s*\{"))
    outside = {"returntestFileName_!=fileName_;": "(testFile != file)", "returnfileName_!=testFileName_;": "(file != testFile)"}
    if b not in outside:
        raise TranslateError("TestFailure::isOutsideTestFile is outside the understood subset: " + b[:120])
    outside_text = outside[b]
    b = re.sub(r"\s+", "", function_body(fl, r"bool\s+TestFailure::isInHelperFunction\s*\(\s*\)\s*const\s*\{"))
    helper = {"returnlineNumber_<testLineNumber_;": "decide (line < testLine)", "returntestLineNumber_>lineNumber_;": "decide (testLine > line)",
              "returnlineNumber_<=testLineNumber_;": "decide (line ≤ testLine)", "returnlineNumber_>testLineNumber_;": "decide (line > testLine)",
              "returnlineNumber_!=testLineNumber_;": "(line != testLine)"}
    if b not in helper:
        raise TranslateError("TestFailure::isInHelperFunction is outside the understood subset: " + b[:120])
    helper_text = helper[b]

    # ConsoleTestOutput::printBuffer / flush: the statement lists
    print_buffer = simple_seq(function_body(outp, r"void\s+ConsoleTestOutput::printBuffer\s*\(\s*const\s+char\s*\*\s*s\s*\)\s*\{"),
                              "ConsoleTestOutput::printBuffer", [
        (("PlatformSpecificFPuts", "(", "s", ",", "PlatformSpecificStdOut", ")", ";"), ".fputs"),
        (("flush", "(", ")", ";"), ".flush"),
        (("PlatformSpecificFlush", "(", ")", ";"), ".platformFlush"),
    ])
    console_flush = simple_seq(function_body(outp, r"void\s+ConsoleTestOutput::flush\s*\(\s*\)\s*\{"),
                               "ConsoleTestOutput::flush", [
        (("PlatformSpecificFlush", "(", ")", ";"), ".platformFlush"),
    ])
    b = re.sub(r"\s+", "", function_body(outp, r"void\s+TestOutput::print\s*\(\s*const\s+char\s*\*\s*str\s*\)\s*\{"))
    if b != "printBuffer(str);":
        raise TranslateError("shape of TestOutput::print(const char*) changed: " + b[:120])
    b = re.sub(r"\s+", "", function_body(outp, r"void\s+TestOutput::printVeryVerbose\s*\(\s*const\s+char\s*\*\s*str\s*\)\s*\{"))
    if b != "if(verbose_==level_veryVerbose)printBuffer(str);":
        raise TranslateError("shape of TestOutput::printVeryVerbose changed: " + b[:120])

    # CompositeTestOutput: receivers of every forwarded callback, in order
    comp = []
    for mm in re.finditer(r"void\s+CompositeTestOutput::(\w+)\s*\(([^)]*)\)\s*\{", outp):
        name = mm.group(1)
        if name in ("setOutputOne", "setOutputTwo"):
            continue
        body = function_body(outp[mm.start():], r"void\s+CompositeTestOutput::%s\s*\(" % name)
        nb = re.sub(r"\s+", "", body)
        recv = []
        pos = 0
        pat = re.compile(r"if\(output(One|Two)_\)output(One|Two)_->(\w+)\(([^;]*)\);")
        while pos < len(nb):
            m2 = pat.match(nb, pos)
            if not m2 or m2.group(1) != m2.group(2) or m2.group(3) != name:
                raise TranslateError("CompositeTestOutput::%s is outside the understood subset: %s" % (name, nb[:160]))
            recv.append(".one" if m2.group(1) == "One" else ".two")
            pos = m2.end()
        comp.append((name, recv))
    names = [n for n, _ in comp]
    for need in ("printTestsStarted", "printTestsEnded", "printCurrentTestStarted", "printCurrentTestEnded", "printCurrentGroupStarted",
                 "printCurrentGroupEnded", "verbose", "color", "printBuffer", "print", "printDouble", "printFailure",
                 "setProgressIndicator", "printVeryVerbose", "flush"):
        if need not in names:
            raise TranslateError("CompositeTestOutput::%s not found" % need)

    text = HEADER % ("translate/extract_runner_code.py", ", ".join([UTEST, OUTPUT, FAILURE, "src/Platforms/Gcc/UtestPlatform.cpp", RUNNER]))
    text += """namespace Gen.Runner

/-- one statement inside `Utest::run` (phase: 0 setup, 1 body, 2 teardown) -/
inductive RunOp
  | vv (s : String)                        -- current->printVeryVerbose(s)
  | setJmp (phase : Nat) (assign : Bool)   -- [jumpResult =] PlatformSpecificSetJmp(helperDoTest<phase>, this)
deriving Repr, DecidableEq, Inhabited

structure RunStmt where
  guarded : Bool                           -- inside `if (jumpResult) { .. }`
  op : RunOp
deriving Repr, DecidableEq, Inhabited

inductive CatchPat
  | failed                                 -- catch (CppUTestFailedException&)
  | std                                    -- catch (const std::exception& e)
  | any                                    -- catch (...)
deriving Repr, DecidableEq, Inhabited

inductive CatchOp
  | addFailure (withWhat : Bool)           -- current->addFailure(UnexpectedExceptionFailure(current[, e]))
  | restore                                -- PlatformSpecificRestoreJumpBuffer()
  | rethrowIfMode                          -- if (current->isRethrowingExceptions()) throw;
  | rethrow                                -- throw;
deriving Repr, DecidableEq, Inhabited

structure CatchClause where
  pat : CatchPat
  ops : List CatchOp
deriving Repr, DecidableEq, Inhabited

structure TryBlock where
  body : List RunStmt
  catches : List CatchClause               -- empty: the statements are not inside a try block
deriving Repr, DecidableEq, Inhabited

/-- one statement of `UtestShell::runOneTestInCurrentProcess` -/
inductive OneOp
  | vv (s : String) | preActions | postActions | saveCurrent | saveResult | setResult | setCurrent
  | declTest | createTest | runTest | restoreCurrent | restoreResult | destroyTest | rethrow
deriving Repr, DecidableEq, Inhabited

inductive ShellOp
  | clearFailed | countRun | mkInfo | setJmpByMode | addFailure | exitCurrentTest | setFailed | resultAddFailure
  | countCheck | failWith | longJmp | crash | normalExit | longJmpExit
deriving Repr, DecidableEq, Inhabited

/-- one `print` call of the failure printing functions -/
inductive PItem
  | lit (s : String) | file | line | name | msg
deriving Repr, DecidableEq, Inhabited

inductive FPart
  | testLoc | failLoc | inTest
deriving Repr, DecidableEq, Inhabited

inductive Receiver
  | one | two
deriving Repr, DecidableEq, Inhabited

/-- guard of a statement of `CommandLineTestRunner::initializeTestRun` that writes `UtestShell::rethrowExceptions_`
    (the option = `arguments_->isRethrowingExceptions()`, i.e. no `-e`) -/
inductive InitGuard
  | always | ifOption | ifNotOption
deriving Repr, DecidableEq, Inhabited

/-- the value such a statement passes to `UtestShell::setRethrowExceptions` -/
inductive InitValue
  | option | notOption | lit (b : Bool)
deriving Repr, DecidableEq, Inhabited

structure RethrowInit where
  guard : InitGuard
  value : InitValue
deriving Repr, DecidableEq, Inhabited

/-- one statement of `ConsoleTestOutput::printBuffer(s)` / `ConsoleTestOutput::flush()` -/
inductive IoOp
  | fputs                                  -- PlatformSpecificFPuts(s, PlatformSpecificStdOut)
  | flush                                  -- flush()
  | platformFlush                          -- PlatformSpecificFlush()
deriving Repr, DecidableEq, Inhabited

"""
    text += "/-- `Utest::run`, CPPUTEST_HAVE_EXCEPTIONS -/\ndef utestRunExcCode : List TryBlock := %s\n\n" % lean_blocks(exc_blocks)
    text += "/-- `Utest::run`, build without exceptions -/\ndef utestRunNoExcCode : List TryBlock := %s\n\n" % lean_blocks(noexc_blocks)
    text += "/-- `UtestShell::runOneTestInCurrentProcess`: before the try block -/\ndef oneTestBefore : List OneOp := [%s]\n" % ", ".join(before)
    text += "/-- ... inside the try block -/\ndef oneTestTry : List OneOp := [%s]\n" % ", ".join(inside)
    text += "/-- ... `catch (...)` -/\ndef oneTestCatchAll : List OneOp := [%s]\n" % ", ".join(handler)
    text += "/-- ... after the try block -/\ndef oneTestAfter : List OneOp := [%s]\n\n" % ", ".join(after)
    for name, val in (("runOneTestCode", run_one), ("failWithCode", fail_with), ("shellAddFailureCode", add_failure),
                      ("exitTestCode", exit_test), ("failCode", fail_fn), ("terminatorWithoutExceptionsCode", term_c),
                      ("crashingTerminatorCode", crash_n), ("crashingTerminatorWithoutExceptionsCode", crash_c)):
        text += "def %s : List ShellOp := [%s]\n" % (name, ", ".join(val))
    text += "\n/-- `printEclipseErrorInFileOnLine` -/\ndef eclipseLoc : List PItem := [%s]\n" % ", ".join(ecl)
    text += "/-- `printVisualStudioErrorInFileOnLine` -/\ndef visualStudioLoc : List PItem := [%s]\n" % ", ".join(vs)
    text += "/-- `printFailureInTest` -/\ndef failureInTest : List PItem := [%s]\n" % ", ".join(in_test)
    text += "/-- `printFailureMessage` -/\ndef failureMessage : List PItem := [%s]\n" % ", ".join(message)
    text += "/-- `printFileAndLineForTestAndFailure` -/\ndef twoLocationParts : List FPart := [%s]\n" % ", ".join(two)
    text += "/-- `printFileAndLineForFailure` -/\ndef oneLocationParts : List FPart := [%s]\n" % ", ".join(one)
    text += "/-- `TestFailure::isOutsideTestFile` -/\ndef isOutsideTestFile (testFile file : String) : Bool := %s\n" % outside_text
    text += "/-- `TestFailure::isInHelperFunction` -/\ndef isInHelperFunction (testLine line : Nat) : Bool := %s\n" % helper_text
    text += ("/-- the layout condition of `TestOutput::printFailure` -/\ndef twoLocationLayout (outside helper : Bool) : Bool := %s\n" % layout)
    text += ("/-- `printErrorInFileOnLineFormattedForWorkingEnvironment`: is the Visual Studio form printed? -/\n"
             "def usesVisualStudioForm (isVisualStudio : Bool) : Bool := %s\n" % use_vs)
    text += ("/-- `PlatformSpecificGetWorkingEnvironment` (Gcc) answers visualStudio? -/\ndef detectedIsVisualStudio : Bool := %s\n\n"
             % ("true" if detected_vs else "false"))
    text += "/-- `ConsoleTestOutput::printBuffer` -/\ndef consolePrintBufferCode : List IoOp := [%s]\n" % ", ".join(print_buffer)
    text += "/-- `ConsoleTestOutput::flush` -/\ndef consoleFlushCode : List IoOp := [%s]\n\n" % ", ".join(console_flush)
    text += "/-- `CompositeTestOutput`: the receivers of every forwarded callback, in call order -/\n"
    text += "def compositeReceivers : List (String × List Receiver) := [\n  %s]\n" % ",\n  ".join(
        '("%s", [%s])' % (n, ", ".join(r)) for n, r in comp)
    text += ("\n/-- `CommandLineTestRunner::initializeTestRun`: the statements that write the process-wide static\n"
             "    `UtestShell::rethrowExceptions_` (initially false), in order -/\n"
             "def initializeTestRunRethrowCode : List RethrowInit := [%s]\n" % ", ".join("⟨%s, %s⟩" % gv for gv in rethrow_init))
    text += "end Gen.Runner\n"
    return text


def run():
    text = extract()
    core.write_if_changed(os.path.join(core.LEAN, "CppUModel", "Gen", "RunnerCode.lean"), text)
    return []


if __name__ == "__main__":
    print(extract())
