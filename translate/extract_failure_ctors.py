"""Regenerates lean/CppUModel/Gen/FailureCtors.lean (C16, C20) from src/CppUTest/TestFailure.cpp:
the member-initialiser lists of the three public TestFailure constructors (which field of a fresh
failure comes from which source: the shell's formatted name / name / file / line, a constructor
argument, a literal).  Shape-checked as well (TranslateError otherwise): the copy constructor copies
every field from the same field (JUnit stores a copy), every getter returns its own field,
isOutsideTestFile / isInHelperFunction compare the fields they are documented to compare, and
FailFailure is "constructor with location, then message_ = message"."""
import os, re
from .common import *
from .extract_escapes import squeeze, c_unescape, STR_LIT

SRC = "src/CppUTest/TestFailure.cpp"

FIELDS = ["testName_", "testNameOnly_", "fileName_", "lineNumber_", "testFileName_", "testLineNumber_", "message_"]
NAT_FIELDS = {"lineNumber_", "testLineNumber_"}
LEAN_FIELD = {"testName_": "testName", "testNameOnly_": "testNameOnly", "fileName_": "fileName", "lineNumber_": "lineNumber",
              "testFileName_": "testFileName", "testLineNumber_": "testLineNumber", "message_": "message"}
SHELL = {"getFormattedName": ("shellFormattedName", "bytes"), "getName": ("shellName", "bytes"),
         "getFile": ("shellFile", "bytes"), "getLineNumber": ("shellLine", "nat")}

CTORS = [
    # lean name, squeezed parameter list pattern (groups: names of the parameters)
    ("withLocationAndMessage", r"UtestShell\*(\w+),constchar\*(\w+),size_t(\w+),constSimpleString&(\w+)", ("shell", "file", "line", "msg")),
    ("withMessage", r"UtestShell\*(\w+),constSimpleString&(\w+)", ("shell", "msg")),
    ("withLocation", r"UtestShell\*(\w+),constchar\*(\w+),size_t(\w+)", ("shell", "file", "line")),
]


def split_inits(text):
    """`a_(x), b_(f(y))` -> [(field, expr)]"""
    out, i = [], 0
    while i < len(text):
        m = re.match(r"(\w+)\(", text[i:])
        if not m:
            raise TranslateError("TestFailure constructor: cannot read initialiser list near: " + text[i:i + 40])
        j, depth, instr = i + m.end(), 1, False
        while j < len(text) and depth:
            ch = text[j]
            if instr:
                if ch == "\\":
                    j += 1
                elif ch == '"':
                    instr = False
            elif ch == '"':
                instr = True
            elif ch == "(":
                depth += 1
            elif ch == ")":
                depth -= 1
            j += 1
        out.append((m.group(1), text[i + m.end():j - 1]))
        if j < len(text):
            if text[j] != ",":
                raise TranslateError("TestFailure constructor: ',' expected in initialiser list near: " + text[j:j + 20])
            j += 1
        i = j
    return out


def source_of(expr, params):
    """-> (lean term, 'bytes'|'nat')"""
    m = re.fullmatch(r"(\w+)->(\w+)\(\)", expr)
    if m and params.get(m.group(1)) == "shell" and m.group(2) in SHELL:
        return SHELL[m.group(2)]
    if expr in params:
        kind = params[expr]
        if kind == "file":
            return ("argFile", "bytes")
        if kind == "line":
            return ("argLine", "nat")
        if kind == "msg":
            return ("argMessage", "bytes")
    m = re.fullmatch(STR_LIT, expr)
    if m:
        return ("(text [%s])" % ", ".join(str(b) for b in c_unescape(m.group(1))), "bytes")
    raise TranslateError("TestFailure constructor: initialiser expression not understood: " + expr)


def extract():
    src = squeeze(strip_comments(read(SRC)))
    ctors = {}
    for m in re.finditer(r"TestFailure::TestFailure\(([^()]*)\):((?:\"(?:\\.|[^\"\\])*\"|[^{\"])*)\{\}", src):
        plist, inits = m.group(1), m.group(2)
        if re.fullmatch(r"constTestFailure&(\w+)", plist):
            f = re.fullmatch(r"constTestFailure&(\w+)", plist).group(1)
            got = split_inits(inits)
            want = [(x, "%s.%s" % (f, x)) for x in FIELDS]
            if sorted(got) != sorted(want):
                raise TranslateError("TestFailure copy constructor does not copy every field from the same field: %r" % (got,))
            ctors["copy"] = True
            continue
        for name, pat, kinds in CTORS:
            pm = re.fullmatch(pat, plist)
            if pm:
                params = dict(zip(pm.groups(), kinds))
                got = split_inits(inits)
                if sorted(x for x, _ in got) != sorted(FIELDS):
                    raise TranslateError("TestFailure constructor %s does not initialise exactly the seven fields: %r" % (name, got))
                entry = {}
                for field, expr in got:
                    term, ty = source_of(expr, params)
                    if (ty == "nat") != (field in NAT_FIELDS):
                        raise TranslateError("TestFailure constructor %s: %s initialised from a source of another type: %s" % (name, field, expr))
                    entry[field] = term
                ctors[name] = entry
                break
        else:
            raise TranslateError("unknown TestFailure constructor signature: " + plist)
    missing = [n for n in ["copy"] + [c[0] for c in CTORS] if n not in ctors]
    if missing:
        raise TranslateError("TestFailure constructors not found (or their bodies are no longer empty): %s" % ", ".join(missing))
    # getters and the two location predicates
    for getter, field in (("getFileName", "fileName_"), ("getTestFileName", "testFileName_"), ("getTestName", "testName_"),
                          ("getTestNameOnly", "testNameOnly_"), ("getFailureLineNumber", "lineNumber_"),
                          ("getTestLineNumber", "testLineNumber_"), ("getMessage", "message_")):
        if not re.search(r"TestFailure::%s\(\)const\{return%s;\}" % (getter, field), src):
            raise TranslateError("TestFailure::%s no longer returns %s" % (getter, field))
    if not re.search(r"boolTestFailure::isOutsideTestFile\(\)const\{returntestFileName_!=fileName_;\}", src):
        raise TranslateError("TestFailure::isOutsideTestFile is no longer `testFileName_ != fileName_`")
    if not re.search(r"boolTestFailure::isInHelperFunction\(\)const\{returnlineNumber_<testLineNumber_;\}", src):
        raise TranslateError("TestFailure::isInHelperFunction is no longer `lineNumber_ < testLineNumber_`")
    if not re.search(r"FailFailure::FailFailure\(UtestShell\*test,constchar\*fileName,size_tlineNumber,constSimpleString&message\)"
                     r":TestFailure\(test,fileName,lineNumber\)\{message_=message;\}", src):
        raise TranslateError("FailFailure is no longer `TestFailure(test, fileName, lineNumber)` followed by `message_ = message`")
    t = HEADER % ("translate/extract_failure_ctors.py", SRC)
    t += "namespace Gen.FailureCtors\n"
    t += "/-- where a field of a freshly constructed `TestFailure` comes from -/\n"
    t += "inductive Src\n"
    t += "  | shellFormattedName | shellName | shellFile | shellLine   -- test->getFormattedName() / getName() / getFile() / getLineNumber()\n"
    t += "  | argFile | argLine | argMessage                           -- the constructor's fileName / lineNumber / message parameter\n"
    t += "  | text (s : List UInt8)                                    -- a string literal\n"
    t += "deriving DecidableEq, Repr\n"
    t += "/-- the member-initialiser list of one constructor -/\n"
    t += "structure Ctor where\n"
    t += "  testName : Src\n  testNameOnly : Src\n  fileName : Src\n  lineNumber : Src\n  testFileName : Src\n  testLineNumber : Src\n  message : Src\n"
    t += "deriving DecidableEq, Repr\n"
    t += "open Src\n"
    doc = {"withLocationAndMessage": "TestFailure(UtestShell*, const char* fileName, size_t lineNumber, const SimpleString& theMessage)",
           "withMessage": "TestFailure(UtestShell*, const SimpleString& theMessage)",
           "withLocation": "TestFailure(UtestShell*, const char* fileName, size_t lineNumber)"}
    for name, _, _ in CTORS:
        e = ctors[name]
        t += "/-- `%s` -/\n" % doc[name]
        t += "def %s : Ctor :=\n  { %s }\n" % (name, ", ".join("%s := %s" % (LEAN_FIELD[f], e[f]) for f in FIELDS))
    t += "end Gen.FailureCtors\n"
    return t


def run():
    text = extract()
    core.write_if_changed(os.path.join(core.LEAN, "CppUModel", "Gen", "FailureCtors.lean"), text)
    return []
