"""Regenerates lean/CppUModel/Gen/SeparateProcessConstants.lean from
src/Platforms/Gcc/UtestPlatform.cpp (+ shape checks of Utest.cpp / TestRegistry.cpp wiring).

Extracted: the EINTR retry bound, the if/else-if chain of SetTestFailureByStatusCode (condition,
message, whether the signal number is appended), the messages of the fork / waitpid failures.
Shape checks (TranslateError when the source no longer has the shape the hand-written model
mirrors): the whole parent/child body of GccPlatformSpecificRunTestInASeperateProcess with the
bound and the message texts as the only holes, the two seam implementations, the dispatch in
UtestShell::runOneTest and the registry loop TestRegistry::runAllTests."""
import os, re
from .common import *

PLATFORM = "src/Platforms/Gcc/UtestPlatform.cpp"
UTEST = "src/CppUTest/Utest.cpp"
REGISTRY = "src/CppUTest/TestRegistry.cpp"
RESULT = "src/CppUTest/TestResult.cpp"

_STR = re.compile(r'"(?:\\.|[^"\\])*"')


def normalise(text):
    """comments are already stripped; string literals -> "§k" placeholders, all whitespace removed"""
    lits = []

    def repl(m):
        lits.append(m.group(0)[1:-1])
        return '"§%d"' % (len(lits) - 1)

    t = _STR.sub(repl, text)
    t = re.sub(r"\s+", "", t)
    return t, lits


def c_unescape(s):
    out, i = [], 0
    simple = {"n": "\n", "t": "\t", "\\": "\\", '"': '"', "b": "\b", "r": "\r", "0": "\0", "'": "'"}
    while i < len(s):
        if s[i] == "\\" and i + 1 < len(s):
            if s[i + 1] in simple:
                out.append(simple[s[i + 1]])
                i += 2
                continue
            raise TranslateError("escape sequence not handled in message literal: " + s)
        out.append(s[i])
        i += 1
    return "".join(out)


def lean_str(s):
    out = ['"']
    for ch in s:
        if ch == '"':
            out.append('\\"')
        elif ch == "\\":
            out.append("\\\\")
        elif ch == "\n":
            out.append("\\n")
        elif ch == "\t":
            out.append("\\t")
        elif ord(ch) < 32 or ord(ch) > 126:
            out.append("\\x%02x" % ord(ch)) if ord(ch) < 256 else out.append(ch)
        else:
            out.append(ch)
    out.append('"')
    return "".join(out)


def lean_unstr(t):
    """inverse of lean_str for the escapes it produces"""
    out, i = [], 0
    while i < len(t):
        if t[i] == "\\" and i + 1 < len(t):
            c = t[i + 1]
            if c == "x":
                out.append(chr(int(t[i + 2:i + 4], 16))); i += 4; continue
            out.append({"n": "\n", "t": "\t"}.get(c, c)); i += 2; continue
        out.append(t[i]); i += 1
    return "".join(out)


CONDS = {
    "WIFEXITED(status)&&WEXITSTATUS(status)!=0": "exitedNonZero",
    "WIFSIGNALED(status)": "signaled",
    "WIFSTOPPED(status)": "stopped",
}


def split_chain(norm):
    """norm: `if(C1){B1}elseif(C2){B2}...` -> [(C, B)]; anything else raises"""
    arms, i, first = [], 0, True
    while i < len(norm):
        kw = "if(" if first else "elseif("
        if not norm.startswith(kw, i):
            raise TranslateError("SetTestFailureByStatusCode is not a plain if / else-if chain near: " + norm[i:i + 60])
        i += len(kw)
        depth, j = 1, i
        while j < len(norm) and depth:
            depth += {"(": 1, ")": -1}.get(norm[j], 0)
            j += 1
        cond = norm[i:j - 1]
        if j >= len(norm) or norm[j] != "{":
            raise TranslateError("chain arm without braces after condition " + cond)
        depth, k = 1, j + 1
        while k < len(norm) and depth:
            depth += {"{": 1, "}": -1}.get(norm[k], 0)
            k += 1
        arms.append((cond, norm[j + 1:k - 1]))
        i, first = k, False
    return arms


def extract_chain(src):
    body = function_body(src, r"static\s+void\s+SetTestFailureByStatusCode\s*\(\s*UtestShell\s*\*\s*shell\s*,\s*TestResult\s*\*\s*result\s*,\s*int\s+status\s*\)\s*\{")
    norm, lits = normalise(body)
    chain = []
    for cond, arm in split_chain(norm):
        if cond not in CONDS:
            raise TranslateError("unknown status condition in SetTestFailureByStatusCode: " + cond)
        m = re.fullmatch(r'result->addFailure\(TestFailure\(shell,"§(\d+)"\)\);', arm)
        if m:
            chain.append((CONDS[cond], c_unescape(lits[int(m.group(1))]), False))
            continue
        m = re.fullmatch(r'SimpleStringmessage\("§(\d+)"\);message\+=StringFrom\(WTERMSIG\(status\)\);'
                         r'result->addFailure\(TestFailure\(shell,message\)\);', arm)
        if m:
            chain.append((CONDS[cond], c_unescape(lits[int(m.group(1))]), True))
            continue
        raise TranslateError("arm of SetTestFailureByStatusCode changed shape (%s): %s" % (cond, arm))
    return chain


SEP_FLAG_LINE = 'if(runInSeperateProcess_)test->setRunInSeperateProcess();'
LOOP_HEADER = 'boolgroupStart=true;result.testsStarted();for(UtestShell*test=tests_;test!=NULLPTR;test=test->getNext()){'
RUN_ALL_TESTS_NOFLAG = (
    LOOP_HEADER +
    'if(runIgnored_)test->setRunIgnored();'
    'if(groupStart){result.currentGroupStarted(test);groupStart=false;}'
    'result.countTest();'
    'if(testShouldRun(test,result)){result.currentTestStarted(test);test->runOneTest(firstPlugin_,result);result.currentTestEnded(test);}'
    'if(endOfGroup(test)){groupStart=true;result.currentGroupEnded(test);}'
    '}'
    'result.testsEnded();currentRepetition_++;'
)


def sep_flag_placement(reg):
    """where runAllTests sets the per-test separate-process flag: 'everyTest' when the statement is
    executed for every test before it is run, 'groupStartOnly' when it sits inside `if (groupStart)`"""
    got, _ = normalise(function_body(reg, r"void\s+TestRegistry::runAllTests\s*\(\s*TestResult\s*&\s*result\s*\)\s*\{"))
    if got.count(SEP_FLAG_LINE) != 1:
        raise TranslateError("TestRegistry::runAllTests: expected exactly one `%s`: %s" % (SEP_FLAG_LINE, got))
    pos = got.index(SEP_FLAG_LINE)
    rest = got.replace(SEP_FLAG_LINE, "")
    if rest != RUN_ALL_TESTS_NOFLAG:
        raise TranslateError("TestRegistry::runAllTests changed shape: " + got)
    gs_open = rest.index('if(groupStart){') + len('if(groupStart){')
    gs_close = rest.index('}', gs_open)
    run_block = rest.index('if(testShouldRun(test,result)){')
    if gs_open <= pos <= gs_close:
        return "groupStartOnly"
    if len(LOOP_HEADER) <= pos <= run_block and not (gs_open - len('if(groupStart){') < pos < gs_close + 1):
        return "everyTest"
    raise TranslateError("TestRegistry::runAllTests: the separate-process flag is set at an unexpected place: " + got)


RUN_ONE_TEST = (
    'hasFailed_=false;result.countRun();HelperTestRunInforunInfo(this,plugin,&result);'
    'if(isRunInSeperateProcess())PlatformSpecificSetJmp(helperDoRunOneTestSeperateProcess,&runInfo);'
    'elsePlatformSpecificSetJmp(helperDoRunOneTestInCurrentProcess,&runInfo);'
)

CLI_RUN_ALL = (
    'initializeTestRun();size_tloopCount=0;size_tfailedTestCount=0;size_tfailedExecutionCount=0;'
    'size_trepeatCount=arguments_->getRepeatCount();'
    'if(arguments_->isListingTestGroupNames()){TestResulttr(*output_);registry_->listTestGroupNames(tr);return0;}'
    'if(arguments_->isListingTestGroupAndCaseNames()){TestResulttr(*output_);registry_->listTestGroupAndCaseNames(tr);return0;}'
    'if(arguments_->isListingTestLocations()){TestResulttr(*output_);registry_->listTestLocations(tr);return0;}'
    'if(arguments_->isReversing())registry_->reverseTests();'
    'if(arguments_->isShuffling()){output_->print("§0");output_->print(arguments_->getShuffleSeed());output_->print("§1");}'
    'while(loopCount++<repeatCount){'
    'if(arguments_->isShuffling())registry_->shuffleTests(arguments_->getShuffleSeed());'
    'output_->printTestRun(loopCount,repeatCount);TestResulttr(*output_);registry_->runAllTests(tr);'
    'failedTestCount+=tr.getFailureCount();if(tr.isFailure()){failedExecutionCount++;}'
    '}'
    'return(int)(failedTestCount!=0?failedTestCount:failedExecutionCount);'
)

HELPER_SEPARATE = (
    'HelperTestRunInfo*runInfo=(HelperTestRunInfo*)data;UtestShell*shell=runInfo->shell_;'
    'TestPlugin*plugin=runInfo->plugin_;TestResult*result=runInfo->result_;'
    'PlatformSpecificRunTestInASeperateProcess(shell,plugin,result);'
)


INIT_ACTIONS = {
    ("isVerbose", "output_->verbose(TestOutput::level_verbose)"): "verbose",
    ("isVeryVerbose", "output_->verbose(TestOutput::level_veryVerbose)"): "veryVerbose",
    ("isColor", "output_->color()"): "color",
    ("runTestsInSeperateProcess", "registry_->setRunTestsInSeperateProcess()"): "separateProcess",
    ("isRunIgnored", "registry_->setRunIgnored()"): "runIgnored",
    ("isCrashingOnFail", "UtestShell::setCrashOnFail()"): "crashOnFail",
}
INIT_HEAD = "registry_->setGroupFilters(arguments_->getGroupFilters());registry_->setNameFilters(arguments_->getNameFilters());"
INIT_TAIL = "UtestShell::setRethrowExceptions(arguments_->isRethrowingExceptions());"


def init_statements(cli):
    """CommandLineTestRunner::initializeTestRun as a list of (switch, spelled `else if`)"""
    norm, _ = normalise(function_body(cli, r"void\s+CommandLineTestRunner::initializeTestRun\s*\(\s*\)\s*\{"))
    if not (norm.startswith(INIT_HEAD) and norm.endswith(INIT_TAIL)):
        raise TranslateError("CommandLineTestRunner::initializeTestRun changed shape: " + norm)
    mid = norm[len(INIT_HEAD):len(norm) - len(INIT_TAIL)]
    out, pos = [], 0
    pat = re.compile(r"(else)?if\(arguments_->(\w+)\(\)\)([^;{}]+);")
    while pos < len(mid):
        m = pat.match(mid, pos)
        if not m or (m.group(2), m.group(3)) not in INIT_ACTIONS:
            raise TranslateError("CommandLineTestRunner::initializeTestRun: statement not understood near: " + mid[pos:pos + 80])
        out.append((INIT_ACTIONS[(m.group(2), m.group(3))], bool(m.group(1))))
        pos = m.end()
    if [sw for sw, _ in out].count("separateProcess") != 1:
        raise TranslateError("CommandLineTestRunner::initializeTestRun no longer forwards -p to the registry exactly once: " + norm)
    return out


def ignored_run_call(utest):
    """IgnoredUtestShell::runOneTest: what its run-ignored branch does with the test"""
    got, _ = normalise(function_body(utest, r"void\s+IgnoredUtestShell::runOneTest\s*\(\s*TestPlugin\s*\*\s*plugin\s*,\s*TestResult\s*&\s*result\s*\)\s*\{"))
    m = re.fullmatch(r"if\(runIgnored_\)\{(.*?)return;\}result\.countIgnored\(\);", got)
    if not m:
        raise TranslateError("IgnoredUtestShell::runOneTest changed shape: " + got)
    branch = m.group(1)
    if branch == "UtestShell::runOneTest(plugin,result);":
        return "viaRunOneTest"
    stmts = [x for x in branch.split(";") if x]
    if "runOneTestInCurrentProcess(plugin,result)" in stmts and not any("runOneTest(" in x.replace("runOneTestInCurrentProcess(", "")
                                                                          or "SeperateProcess" in x for x in stmts):
        return "inCurrentProcess"
    raise TranslateError("IgnoredUtestShell::runOneTest: the run-ignored branch is not understood: " + branch)


def expect_body(src, sig, want, what):
    got, _ = normalise(function_body(src, sig))
    if got != want:
        raise TranslateError("%s changed shape: %s" % (what, got))


def extract():
    src = strip_comments(read(PLATFORM))
    chain = extract_chain(src)
    # the fork/wait version is translated from the clang AST (translate/cxx2lean_c11.py); the retry bound and the
    # three messages are read off the regenerated definitions, so both Gen files always describe the same source
    from . import cxx2lean_c11
    loop_text = cxx2lean_c11.generate()
    core.write_if_changed(os.path.join(core.LEAN, "CppUModel", "Gen", "SeparateProcessLoop.lean"), loop_text)
    LS = r'"((?:\\.|[^"\\])*)"'
    m_fork = re.search(r'def forkFailedGen : BodyOut := \.ret \(\[' + LS + r'\]\) 0\n', loop_text)
    m_eintr = re.search(r'\| \.eintr =>\n\s*if \(BitVec\.ult (\d+)#64 amountOfRetries\) then \.ret \(\[' + LS + r'\]\) 0\n'
                        r'\s*else \.fall \(\[\]\) 0 \(amountOfRetries \+ 1#64\) status true\n', loop_text)
    m_err = re.search(r'\| \.error =>\n\s*\.ret \(\[' + LS + r'\]\) 0\n', loop_text)
    if not (m_fork and m_eintr and m_err):
        raise TranslateError("GccPlatformSpecificRunTestInASeperateProcess: the regenerated wait loop no longer has the branches "
                             "the hand model mirrors (fork failure / EINTR with a retry bound / other waitpid error):\n" + loop_text[-1600:])
    bound = int(m_eintr.group(1))
    msg_fork, msg_giveup, msg_wait = (lean_unstr(m_fork.group(1)), lean_unstr(m_eintr.group(2)), lean_unstr(m_err.group(1)))
    # the build variant without fork/waitpid/kill: the function that leaves its plugin parameter unnamed
    nf = function_body(src, r"static\s+void\s+GccPlatformSpecificRunTestInASeperateProcess\s*\(\s*UtestShell\s*\*\s*shell\s*,"
                            r"\s*TestPlugin\s*\*\s*,\s*TestResult\s*\*\s*result\s*\)\s*\{")
    nf_norm, nf_lits = normalise(nf)
    mnf = re.fullmatch(r'result->addFailure\(TestFailure\(shell,"§(\d+)"\)\);', nf_norm)
    if not mnf:
        raise TranslateError("the fork-less GccPlatformSpecificRunTestInASeperateProcess changed shape: " + nf_norm)
    msg_nofork = c_unescape(nf_lits[int(mnf.group(1))])
    guard = "#if !defined(CPPUTEST_HAVE_FORK) || !defined(CPPUTEST_HAVE_WAITPID) || !defined(CPPUTEST_HAVE_KILL)"
    if re.sub(r"\s+", " ", guard) not in re.sub(r"\s+", " ", src):
        raise TranslateError("the #if that selects the fork-less variant changed")
    # seams and wiring
    expect_body(src, r"static\s+pid_t\s+PlatformSpecificForkImplementation\s*\(\s*void\s*\)\s*\{", "returnfork();",
                "PlatformSpecificForkImplementation")
    expect_body(src, r"static\s+pid_t\s+PlatformSpecificWaitPidImplementation\s*\(\s*int\s+pid\s*,\s*int\s*\*\s*status\s*,\s*int\s+options\s*\)\s*\{",
                "returnwaitpid(pid,status,options);", "PlatformSpecificWaitPidImplementation")
    flat, _ = normalise(src)
    for need in ("void(*PlatformSpecificRunTestInASeperateProcess)(UtestShell*shell,TestPlugin*plugin,TestResult*result)=GccPlatformSpecificRunTestInASeperateProcess;",
                 "int(*PlatformSpecificFork)(void)=PlatformSpecificForkImplementation;",
                 "int(*PlatformSpecificWaitPid)(int,int*,int)=PlatformSpecificWaitPidImplementation;"):
        if need not in flat:
            raise TranslateError("seam wiring not found: " + need)
    utest = strip_comments(read(UTEST))
    expect_body(utest, r"void\s+UtestShell::runOneTest\s*\(\s*TestPlugin\s*\*\s*plugin\s*,\s*TestResult\s*&\s*result\s*\)\s*\{",
                RUN_ONE_TEST, "UtestShell::runOneTest")
    expect_body(utest, r"static\s+void\s+helperDoRunOneTestSeperateProcess\s*\(\s*void\s*\*\s*data\s*\)\s*\{",
                HELPER_SEPARATE, "helperDoRunOneTestSeperateProcess")
    expect_body(utest, r"bool\s+UtestShell::isRunInSeperateProcess\s*\(\s*\)\s*const\s*\{", "returnisRunAsSeperateProcess_;",
                "UtestShell::isRunInSeperateProcess")
    expect_body(utest, r"void\s+UtestShell::setRunInSeperateProcess\s*\(\s*\)\s*\{", "isRunAsSeperateProcess_=true;",
                "UtestShell::setRunInSeperateProcess")
    ign_call = ignored_run_call(utest)
    expect_body(utest, r"void\s+IgnoredUtestShell::setRunIgnored\s*\(\s*\)\s*\{", "runIgnored_=true;", "IgnoredUtestShell::setRunIgnored")
    reg = strip_comments(read(REGISTRY))
    placement = sep_flag_placement(reg)
    expect_body(reg, r"void\s+TestRegistry::setRunIgnored\s*\(\s*\)\s*\{", "runIgnored_=true;", "TestRegistry::setRunIgnored")
    expect_body(reg, r"bool\s+TestRegistry::endOfGroup\s*\(\s*UtestShell\s*\*\s*test\s*\)\s*\{",
                "return(!test||!test->getNext()||test->getGroup()!=test->getNext()->getGroup());", "TestRegistry::endOfGroup")
    expect_body(reg, r"void\s+TestRegistry::setRunTestsInSeperateProcess\s*\(\s*\)\s*\{", "runInSeperateProcess_=true;",
                "TestRegistry::setRunTestsInSeperateProcess")
    cli = strip_comments(read("src/CppUTest/CommandLineTestRunner.cpp"))
    init_stmts = init_statements(cli)
    cla = strip_comments(read("src/CppUTest/CommandLineArguments.cpp"))
    cla_norm, cla_lits = normalise(cla)
    mp = re.search(r'elseif\(argument=="§(\d+)"\)runTestsAsSeperateProcess_=true;', cla_norm)
    if not mp or cla_lits[int(mp.group(1))] != "-p":
        raise TranslateError("CommandLineArguments::parse: `-p` no longer sets runTestsAsSeperateProcess_")
    expect_body(cla, r"bool\s+CommandLineArguments::runTestsInSeperateProcess\s*\(\s*\)\s*const\s*\{",
                "returnrunTestsAsSeperateProcess_;", "CommandLineArguments::runTestsInSeperateProcess")
    expect_body(cli, r"int\s+CommandLineTestRunner::runAllTests\s*\(\s*\)\s*\{", CLI_RUN_ALL, "CommandLineTestRunner::runAllTests")
    res = strip_comments(read(RESULT))
    expect_body(res, r"void\s+TestResult::addFailure\s*\(\s*const\s+TestFailure\s*&\s*failure\s*\)\s*\{",
                "output_.printFailure(failure);failureCount_++;", "TestResult::addFailure")
    expect_body(res, r"void\s+TestResult::countRun\s*\(\s*\)\s*\{", "runCount_++;", "TestResult::countRun")

    text = HEADER % ("translate/extract_sepproc.py", PLATFORM)
    text += "import CppUModel.Model.SepProcTypes\n"
    text += "open SepProc\nnamespace Gen.SepProcC\n"
    text += "/-- `if (amountOfRetries > N)` in the EINTR branch of the parent's wait loop -/\n"
    text += "def retryBound : Nat := %d\n" % bound
    text += "/-- the if / else-if chain of `SetTestFailureByStatusCode`, in source order -/\n"
    text += "def statusChain : List ChainEntry := [\n"
    text += ",\n".join("  { cond := .%s, msg := %s, appendsSignal := %s }" % (c, lean_str(msg), "true" if a else "false")
                       for c, msg, a in chain)
    text += "]\n"
    text += "def msgForkFailed : String := %s\n" % lean_str(msg_fork)
    text += "def msgWaitFailed : String := %s\n" % lean_str(msg_wait)
    text += "def msgEintrGiveUp : String := %s\n" % lean_str(msg_giveup)
    text += "/-- the message of the build variant without fork/waitpid/kill -/\n"
    text += "def msgNoFork : String := %s\n" % lean_str(msg_nofork)
    text += "/-- where `TestRegistry::runAllTests` sets the per-test separate-process flag -/\n"
    text += "def sepFlagPlacement : SepFlagPlacement := .%s\n" % placement
    text += "/-- what the run-ignored branch of `IgnoredUtestShell::runOneTest` calls -/\n"
    text += "def ignoredRunCall : IgnoredRunCall := .%s\n" % ign_call
    text += "/-- the `if (arguments_->…) …;` statements of `CommandLineTestRunner::initializeTestRun`, in source order -/\n"
    text += "def initStatements : List InitStmt := [\n"
    text += ",\n".join("  { switch := .%s, isElse := %s }" % (sw, "true" if e else "false") for sw, e in init_stmts)
    text += "]\n"
    text += "end Gen.SepProcC\n"
    return text


def run():
    text = extract()
    core.write_if_changed(os.path.join(core.LEAN, "CppUModel", "Gen", "SeparateProcessConstants.lean"), text)
    return []


if __name__ == "__main__":
    print(extract())
