"""Regenerates lean/CppUModel/Gen/LeakDetectorLoops.lean: the list / table loops of MemoryLeakDetectorList and
MemoryLeakDetectorTable (src/CppUTest/MemoryLeakDetector.cpp) as Lean functions over a bucket `List Node`.

Each loop is matched against its skeleton (local names are free: they are captured and may be renamed); the GUARD of the loop
(`cur->memory_ == memory`, `isInPeriod(cur, period)`, `isInAllocationStage(cur, allocation_stage)`, including the body of
`isInAllocationStage`) is translated expression by expression into the generated function.  A pointer into a chain is read as
the suffix of the list that starts there (`p->next_` = tail, `head_` = the list, NULL = []); that reading is fixed by the
skeleton.  Anything that no longer matches a skeleton raises TranslateError (reported as a broken obligation).
Theorems in Props/C04.lean prove every generated function equal to the hand-written model function for every list."""
import os, re
from .common import *
from .extract_leakdetector import norm, translate_bool, drop_disabled_branches, period_names

SRC = "src/CppUTest/MemoryLeakDetector.cpp"
HDR = "include/CppUTest/MemoryLeakDetector.h"
OUT = "LeakDetectorLoops.lean"

N = r"MemoryLeakDetectorNode\*"


def body_of(src, cls, fn, params):
    return norm(function_body(src, r"%s::%s\s*\(%s\)\s*\{" % (cls, fn, params)))


class Guards:
    def __init__(self, periods):
        self.periods = periods

    def guard(self, text, node_var, extra_atoms):
        """translate a guard over the node variable `node_var` (Lean name `cur`)"""
        calls = {}

        def call_period(m):
            k = "CALLP%d" % len(calls)
            a, b = m.group(1), m.group(2)
            if a != node_var:
                raise TranslateError("isInPeriod is applied to %s, not to the loop's node %s" % (a, node_var))
            if b in extra_atoms:
                pb = extra_atoms[b]
            elif b.startswith("mem_leak_period_") and b[len("mem_leak_period_"):] in self.periods:
                pb = "Gen.LeakDetector.Period." + b[len("mem_leak_period_"):]
            else:
                raise TranslateError("isInPeriod: second argument not understood: " + b)
            calls[k] = "(Gen.LeakDetector.isInPeriod cur.period %s)" % pb
            return k

        def call_stage(m):
            k = "CALLS%d" % len(calls)
            a, b = m.group(1), m.group(2)
            if a != node_var or b not in extra_atoms:
                raise TranslateError("isInAllocationStage arguments not understood: %s, %s" % (a, b))
            calls[k] = "(isInAllocationStage cur %s)" % extra_atoms[b]
            return k

        t = re.sub(r"isInPeriod\((\w+),(\w+)\)", call_period, text)
        t = re.sub(r"isInAllocationStage\((\w+),(\w+)\)", call_stage, t)
        atoms = dict(extra_atoms)
        atoms.update(calls)
        atoms[node_var + "->memory_"] = "cur.addr"
        atoms[node_var + "->allocation_stage_"] = "cur.stage"
        atoms["true"] = "true"; atoms["false"] = "false"
        return translate_bool(t, atoms)


def extract():
    src = drop_disabled_branches(strip_comments(read(SRC)), "CPPUTEST_DISABLE_MEM_CORRUPTION_CHECK")
    hdr = strip_comments(read(HDR))
    G = Guards(period_names(drop_disabled_branches(hdr, "CPPUTEST_DISABLE_MEM_CORRUPTION_CHECK")))
    L = "MemoryLeakDetectorList"
    T = "MemoryLeakDetectorTable"

    def need(m, what, body):
        if not m:
            raise TranslateError("%s changed shape: %s" % (what, body))
        return m

    # isInAllocationStage
    b = body_of(src, L, "isInAllocationStage", r"\s*MemoryLeakDetectorNode\s*\*\s*node\s*,\s*unsigned\s+char\s+allocation_stage\s*")
    m = need(re.fullmatch(r"return(.*);", b), "isInAllocationStage", b)
    in_stage = G.guard(m.group(1), "node", {"allocation_stage": "allocation_stage"})

    # retrieveNode
    b = body_of(src, L, "retrieveNode", r"\s*char\s*\*\s*memory\s*")
    m = need(re.fullmatch(N + r"(\w+)=head_;while\(\1\)\{if\((.*)\)return\1;\1=\1->next_;\}returnNULLPTR;", b), "List::retrieveNode", b)
    g_retrieve = G.guard(m.group(2), m.group(1), {"memory": "memory"})

    # removeNode
    b = body_of(src, L, "removeNode", r"\s*char\s*\*\s*memory\s*")
    m = need(re.fullmatch(N + r"(\w+)=head_;" + N + r"(\w+)=NULLPTR;while\(\1\)\{if\((.*)\)\{if\(\2\)\{\2->next_=\1->next_;return\1;\}"
                          r"else\{head_=\1->next_;return\1;\}\}\2=\1;\1=\1->next_;\}returnNULLPTR;", b), "List::removeNode", b)
    g_remove = G.guard(m.group(3), m.group(1), {"memory": "memory"})

    # clearAllAccounting
    b = body_of(src, L, "clearAllAccounting", r"\s*MemLeakPeriod\s+period\s*")
    m = need(re.fullmatch(N + r"(\w+)=head_;" + N + r"(\w+)=NULLPTR;while\(\1\)\{if\((.*)\)\{if\(\2\)\{\2->next_=\1->next_;\1=\2;\}"
                          r"else\{head_=\1->next_;\1=head_;continue;\}\}\2=\1;\1=\1->next_;\}", b), "List::clearAllAccounting", b)
    g_clear = G.guard(m.group(3), m.group(1), {"period": "period"})

    # addNewNode
    b = body_of(src, L, "addNewNode", r"\s*MemoryLeakDetectorNode\s*\*\s*node\s*")
    need(b == "node->next_=head_;head_=node;", "List::addNewNode", b)

    # getLeakFrom / getLeakForAllocationStageFrom
    b = body_of(src, L, "getLeakFrom", r"\s*MemoryLeakDetectorNode\s*\*\s*node\s*,\s*MemLeakPeriod\s+period\s*")
    m = need(re.fullmatch(r"for\(" + N + r"(\w+)=node;\1;\1=\1->next_\)if\((.*)\)return\1;returnNULLPTR;", b), "List::getLeakFrom", b)
    g_from = G.guard(m.group(2), m.group(1), {"period": "period"})
    b = body_of(src, L, "getLeakForAllocationStageFrom", r"\s*MemoryLeakDetectorNode\s*\*\s*node\s*,\s*unsigned\s+char\s+allocation_stage\s*")
    m = need(re.fullmatch(r"for\(" + N + r"(\w+)=node;\1;\1=\1->next_\)if\((.*)\)return\1;returnNULLPTR;", b), "List::getLeakForAllocationStageFrom", b)
    g_stage_from = G.guard(m.group(2), m.group(1), {"allocation_stage": "allocation_stage"})

    # first / next in a list: start at head_ / at node->next_
    for fn, params, want in (
            ("getFirstLeak", r"\s*MemLeakPeriod\s+period\s*", "returngetLeakFrom(head_,period);"),
            ("getFirstLeakForAllocationStage", r"\s*unsigned\s+char\s+allocation_stage\s*", "returngetLeakForAllocationStageFrom(head_,allocation_stage);"),
            ("getNextLeak", r"\s*MemoryLeakDetectorNode\s*\*\s*node\s*,\s*MemLeakPeriod\s+period\s*", "returngetLeakFrom(node->next_,period);"),
            ("getNextLeakForAllocationStage", r"\s*MemoryLeakDetectorNode\s*\*\s*node\s*,\s*unsigned\s+char\s+allocation_stage\s*",
             "returngetLeakForAllocationStageFrom(node->next_,allocation_stage);")):
        b = body_of(src, L, fn, params)
        need(b == want, "List::" + fn, b)

    # getTotalLeaks
    b = body_of(src, L, "getTotalLeaks", r"\s*MemLeakPeriod\s+period\s*")
    m = need(re.fullmatch(r"size_t(\w+)=(\d+);for\(" + N + r"(\w+)=head_;\3;\3=\3->next_\)\{if\((.*)\)\1\+\+;\}return\1;", b), "List::getTotalLeaks", b)
    total_init = int(m.group(2))
    g_total = G.guard(m.group(4), m.group(3), {"period": "period"})

    # table level: bounds of the bucket loops, which bucket an address goes to
    for fn, params, want in (
            ("clearAllAccounting", r"\s*MemLeakPeriod\s+period\s*", r"for\(int(\w+)=0;\1<hash_prime;\1\+\+\)table_\[\1\]\.clearAllAccounting\(period\);"),
            ("addNewNode", r"\s*MemoryLeakDetectorNode\s*\*\s*node\s*", r"table_\[hash\(node->memory_\)\]\.addNewNode\(node\);"),
            ("removeNode", r"\s*char\s*\*\s*memory\s*", r"returntable_\[hash\(memory\)\]\.removeNode\(memory\);"),
            ("retrieveNode", r"\s*char\s*\*\s*memory\s*", r"returntable_\[hash\(memory\)\]\.retrieveNode\(memory\);"),
            ("getTotalLeaks", r"\s*MemLeakPeriod\s+period\s*", r"size_t(\w+)=0;for\(int(\w+)=0;\2<hash_prime;\2\+\+\)\1\+=table_\[\2\]\.getTotalLeaks\(period\);return\1;"),
            ("getFirstLeak", r"\s*MemLeakPeriod\s+period\s*",
             r"for\(int(\w+)=0;\1<hash_prime;\1\+\+\)\{" + N + r"(\w+)=table_\[\1\]\.getFirstLeak\(period\);if\(\2\)return\2;\}returnNULLPTR;"),
            ("getFirstLeakForAllocationStage", r"\s*unsigned\s+char\s+allocation_stage\s*",
             r"for\(int(\w+)=0;\1<hash_prime;\1\+\+\)\{" + N + r"(\w+)=table_\[\1\]\.getFirstLeakForAllocationStage\(allocation_stage\);if\(\2\)return\2;\}returnNULLPTR;"),
            ("getNextLeak", r"\s*MemoryLeakDetectorNode\s*\*\s*leak\s*,\s*MemLeakPeriod\s+period\s*",
             r"unsignedlong(\w+)=hash\(leak->memory_\);" + N + r"(\w+)=table_\[\1\]\.getNextLeak\(leak,period\);if\(\2\)return\2;"
             r"for\(\+\+\1;\1<hash_prime;\1\+\+\)\{\2=table_\[\1\]\.getFirstLeak\(period\);if\(\2\)return\2;\}returnNULLPTR;"),
            ("getNextLeakForAllocationStage", r"\s*MemoryLeakDetectorNode\s*\*\s*leak\s*,\s*unsigned\s+char\s+allocation_stage\s*",
             r"unsignedlong(\w+)=hash\(leak->memory_\);" + N + r"(\w+)=table_\[\1\]\.getNextLeakForAllocationStage\(leak,allocation_stage\);if\(\2\)return\2;"
             r"for\(\+\+\1;\1<hash_prime;\1\+\+\)\{\2=table_\[\1\]\.getFirstLeakForAllocationStage\(allocation_stage\);if\(\2\)return\2;\}returnNULLPTR;")):
        b = body_of(src, T, fn, params)
        need(re.fullmatch(want, b), "Table::" + fn, b)

    t = HEADER % ("translate/extract_leakloops.py", ", ".join([SRC, HDR]))
    t += "import CppUModel.Model.LeakDetector\n"
    t += "/-! The loops of `MemoryLeakDetectorList` with their guards as the source has them; a chain pointer is the list suffix that\n"
    t += "starts there.  Proved equal to the hand-written `Bucket.*` functions in `Props/C04.lean`. -/\n"
    t += "namespace Gen.LeakLoops\nopen _root_.LeakDetector\nopen _root_.Gen.LeakDetector (Period)\n\n"
    t += "/-- `isInAllocationStage(node, allocation_stage)` -/\ndef isInAllocationStage (cur : Node) (allocation_stage : BitVec 8) : Bool :=\n  %s\n\n" % in_stage
    t += "/-- `retrieveNode`: `while (cur) { if (GUARD) return cur; cur = cur->next_; } return NULLPTR;` -/\n"
    t += "def retrieveNode : List Node → Nat → Option Node\n  | [], _ => none\n  | cur :: rest, memory => if %s then some cur else retrieveNode rest memory\n\n" % g_retrieve
    t += "/-- `removeNode`: the node returned and the chain left behind (`prev->next_ = cur->next_` / `head_ = cur->next_`) -/\n"
    t += "def removeNode : List Node → Nat → Option Node × List Node\n  | [], _ => (none, [])\n"
    t += "  | cur :: rest, memory => if %s then (some cur, rest) else ((removeNode rest memory).1, cur :: (removeNode rest memory).2)\n\n" % g_remove
    t += "/-- `clearAllAccounting(period)`: every node whose GUARD holds is unlinked -/\n"
    t += "def clearAllAccounting (period : Period) : List Node → List Node\n  | [] => []\n"
    t += "  | cur :: rest => if %s then clearAllAccounting period rest else cur :: clearAllAccounting period rest\n\n" % g_clear
    t += "/-- `getLeakFrom(node, period)` -/\ndef getLeakFrom (period : Period) : List Node → Option Node\n  | [] => none\n"
    t += "  | cur :: rest => if %s then some cur else getLeakFrom period rest\n\n" % g_from
    t += "/-- `getLeakForAllocationStageFrom(node, allocation_stage)` -/\ndef getLeakForAllocationStageFrom (allocation_stage : BitVec 8) : List Node → Option Node\n  | [] => none\n"
    t += "  | cur :: rest => if %s then some cur else getLeakForAllocationStageFrom allocation_stage rest\n\n" % g_stage_from
    t += "/-- `getTotalLeaks(period)`: `total_leaks = %d; for (…) { if (GUARD) total_leaks++; }` -/\n" % total_init
    t += "def getTotalLeaksFrom (period : Period) (total_leaks : Nat) : List Node → Nat\n  | [] => total_leaks\n"
    t += "  | cur :: rest => getTotalLeaksFrom period (if %s then total_leaks + 1 else total_leaks) rest\n\n" % g_total
    t += "def getTotalLeaks (period : Period) (l : List Node) : Nat := getTotalLeaksFrom period %d l\n\n" % total_init
    t += "/-- the bucket loops of the table start at bucket 0 and stop at `hash_prime`; `getNextLeak…` continues at `++i` -/\n"
    t += "def tableLoopStart : Nat := 0\ndef nextLeakBucketOffset : Nat := 1\n\nend Gen.LeakLoops\n"
    return t


def run():
    core.write_if_changed(os.path.join(core.LEAN, "CppUModel", "Gen", OUT), extract())
    return []
