"""Regenerates lean/CppUModel/Gen/CacheCode.lean from src/CppUTest/SimpleStringInternalCache.cpp (property C18).

The list-manipulating member functions of SimpleStringInternalCache are parsed (tokens -> C++ statement /
expression tree -> lowering) into the small pointer-level statement language of
lean/CppUModel/Model/CacheSyntax.lean, which lean/CppUModel/Model/CacheHeap.lean interprets over a heap of
`SimpleStringMemoryBlock` cells and the array of cache nodes:

  entry points (one Lean `Stmt` each, callees inlined with parameter binding):
      alloc, dealloc, clearCache, clearAllIncludingCurrentlyUsedMemory, getIndexForCache
  inlined callees: isCached, getCacheNodeFromSize, hasFreeBlocksOfSize (pure: substituted as expressions),
      reserveCachedBlockFrom, allocateNewCacheBlockFrom, createSimpleStringMemoryBlock,
      destroySimpleStringMemoryBlock, destroySimpleStringMemoryBlockList, addToSimpleStringMemoryBlockList,
      releaseCachedBlockFrom, releaseNonCachedMemory, printDeallocatingUnknownMemory.

Locals are renamed canonically (v0, v1, ... in order of first binding inside an entry point), so renaming a
local or a parameter in the C++ source does not change the output.  Anything outside the understood subset
raises TranslateError (reported like a broken obligation).
"""
import os, re
from .common import *

SRC = "src/CppUTest/SimpleStringInternalCache.cpp"
HDR = "include/CppUTest/SimpleStringInternalCache.h"
CLS = "SimpleStringInternalCache"

TOK = re.compile(r'\s*(?:("(?:\\.|[^"\\])*")|([A-Za-z_][A-Za-z_0-9]*(?:::~?[A-Za-z_][A-Za-z_0-9]*)*)|(\d+)|(->|\+\+|&&|\|\||==|!=|<=|>=|[-+*/%&|!<>=(){}\[\];,.?:]))')


def tokenize(text):
    toks, i = [], 0
    text = text.rstrip()
    while i < len(text):
        m = TOK.match(text, i)
        if not m:
            raise TranslateError("cannot tokenise at: %r" % text[i:i + 40])
        if m.group(1) is not None:
            toks.append(("str", m.group(1)))
        elif m.group(2) is not None:
            toks.append(("id", m.group(2)))
        elif m.group(3) is not None:
            toks.append(("num", m.group(3)))
        else:
            toks.append(("op", m.group(4)))
        i = m.end()
    return toks


TYPE_WORDS = {"SimpleStringMemoryBlock", "SimpleStringInternalCacheNode", "size_t", "char", "void", "int", "bool", "const", "unsigned"}


class Parser:
    """statements and expressions of the subset used by SimpleStringInternalCache.cpp"""

    def __init__(self, toks):
        self.t, self.i = toks, 0

    def peek(self, k=0):
        return self.t[self.i + k] if self.i + k < len(self.t) else ("eof", "")

    def at(self, val, k=0):
        return self.peek(k)[1] == val and self.peek(k)[0] in ("op", "id")

    def eat(self, val=None):
        tok = self.peek()
        if tok[0] == "eof" or (val is not None and tok[1] != val):
            raise TranslateError("expected %r, found %r (token %d)" % (val, tok[1], self.i))
        self.i += 1
        return tok

    # ---- statements
    def block_items(self):
        out = []
        while not self.at("}") and self.peek()[0] != "eof":
            out.append(self.stmt())
        return ("block", out)

    def is_decl(self):
        # Type [*] name =
        if self.peek()[0] != "id" or self.peek()[1] not in TYPE_WORDS:
            return False
        k = 1
        while self.peek(k)[0] == "id" and self.peek(k)[1] in TYPE_WORDS:
            k += 1
        while self.at("*", k):
            k += 1
        return self.peek(k)[0] == "id" and self.at("=", k + 1)

    def decl(self):
        ty = []
        while self.peek()[0] == "id" and self.peek()[1] in TYPE_WORDS:
            ty.append(self.eat()[1])
        while self.at("*"):
            ty.append(self.eat()[1])
        name = self.eat()[1]
        self.eat("=")
        e = self.expr()
        return ("decl", " ".join(ty), name, e)

    def stmt(self):
        if self.at("{"):
            self.eat("{")
            b = self.block_items()
            self.eat("}")
            return b
        if self.at("if"):
            self.eat("if"); self.eat("(")
            c = self.expr()
            self.eat(")")
            t = self.stmt()
            f = ("block", [])
            if self.at("else"):
                self.eat("else")
                f = self.stmt()
            return ("if", c, t, f)
        if self.at("while"):
            self.eat("while"); self.eat("(")
            c = self.expr()
            self.eat(")")
            return ("while", c, self.stmt())
        if self.at("for"):
            self.eat("for"); self.eat("(")
            if not self.is_decl():
                raise TranslateError("for loop without a declaration as init")
            init = self.decl()
            self.eat(";")
            c = self.expr()
            self.eat(";")
            step = self.simple()
            self.eat(")")
            body = self.stmt()
            return ("block", [init, ("while", c, ("block", [body, step]))])
        if self.at("return"):
            self.eat("return")
            if self.at(";"):
                self.eat(";")
                return ("return", None)
            e = self.expr()
            self.eat(";")
            return ("return", e)
        if self.is_decl():
            d = self.decl()
            self.eat(";")
            return d
        s = self.simple()
        self.eat(";")
        return s

    def simple(self):
        e = self.expr()
        if self.at("="):
            self.eat("=")
            r = self.expr()
            return ("assign", e, r)
        if self.at("++"):
            self.eat("++")
            return ("assign", e, ("succ", e))
        return ("expr", e)

    # ---- expressions
    def expr(self):
        return self.p_or()

    def p_or(self):
        e = self.p_and()
        while self.at("||"):
            self.eat()
            e = ("or", e, self.p_and())
        return e

    def p_and(self):
        e = self.p_eq()
        while self.at("&&"):
            self.eat()
            e = ("and", e, self.p_eq())
        return e

    def p_eq(self):
        e = self.p_rel()
        while self.at("==") or self.at("!="):
            op = self.eat()[1]
            r = self.p_rel()
            e = ("eq", e, r) if op == "==" else ("not", ("eq", e, r))
        return e

    def p_rel(self):
        e = self.p_mul()
        while self.at("<") or self.at("<="):
            op = self.eat()[1]
            r = self.p_mul()
            e = ("lt" if op == "<" else "le", e, r)
        return e

    def p_mul(self):
        e = self.p_unary()
        while self.at("*"):
            self.eat()
            e = ("mul", e, self.p_unary())
        return e

    def is_cast(self):
        if not self.at("("):
            return False
        k = 1
        if not (self.peek(k)[0] == "id" and self.peek(k)[1] in TYPE_WORDS):
            return False
        while self.peek(k)[0] == "id" and self.peek(k)[1] in TYPE_WORDS:
            k += 1
        while self.at("*", k):
            k += 1
        return self.at(")", k)

    def p_unary(self):
        if self.at("!"):
            self.eat()
            return ("not", self.p_unary())
        if self.at("&"):
            self.eat()
            return ("addr", self.p_unary())
        if self.is_cast():
            self.eat("(")
            ty = []
            while not self.at(")"):
                ty.append(self.eat()[1])
            self.eat(")")
            return ("cast", " ".join(ty), self.p_unary())
        return self.p_postfix()

    def p_postfix(self):
        e = self.p_primary()
        while True:
            if self.at("->"):
                self.eat()
                e = ("arrow", e, self.eat()[1])
            elif self.at("."):
                self.eat()
                e = ("dot", e, self.eat()[1])
            elif self.at("["):
                self.eat()
                i = self.expr()
                self.eat("]")
                e = ("index", e, i)
            elif self.at("("):
                self.eat()
                args = []
                while not self.at(")"):
                    args.append(self.expr())
                    if self.at(","):
                        self.eat()
                self.eat(")")
                e = ("call", e, args)
            else:
                return e

    def p_primary(self):
        k, v = self.peek()
        if k == "num":
            self.eat()
            return ("num", int(v))
        if k == "str":
            parts = []
            while self.peek()[0] == "str":
                parts.append(self.eat()[1])
            return ("str", parts)
        if k == "id":
            self.eat()
            if v == "sizeof":
                self.eat("(")
                ty = []
                while not self.at(")"):
                    ty.append(self.eat()[1])
                self.eat(")")
                return ("sizeof", " ".join(ty))
            return ("id", v)
        if self.at("("):
            self.eat("(")
            e = self.expr()
            self.eat(")")
            return e
        raise TranslateError("unexpected token %r in expression" % (v,))


def parse_function(src, name):
    """-> (param names with types, body tree)"""
    m = re.search(r"%s::%s\s*\(([^)]*)\)\s*\{" % (CLS, re.escape(name)), src)
    if not m:
        raise TranslateError("function not found: %s::%s" % (CLS, name))
    params = []
    for p in [x.strip() for x in m.group(1).split(",") if x.strip()]:
        mm = re.fullmatch(r"(.*?)([A-Za-z_][A-Za-z_0-9]*)", p)
        if not mm:
            raise TranslateError("parameter not understood: " + p)
        params.append((re.sub(r"\s+", "", mm.group(1)), mm.group(2)))
    body = function_body(src, r"%s::%s\s*\([^)]*\)\s*\{" % (CLS, re.escape(name)))
    p = Parser(tokenize(body))
    tree = p.block_items()
    if p.peek()[0] != "eof":
        raise TranslateError("trailing tokens in %s" % name)
    return params, tree


# --------------------------------------------------------------------------- lowering

PURE = ("isCached", "getCacheNodeFromSize", "hasFreeBlocksOfSize")            # bodies: [decl]* return e;
PROCS = ("reserveCachedBlockFrom", "allocateNewCacheBlockFrom", "createSimpleStringMemoryBlock",
         "destroySimpleStringMemoryBlock", "destroySimpleStringMemoryBlockList", "addToSimpleStringMemoryBlockList",
         "releaseCachedBlockFrom", "releaseNonCachedMemory", "printDeallocatingUnknownMemory")
ENTRIES = ("alloc", "dealloc", "clearCache", "clearAllIncludingCurrentlyUsedMemory", "getIndexForCache")


class Lower:
    def __init__(self, funcs, consts):
        self.funcs, self.consts = funcs, consts
        self.names = {}
        self.depth = 0

    # ---- names
    def fresh(self, scope, name):
        key = (scope, name)
        if key not in self.names:
            self.names[key] = "v%d" % len(self.names)
        return self.names[key]

    def tmp(self):
        return self.fresh(("tmp", len(self.names)), "t")

    # ---- expressions (pure).  env: C++ name -> lowered expression string
    def E(self, e, env):
        k = e[0]
        if k == "num":
            return "(.lit %d)" % e[1]
        if k == "sizeof":
            if e[1] not in self.consts["sizeof"]:
                raise TranslateError("sizeof of unknown type " + e[1])
            return "(.lit %d)" % self.consts["sizeof"][e[1]]
        if k == "id":
            v = e[1]
            if v in env:
                return env[v]
            if v in ("NULLPTR", "NULL", "nullptr"):
                return "(.lit 0)"
            if v == "nonCachedAllocations_":
                return ".nonCached"
            if v == "amountOfInternalCacheNodes":
                return "(.lit %d)" % self.consts["amount"]
            raise TranslateError("unknown identifier in expression: " + v)
        if k == "cast":
            return self.E(e[2], env)
        if k == "succ":
            return "(.succ %s)" % self.E(e[1], env)
        if k == "arrow":
            f = e[2]
            if f == "next_":
                return "(.next %s)" % self.E(e[1], env)
            if f == "memory_":
                return "(.memory %s)" % self.E(e[1], env)
            if f in ("freeMemoryHead_", "usedMemoryHead_", "size_"):
                return "(.%s %s)" % ({"freeMemoryHead_": "nfree", "usedMemoryHead_": "nused", "size_": "nsize"}[f], self.N(e[1], env))
            raise TranslateError("unknown field ->" + f)
        if k == "dot":
            f = e[2]
            if f in ("freeMemoryHead_", "usedMemoryHead_", "size_") and e[1][0] == "index":
                return "(.%s %s)" % ({"freeMemoryHead_": "nfree", "usedMemoryHead_": "nused", "size_": "nsize"}[f], self.N(("addr", e[1]), env))
            raise TranslateError("unknown member access ." + f)
        if k == "call":
            fn, args = self.callee(e)
            if fn == "getIndexForCache":
                if len(args) != 1:
                    raise TranslateError("getIndexForCache arity")
                return "(.indexFor %s)" % self.E(args[0], env)
            if fn in PURE:
                return self.pure_inline(fn, args, env, want="E")
            raise TranslateError("call of %s in a pure expression" % fn)
        if k == "addr" or k == "index":
            return self.N(e, env)
        raise TranslateError("expression form not understood: %r" % (e,))

    def N(self, e, env):
        """cache-node valued expression -> index expression"""
        if e[0] == "addr" and e[1][0] == "index" and e[1][1] == ("id", "cache_"):
            return self.E(e[1][2], env)
        if e[0] == "id" and e[1] in env:
            return env[e[1]]
        if e[0] == "call":
            fn, args = self.callee(e)
            if fn == "getCacheNodeFromSize":
                return self.pure_inline(fn, args, env, want="E")
        raise TranslateError("cache node expression not understood: %r" % (e,))

    def callee(self, e):
        f = e[1]
        if f[0] == "id":
            return f[1], e[2]
        if f[0] == "arrow" and f[1] == ("id", "allocator_"):
            return "allocator_->" + f[2], e[2]
        if f[0] == "arrow" and f[2] == "print":
            return "print", e[2]
        raise TranslateError("callee not understood: %r" % (f,))

    def pure_inline(self, fn, args, env, want):
        params, tree = self.funcs[fn]
        if len(params) != len(args):
            raise TranslateError("arity of " + fn)
        env2 = {}
        for (ty, p), a in zip(params, args):
            env2[p] = self.E(a, env)
        items = tree[1]
        for it in items[:-1]:
            if it[0] != "decl":
                raise TranslateError("%s is not of the form [decl]* return e" % fn)
            env2[it[2]] = self.E(it[3], env2)
        last = items[-1]
        if last[0] != "return" or last[1] is None:
            raise TranslateError("%s does not end in return e" % fn)
        return self.B(last[1], env2) if want == "B" else self.E(last[1], env2)

    def is_pointerish(self, e):
        return e[0] in ("id", "arrow", "dot", "cast")

    def B(self, e, env):
        k = e[0]
        if k == "and":
            return "(.and %s %s)" % (self.B(e[1], env), self.B(e[2], env))
        if k == "or":
            raise TranslateError("|| is not in the subset")
        if k == "not":
            inner = e[1]
            # `p != NULLPTR` is the same test as `p` used as a condition
            if inner[0] == "eq" and inner[2] == ("id", "NULLPTR") and self.is_pointerish(inner[1]):
                return "(.nonNull %s)" % self.E(inner[1], env)
            return "(.not %s)" % self.B(e[1], env)
        if k == "eq":
            return "(.eq %s %s)" % (self.E(e[1], env), self.E(e[2], env))
        if k == "le":
            return "(.le %s %s)" % (self.E(e[1], env), self.E(e[2], env))
        if k == "lt":
            return "(.lt %s %s)" % (self.E(e[1], env), self.E(e[2], env))
        if k == "id" and e[1] == "hasWarnedAboutDeallocations":
            return ".warned"
        if k == "call":
            fn, args = self.callee(e)
            if fn in PURE:
                return self.pure_inline(fn, args, env, want="B")
            raise TranslateError("call of %s as a condition" % fn)
        if self.is_pointerish(e):
            return "(.nonNull %s)" % self.E(e, env)
        raise TranslateError("condition not understood: %r" % (e,))

    # ---- statements
    def seq(self, xs):
        xs = [x for x in xs if x != ".skip"]
        if not xs:
            return ".skip"
        out = xs[-1]
        for x in reversed(xs[:-1]):
            out = "(.seq %s %s)" % (x, out)
        return out

    def hoist(self, e, env, scope, pre):
        """replace impure calls inside e by temporaries computed in `pre`; returns a pure tree"""
        k = e[0]
        if k == "call":
            fn, args = self.callee(e)
            if fn in PROCS:
                t = self.tmp()
                pre.append(self.inline_proc(fn, args, env, result=t))
                return ("lowered", "(.var \"%s\")" % t)
            if fn == "allocator_->alloc_memory":
                t = self.tmp()
                pre.append("(.ualloc \"%s\" %s)" % (t, self.E(args[0], env)))
                return ("lowered", "(.var \"%s\")" % t)
            return e
        if k in ("arrow", "dot"):
            return (k, self.hoist(e[1], env, scope, pre), e[2])
        if k == "cast":
            return ("cast", e[1], self.hoist(e[2], env, scope, pre))
        return e

    def inline_proc(self, fn, args, env, result=None):
        self.depth += 1
        if self.depth > 6:
            raise TranslateError("inlining too deep at " + fn)
        params, tree = self.funcs[fn]
        if len(params) != len(args):
            raise TranslateError("arity of " + fn)
        scope = ("inl", fn, len(self.names))
        env2, pre = {}, []
        for (ty, p), a in zip(params, args):
            if "SimpleStringInternalCacheNode" in ty:
                val = self.N(a, env)
            else:
                val = self.E(a, env)
            v = self.fresh(scope, p)
            pre.append("(.set \"%s\" %s)" % (v, val))
            env2[p] = "(.var \"%s\")" % v
        body = self.S(tree, env2, scope, result=result, inlined=True)
        self.depth -= 1
        return self.seq(pre + [body])

    def S(self, s, env, scope, result=None, inlined=False, tail=True):
        """`result`: local that receives the value of `return e` of an inlined callee.  An inlined callee may
        return only in tail position or from inside its body via .ret-free forms: a `return` that is not the
        last statement of an inlined callee is lowered with the rest of the body in the else branch."""
        k = s[0]
        if k == "block":
            return self.block(s[1], env, scope, result, inlined)
        raise TranslateError("statement outside a block: %r" % (s,))

    def block(self, items, env, scope, result, inlined):
        """lowers a statement list; inside an inlined callee, `if (c) { ...; return; }  rest` becomes
        ite c (...) (rest) so that no real return is needed"""
        out = []
        for idx, s in enumerate(items):
            rest = items[idx + 1:]
            k = s[0]
            if k == "lowered_stmt":
                out.append(s[1])
            elif k == "block":
                if inlined and self.contains_return(s):
                    out.append(self.block(s[1] + rest, env, scope, result, inlined))
                    return self.seq(out)
                out.append(self.block(s[1], env, scope, result, inlined))
            elif k == "decl":
                pre = []
                e = self.hoist(s[3], env, scope, pre)
                v = self.fresh(scope, s[2])
                if "SimpleStringInternalCacheNode" in s[1]:
                    val = self.N(e, env)
                else:
                    val = self.low(e, env)
                env[s[2]] = "(.var \"%s\")" % v
                out += pre + ["(.set \"%s\" %s)" % (v, val)]
            elif k == "assign":
                pre = []
                r = self.hoist(s[2], env, scope, pre)
                out += pre + [self.assign(s[1], r, env)]
            elif k == "expr":
                out.append(self.call_stmt(s[1], env))
            elif k == "return":
                if inlined:
                    if s[1] is not None:
                        if result is None:
                            raise TranslateError("value returned by an inlined callee is not used")
                        pre = []
                        e = self.hoist(s[1], env, scope, pre)
                        out += pre + ["(.set \"%s\" %s)" % (result, self.low(e, env))]
                    # everything after a return in the same list is dead
                    return self.seq(out)
                if s[1] is None:
                    out.append(".retVoid")
                else:
                    pre = []
                    e = self.hoist(s[1], env, scope, pre)
                    if self.ret_kind(s[1]) == "bool":
                        raise TranslateError("entry point returning a boolean expression")
                    out += pre + ["(.ret %s)" % self.low(e, env)]
                return self.seq(out)
            elif k == "if":
                c = self.B(s[1], env)
                if inlined and self.ends_in_return(s[2]) and s[3] == ("block", []):
                    t = self.block(self.items_of(s[2]), dict(env), scope, result, inlined)
                    f = self.block(rest, env, scope, result, inlined)
                    out.append("(.ite %s %s %s)" % (c, t, f))
                    return self.seq(out)
                t = self.block(self.items_of(s[2]), dict(env), scope, result, inlined)
                f = self.block(self.items_of(s[3]), dict(env), scope, result, inlined)
                out.append("(.ite %s %s %s)" % (c, t, f))
            elif k == "while":
                if inlined and self.contains_return(s[2]):
                    # a return from inside a loop of an inlined callee: the loop is lowered as a real loop that
                    # sets the `done` flag local and the remainder runs only when the flag is clear
                    flag = self.tmp()
                    body = self.loop_body_with_flag(self.items_of(s[2]), env, scope, flag)
                    c = "(.and (.eq (.var \"%s\") (.lit 0)) %s)" % (flag, self.B(s[1], env))
                    out.append("(.set \"%s\" (.lit 0))" % flag)
                    out.append("(.while %s %s)" % (c, body))
                    f = self.block(rest, env, scope, result, inlined)
                    out.append("(.ite (.eq (.var \"%s\") (.lit 0)) %s .skip)" % (flag, f))
                    return self.seq(out)
                body = self.block(self.items_of(s[2]), dict(env), scope, result, inlined)
                out.append("(.while %s %s)" % (self.B(s[1], env), body))
            else:
                raise TranslateError("statement form not understood: %r" % (k,))
        return self.seq(out)

    def loop_body_with_flag(self, items, env, scope, flag):
        """body of `for (...) { if (c) { ...; return; } } ; step` inside an inlined callee"""
        out = []
        env = dict(env)
        for idx, s in enumerate(items):
            rest = items[idx + 1:]
            if s[0] == "block":
                return self.seq(out + [self.loop_body_with_flag(s[1] + rest, env, scope, flag)])
            if s[0] == "if" and self.ends_in_return(s[2]) and s[3] == ("block", []):
                its = self.items_of(s[2])
                if its[-1] != ("return", None):
                    raise TranslateError("return with a value inside a loop of an inlined callee")
                t = self.block(its[:-1], dict(env), scope, None, True)
                t = self.seq([t, "(.set \"%s\" (.lit 1))" % flag])
                f = self.loop_body_with_flag(rest, env, scope, flag)
                return self.seq(out + ["(.ite %s %s %s)" % (self.B(s[1], env), t, f)])
            if self.contains_return(s):
                raise TranslateError("return in a loop in a position that is not understood")
            out.append(self.block([s], env, scope, None, True))
        return self.seq(out)

    def items_of(self, s):
        return s[1] if s[0] == "block" else [s]

    def ends_in_return(self, s):
        its = self.items_of(s)
        return bool(its) and its[-1][0] == "return"

    def contains_return(self, s):
        if s[0] == "return":
            return True
        if s[0] == "block":
            return any(self.contains_return(x) for x in s[1])
        if s[0] == "if":
            return self.contains_return(s[2]) or self.contains_return(s[3])
        if s[0] == "while":
            return self.contains_return(s[2])
        return False

    def ret_kind(self, e):
        return "bool" if e[0] in ("not", "eq", "le", "lt", "and") else "val"

    def B2E(self, e, env):
        return "(.ofBool %s)" % self.B(e, env)

    def low(self, e, env):
        if e[0] == "lowered":
            return e[1]
        if e[0] in ("arrow", "dot", "cast") and self.has_lowered(e):
            if e[0] == "cast":
                return self.low(e[2], env)
            inner = self.low(e[1], env)
            f = e[2]
            if f == "next_":
                return "(.next %s)" % inner
            if f == "memory_":
                return "(.memory %s)" % inner
            raise TranslateError("field %s of a call result" % f)
        return self.E(e, env)

    def has_lowered(self, e):
        if e[0] == "lowered":
            return True
        if e[0] in ("arrow", "dot"):
            return self.has_lowered(e[1])
        if e[0] == "cast":
            return self.has_lowered(e[2])
        return False

    def assign(self, lhs, r, env):
        k = lhs[0]
        if lhs == ("id", "hasWarnedAboutDeallocations"):
            if r != ("id", "true"):
                raise TranslateError("hasWarnedAboutDeallocations assigned something else than true")
            return ".setWarned"
        val = self.low(r, env)
        if k == "id":
            v = lhs[1]
            if v == "nonCachedAllocations_":
                return "(.setNonCached %s)" % val
            if v == "hasWarnedAboutDeallocations":
                if r != ("id", "true"):
                    raise TranslateError("hasWarnedAboutDeallocations assigned something else than true")
                return ".setWarned"
            if v in env and env[v].startswith("(.var "):
                return "(.set %s %s)" % (env[v][len("(.var "):-1], val)
            raise TranslateError("assignment to unknown variable " + v)
        if k == "arrow":
            f = lhs[2]
            if f == "next_":
                return "(.setNext %s %s)" % (self.E(lhs[1], env), val)
            if f == "memory_":
                return "(.setMemory %s %s)" % (self.E(lhs[1], env), val)
            if f == "freeMemoryHead_":
                return "(.setNfree %s %s)" % (self.N(lhs[1], env), val)
            if f == "usedMemoryHead_":
                return "(.setNused %s %s)" % (self.N(lhs[1], env), val)
        if k == "dot" and lhs[1][0] == "index":
            f = lhs[2]
            if f == "freeMemoryHead_":
                return "(.setNfree %s %s)" % (self.N(("addr", lhs[1]), env), val)
            if f == "usedMemoryHead_":
                return "(.setNused %s %s)" % (self.N(("addr", lhs[1]), env), val)
        raise TranslateError("assignment target not understood: %r" % (lhs,))

    def call_stmt(self, e, env):
        if e[0] != "call":
            raise TranslateError("expression statement that is not a call: %r" % (e,))
        fn, args = self.callee(e)
        if fn == "allocator_->free_memory":
            return "(.ufree %s %s)" % (self.E(args[0], env), self.E(args[1], env))
        if fn == "print":
            return ".print"
        if fn in PROCS:
            return self.inline_proc(fn, args, env, result=None)
        raise TranslateError("call statement of %s not understood" % fn)

    def entry(self, fn):
        self.names = {}
        self.depth = 0
        params, tree = self.funcs[fn]
        env = {}
        for i, (ty, p) in enumerate(params):
            env[p] = "(.var \"p%d\")" % i
        return self.S(tree, env, ("entry", fn), inlined=False)


def strip_file_line(src):
    return re.sub(r",\s*__FILE__\s*,\s*__LINE__", "", src)


def warning_text(src_raw):
    body = function_body(src_raw, r"%s::printDeallocatingUnknownMemory\s*\([^)]*\)\s*\{" % CLS)
    m = re.search(r"StringFromFormat\s*\(((?:\s*\"(?:\\.|[^\"\\])*\")+)\s*,\s*memory\s*\)", body)
    if not m:
        raise TranslateError("warning format string not found")
    parts = re.findall(r'"((?:\\.|[^"\\])*)"', m.group(1))
    return "".join(parts)


def extract():
    raw = read(SRC)
    # string literals survive strip_comments; the print statement's argument is parsed as an expression
    src = strip_file_line(strip_comments(raw))
    hdr = strip_comments(read(HDR))
    m = re.search(r"amountOfInternalCacheNodes\s*=\s*(\d+)", hdr)
    if not m:
        raise TranslateError("amountOfInternalCacheNodes not found")
    consts = {"amount": int(m.group(1)), "sizeof": {}}
    for st in ("SimpleStringMemoryBlock", "SimpleStringInternalCacheNode"):
        n = 0
        for f in struct_fields(src, st):
            if "*" in f or re.match(r"size_t\b", f):
                n += 8
            else:
                raise TranslateError("field of unknown size: " + f)
        consts["sizeof"][st] = n
    funcs = {}
    for fn in set(PURE + PROCS + ENTRIES):
        funcs[fn] = parse_function(src, fn)
    lw = Lower(funcs, consts)
    fmt = warning_text(raw)
    if fmt.count("%s") != 1 or "%" in fmt.replace("%s", ""):
        raise TranslateError("warning format has other conversions than one %s: " + fmt)
    pre, post = fmt.split("%s")
    text = HEADER % ("translate/extract_cache_code.py", SRC)
    text += "import CppUModel.Model.CacheSyntax\n"
    text += "namespace Gen.Cache.Code\nopen Cache.Heap\n"
    lean_names = {"alloc": "allocProg", "dealloc": "deallocProg", "clearCache": "clearCacheProg",
                  "clearAllIncludingCurrentlyUsedMemory": "clearAllProg", "hasFreeBlocksOfSize": "hasFreeProg",
                  "getIndexForCache": "getIndexProg"}
    for fn in ENTRIES:
        params = funcs[fn][0]
        text += "/-- `%s::%s(%s)`; parameters are the locals %s -/\n" % (
            CLS, fn, ", ".join(t + " " + p for t, p in params), ", ".join("p%d" % i for i in range(len(params))) or "(none)")
        text += "def %s : Stmt :=\n  %s\n" % (lean_names[fn], lw.entry(fn))
    text += "/-- the warning text around the `%%s` of the released buffer (C escapes kept as written) -/\n"
    text += "def warningPrefix : String := \"%s\"\n" % pre
    text += "def warningSuffix : String := \"%s\"\n" % post
    text += "end Gen.Cache.Code\n"
    return text


def run():
    text = extract()
    core.write_if_changed(os.path.join(core.LEAN, "CppUModel", "Gen", "CacheCode.lean"), text)
    return []


if __name__ == "__main__":
    print(extract())
