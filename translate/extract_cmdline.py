"""Regenerates lean/CppUModel/Gen/ParseDispatch.lean from src/CppUTest/CommandLineArguments.cpp.

* `table`: the `if / else if` chain of `CommandLineArguments::parse` in source order, one entry per
  literal: (literal bytes, exact (`argument == "x"`) vs prefix (`argument.startsWith("x")`), the
  branch's statement text with white space removed).  Props/C12.lean proves it equal to the table
  the model's `dispatch` runs on.
* `filterFns`: for each of the eight `add…Filter` functions the option name it passes to
  `getParameterField`, the list it prepends to, and the `strictMatching()/invertMatching()` calls.
* shape checks (raise TranslateError = "cannot translate", handled like a broken obligation): the loop
  frame of `parse`, the form of every condition, and the normalised text of the loop-free helper
  functions the model was written against (`getParameterField`, `setRepeatCount`, `setShuffle`,
  `addGroupDotNameFilter`, `addTestToRunBasedOnVerboseOutput`, `setOutputType`, `setPackageName`) and
  of the runner functions that apply the configuration.
"""
import os, re
from .common import *

SRC = "src/CppUTest/CommandLineArguments.cpp"
RUNNER = "src/CppUTest/CommandLineTestRunner.cpp"


def squeeze(text):
    """remove white space outside string/char literals"""
    out, i, n = [], 0, len(text)
    while i < n:
        ch = text[i]
        if ch in "\"'":
            j = i + 1
            while j < n and text[j] != ch:
                j += 2 if text[j] == "\\" else 1
            out.append(text[i:j + 1])
            i = j + 1
        elif ch.isspace():
            # keep one blank between two identifier characters (`int i`, `else if`)
            j = i
            while j < n and text[j].isspace():
                j += 1
            if out and j < n and (out[-1][-1].isalnum() or out[-1][-1] == "_") and (text[j].isalnum() or text[j] == "_"):
                out.append(" ")
            i = j
        else:
            out.append(ch)
            i += 1
    return "".join(out)


class Scanner:
    def __init__(self, text):
        self.t, self.i = text, 0

    def ws(self):
        while self.i < len(self.t) and self.t[self.i].isspace():
            self.i += 1

    def word(self, w):
        self.ws()
        if self.t.startswith(w, self.i) and not (self.t[self.i + len(w):self.i + len(w) + 1].isalnum()):
            self.i += len(w)
            return True
        return False

    def balanced(self, open_, close):
        self.ws()
        if self.t[self.i:self.i + 1] != open_:
            raise TranslateError("expected `%s` at: %s" % (open_, self.t[self.i:self.i + 40]))
        depth, j = 0, self.i
        while j < len(self.t):
            ch = self.t[j]
            if ch in "\"'":
                j += 1
                while j < len(self.t) and self.t[j] != ch:
                    j += 2 if self.t[j] == "\\" else 1
            elif ch == open_:
                depth += 1
            elif ch == close:
                depth -= 1
                if depth == 0:
                    inner = self.t[self.i + 1:j]
                    self.i = j + 1
                    return inner
            j += 1
        raise TranslateError("unbalanced `%s`" % open_)

    def statement(self):
        self.ws()
        if self.t[self.i:self.i + 1] == "{":
            return self.balanced("{", "}")
        j = self.i
        while j < len(self.t):
            ch = self.t[j]
            if ch in "\"'":
                j += 1
                while j < len(self.t) and self.t[j] != ch:
                    j += 2 if self.t[j] == "\\" else 1
            elif ch == ";":
                s = self.t[self.i:j + 1]
                self.i = j + 1
                return s
            j += 1
        raise TranslateError("statement without `;`")


def c_string(lit):
    """bytes of a C string literal body without escapes other than \\\\ and \\\" """
    if re.search(r"\\[^\\\"]", lit):
        raise TranslateError("escape sequence in option literal: " + lit)
    return lit.replace('\\"', '"').replace("\\\\", "\\").encode("latin-1")


def conditions(cond):
    c = squeeze(cond)
    m = re.fullmatch(r'argument=="([^"]*)"', c)
    if m:
        return [(m.group(1), True)]
    m = re.fullmatch(r'argument\.startsWith\("([^"]*)"\)', c)
    if m:
        return [(m.group(1), False)]
    parts = c.split("||")
    if len(parts) >= 2:
        out = []
        for p in parts:
            m = re.fullmatch(r'\(argument=="([^"]*)"\)', p)
            if not m:
                raise TranslateError("condition of unknown form in parse(): " + c)
            out.append((m.group(1), True))
        return out
    raise TranslateError("condition of unknown form in parse(): " + c)


def parse_chain(src):
    body = function_body(src, r"bool\s+CommandLineArguments::parse\s*\(\s*TestPlugin\s*\*\s*plugin\s*\)\s*\{")
    sc = Scanner(body)
    sc.ws()
    m = re.match(r"bool\s+correctParameters\s*=\s*true\s*;\s*for\s*", body[sc.i:])
    if not m:
        raise TranslateError("parse(): does not start with `bool correctParameters = true; for`")
    sc.i += m.end()
    head = squeeze(sc.balanced("(", ")"))
    if head != "int i=1;i<ac_;i++":
        raise TranslateError("parse(): loop header changed: " + head)
    loop = sc.balanced("{", "}")
    if squeeze(body[sc.i:]) != "return true;":
        raise TranslateError("parse(): text after the loop changed: " + squeeze(body[sc.i:]))
    ls = Scanner(loop)
    first = ls.statement()
    if squeeze(first) != "SimpleString argument=av_[i];":
        raise TranslateError("parse(): first statement of the loop changed: " + squeeze(first))
    entries = []
    if not ls.word("if"):
        raise TranslateError("parse(): the loop body is not an if-chain")
    while True:
        cond = ls.balanced("(", ")")
        stmt = squeeze(ls.statement())
        for lit, exact in conditions(cond):
            entries.append((lit, exact, stmt))
        if not ls.word("else"):
            raise TranslateError("parse(): chain ends without a final else")
        if ls.word("if"):
            continue
        final = squeeze(ls.statement())
        break
    tail = squeeze(loop[ls.i:])
    if tail != "if(correctParameters==false){return false;}":
        raise TranslateError("parse(): the rejection test after the chain changed: " + tail)
    return entries, final


FILTER_FNS = ["addGroupFilter", "addStrictGroupFilter", "addExcludeGroupFilter", "addExcludeStrictGroupFilter",
              "addNameFilter", "addStrictNameFilter", "addExcludeNameFilter", "addExcludeStrictNameFilter"]


def filter_fn(src, name):
    body = squeeze(function_body(src, r"void\s+CommandLineArguments::%s\s*\([^)]*\)\s*\{" % name))
    m = re.match(r'TestFilter\*(\w+)=new TestFilter\(getParameterField\(ac,av,(\w+),"([^"]*)"\)\);', body)
    if not m:
        raise TranslateError("%s: first statement changed: %s" % (name, body))
    var, idx, lit = m.group(1), m.group(2), m.group(3)
    sig = re.search(r"void\s+CommandLineArguments::%s\s*\(([^)]*)\)" % name, src).group(1)
    if not re.search(r"int\s*&\s*%s\b" % idx, sig):
        raise TranslateError("%s: the index is not passed by reference" % name)
    rest = body[m.end():]
    strict = invert = False
    while True:
        if rest.startswith(var + "->strictMatching();"):
            strict, rest = True, rest[len(var + "->strictMatching();"):]
        elif rest.startswith(var + "->invertMatching();"):
            invert, rest = True, rest[len(var + "->invertMatching();"):]
        else:
            break
    m = re.fullmatch(r"(groupFilters_|nameFilters_)=%s->add\((groupFilters_|nameFilters_)\);" % var, rest)
    if not m or m.group(1) != m.group(2):
        raise TranslateError("%s: the filter is not prepended to one list: %s" % (name, rest))
    return (name, lit, m.group(1) == "groupFilters_", strict, invert)


# normalised text of the functions the model was written against (white space and comments removed)
PINNED = {
    SRC: {
    },
    "src/CppUTest/TestFilter.cpp": {
        r"TestFilter::TestFilter\s*\(\s*const\s+SimpleString\s*&\s*filter\s*\)\s*:\s*strictMatching_\(false\)\s*,\s*invertMatching_\(false\)\s*,\s*next_\(NULLPTR\)\s*\{":
            'filter_=filter;',
        r"TestFilter\s*\*\s*TestFilter::add\s*\([^)]*\)\s*\{": 'next_=filter;return this;',
        r"void\s+TestFilter::strictMatching\s*\(\s*\)\s*\{": 'strictMatching_=true;',
        r"void\s+TestFilter::invertMatching\s*\(\s*\)\s*\{": 'invertMatching_=true;',
        r"TestFilter\s*\*\s*TestFilter::getNext\s*\(\s*\)\s*const\s*\{": 'return next_;',
    },
    "src/CppUTest/TestPlugin.cpp": {
        r"bool\s+TestPlugin::parseAllArguments\s*\(\s*int\s+ac\s*,\s*const\s+char[^)]*\)\s*\{":
            'if(parseArguments(ac,av,index))return true;if(next_)return next_->parseAllArguments(ac,av,index);return false;',
    },
    "src/CppUTestExt/MemoryReporterPlugin.cpp": {
        r"bool\s+MemoryReporterPlugin::parseArguments\s*\([^)]*\)\s*\{":
            'SimpleString argument(av[index]);if(argument.contains("-pmemoryreport=")){argument.replace("-pmemoryreport=","");destroyMemoryFormatter(formatter_);formatter_=createMemoryFormatter(argument);return true;}return false;',
    },
    RUNNER: {
        r"int\s+CommandLineTestRunner::RunAllTests\s*\(\s*int\s+ac\s*,\s*const\s+char[^)]*\)\s*\{":
            'int result=0;ConsoleTestOutput backupOutput;MemoryLeakWarningPlugin memLeakWarn(DEF_PLUGIN_MEM_LEAK);memLeakWarn.destroyGlobalDetectorAndTurnOffMemoryLeakDetectionInDestructor(true);TestRegistry::getCurrentRegistry()->installPlugin(&memLeakWarn);{CommandLineTestRunner runner(ac,av,TestRegistry::getCurrentRegistry());result=runner.runAllTestsMain();}if(result==0){backupOutput<<memLeakWarn.FinalReport(0);}TestRegistry::getCurrentRegistry()->removePluginByName(DEF_PLUGIN_MEM_LEAK);return result;',
        r"int\s+CommandLineTestRunner::runAllTestsMain\s*\(\s*\)\s*\{":
            'int testResult=1;SetPointerPlugin pPlugin(DEF_PLUGIN_SET_POINTER);registry_->installPlugin(&pPlugin);if(parseArguments(registry_->getFirstPlugin()))testResult=runAllTests();registry_->removePluginByName(DEF_PLUGIN_SET_POINTER);return testResult;',
    },
}


def check_pinned():
    problems = []
    for rel, fns in PINNED.items():
        src = strip_comments(read(rel))
        for sig, want in fns.items():
            got = squeeze(function_body(src, sig))
            if got != want:
                name = re.search(r"::(\w+)", sig).group(1)
                problems.append("%s in %s is no longer the text the model was written against" % (name, rel))
    return problems


# ---------------------------------------------------------------- help() / usage() texts

def c_unescape(body):
    out, i = [], 0
    while i < len(body):
        ch = body[i]
        if ch == "\\":
            nx = body[i + 1]
            m = {"n": "\n", "t": "\t", '"': '"', "\\": "\\", "'": "'"}
            if nx not in m:
                raise TranslateError("escape sequence \\%s in help/usage text" % nx)
            out.append(m[nx])
            i += 2
        else:
            out.append(ch)
            i += 1
    return "".join(out)


def returned_text(src, fn):
    """the concatenated string literals of `return "…" "…" …;` in CommandLineArguments::<fn>() const"""
    body = function_body(src, r"const\s+char\s*\*\s*CommandLineArguments::%s\s*\(\s*\)\s*const\s*\{" % fn).strip()
    if not body.startswith("return") or not body.endswith(";"):
        raise TranslateError("%s(): not a single return statement" % fn)
    rest = body[len("return"):-1]
    lits = re.findall(r'"((?:\\.|[^"\\])*)"', rest)
    if re.sub(r'"(?:\\.|[^"\\])*"', "", rest).strip():
        raise TranslateError("%s(): something other than string literals is returned" % fn)
    return "".join(c_unescape(l) for l in lits)


def expand_optional(token):
    """`[X]rest` -> [`rest`, `Xrest`]"""
    m = re.fullmatch(r"\[([^\]]*)\](.*)", token)
    return [m.group(2), m.group(1) + m.group(2)] if m else [token]


def cut_value(word):
    """option word without its value placeholder: `-r[<#>]` -> `-r`, `TEST(<group>, …` -> `TEST(`"""
    for stop in ("[<", "<", "["):
        k = word.find(stop, 1)
        if k > 0:
            word = word[:k]
    return word


def help_entries(text):
    """the option spelled at the start of every option line of help() (two blanks, then the option)"""
    out = []
    for line in text.split("\n"):
        if not line.startswith("  ") or line[2:3] in ("", " "):
            continue                     # heading, blank line, or continuation of a description
        body = line[2:]
        if body.startswith('"'):         # "[IGNORE_]TEST(<group>, <name>)"
            inner = body[1:body.index('"', 1)]
            m = re.fullmatch(r"(\[[^\]]*\])?([A-Z_]+\()<[^>]*>, <[^>]*>\)", inner)
            if not m:
                raise TranslateError("help(): quoted option line of unknown form: " + line)
            out += expand_optional((m.group(1) or "") + m.group(2))
        elif body.startswith("-"):
            out.append(cut_value(body.split()[0]))
        else:
            raise TranslateError("help(): option line of unknown form: " + line)
    return out


def usage_entries(text):
    """every option of the bracketed synopsis of usage(), alternations expanded"""
    lines = text.split("\n")
    if lines[0] != "use -h for more extensive help" or not lines[1].startswith("usage "):
        raise TranslateError("usage(): first lines changed")
    syn = " ".join([lines[1][len("usage "):]] + lines[2:])
    groups, depth, start = [], 0, None
    for i, ch in enumerate(syn):
        if ch == "[":
            if depth == 0:
                start = i + 1
            depth += 1
        elif ch == "]":
            depth -= 1
            if depth == 0:
                groups.append(syn[start:i])
        elif depth == 0 and ch not in " .":
            raise TranslateError("usage(): text outside the bracketed options: " + syn[i:i + 20])
    if depth != 0:
        raise TranslateError("usage(): unbalanced brackets")
    out = []
    for g in groups:
        g = g.strip()
        if g.startswith('"'):
            inner = g[1:g.index('"', 1)]
            m = re.fullmatch(r"(\[[^\]]*\])?([A-Z_]+\()<[^>]*>, <[^>]*>\)", inner)
            if not m:
                raise TranslateError("usage(): quoted option of unknown form: " + g)
            out += expand_optional((m.group(1) or "") + m.group(2))
            continue
        word = g.split()[0]
        m = re.fullmatch(r"(-\w+)\{([^}]*)\}", word)
        if m:                                            # -o{normal|eclipse|junit|teamcity}
            out += [m.group(1) + alt for alt in m.group(2).split("|")]
        elif "|" in word:                                # -g|sg|xg|xsg
            alts = word.split("|")
            out += [alts[0]] + ["-" + a for a in alts[1:]]
        elif word.startswith("-"):
            out.append(cut_value(word))
        else:
            raise TranslateError("usage(): option of unknown form: " + g)
    return out


# ---------------------------------------------------------------- plugins' parseArguments

def plugin_facts():
    hdr = strip_comments(read("include/CppUTest/TestPlugin.h"))
    m = re.search(r"virtual\s+bool\s+parseArguments\s*\([^)]*\)\s*\{([^}]*)\}", hdr)
    if not m:
        raise TranslateError("TestPlugin::parseArguments: inline default not found")
    dflt = squeeze(m.group(1))
    if dflt not in ("return false;", "return true;"):
        raise TranslateError("TestPlugin::parseArguments: default is not a constant: " + dflt)
    overriding = []
    for d in ("include/CppUTest", "include/CppUTestExt"):
        full = os.path.join(core.REPO, d)
        for f in sorted(os.listdir(full)):
            if not f.endswith(".h"):
                continue
            text = strip_comments(read(os.path.join(d, f)))
            for cm in re.finditer(r"class\s+(\w+)\s*:\s*public\s+(\w+)\s*\{", text):
                i = text.index("{", cm.start())
                depth, j = 0, i
                while j < len(text):
                    if text[j] == "{":
                        depth += 1
                    elif text[j] == "}":
                        depth -= 1
                        if depth == 0:
                            break
                    j += 1
                if re.search(r"\bparseArguments\s*\(", text[i:j]):
                    overriding.append(cm.group(1))
    return dflt == "return true;", sorted(overriding)


def lean_bytes(b):
    return "[" + ", ".join(str(x) for x in b) + "]"


def lean_str(s):
    return '"' + s.replace("\\", "\\\\").replace('"', '\\"') + '"'


def extract():
    src = strip_comments(read(SRC))
    entries, final = parse_chain(src)
    if final != "correctParameters=false;":
        raise TranslateError("parse(): the final else no longer rejects: " + final)
    fns = [filter_fn(src, n) for n in FILTER_FNS]
    text = HEADER % ("translate/extract_cmdline.py", SRC)
    text += "namespace Gen.ParseDispatch\n\n"
    text += "structure Entry where\n  lit : List UInt8\n  exact : Bool\n  handler : String\nderiving DecidableEq, Repr\n\n"
    text += "/-- the if / else-if chain of CommandLineArguments::parse, in source order -/\n"
    text += "def table : List Entry := [\n"
    text += ",\n".join("  ⟨%s, %s, %s⟩" % (lean_bytes(c_string(lit)), "true" if exact else "false", lean_str(stmt))
                       for lit, exact, stmt in entries)
    text += "\n]\n\n"
    text += "def finalElse : String := %s\n\n" % lean_str(final)
    text += "structure FilterFn where\n  name : String\n  lit : List UInt8\n  group : Bool\n  strict : Bool\n  invert : Bool\nderiving DecidableEq, Repr\n\n"
    text += "/-- the eight add…Filter functions: option name given to getParameterField, list, flags -/\n"
    text += "def filterFns : List FilterFn := [\n"
    text += ",\n".join("  ⟨%s, %s, %s, %s, %s⟩" % (lean_str(n), lean_bytes(c_string(lit)), str(g).lower(), str(s).lower(), str(x).lower())
                       for n, lit, g, s, x in fns)
    text += "\n]\n\n"
    htxt, utxt = returned_text(src, "help"), returned_text(src, "usage")
    text += "/-- the option at the start of every option line of help(), in order (`[X]Y` expanded to `Y`, `XY`) -/\n"
    text += "def helpEntries : List (List UInt8) := [\n"
    text += ",\n".join("  %s   -- %s" % (lean_bytes(e.encode("latin-1")), e) for e in help_entries(htxt)).replace("   -- ", "   -- ", 1)
    text = fix_trailing_comma_comments(text)
    text += "\n]\n\n"
    text += "/-- every option of the synopsis of usage(), alternations expanded, in order -/\n"
    text += "def usageEntries : List (List UInt8) := [\n"
    text += ",\n".join("  %s   -- %s" % (lean_bytes(e.encode("latin-1")), e) for e in usage_entries(utxt))
    text = fix_trailing_comma_comments(text)
    text += "\n]\n\n"
    dflt, overriding = plugin_facts()
    text += "/-- what the inline default `TestPlugin::parseArguments` returns -/\n"
    text += "def defaultParseArgumentsReturns : Bool := %s\n\n" % ("true" if dflt else "false")
    text += "/-- the classes under include/ (besides TestPlugin) that declare `parseArguments` -/\n"
    text += "def classesOverridingParseArguments : List String := [%s]\n\n" % ", ".join(lean_str(c) for c in overriding)
    text += "def pluginNameMemLeak : String := %s\n" % lean_str(macro_string("include/CppUTest/CommandLineTestRunner.h", "DEF_PLUGIN_MEM_LEAK"))
    text += "def pluginNameSetPointer : String := %s\n" % lean_str(macro_string("include/CppUTest/CommandLineTestRunner.h", "DEF_PLUGIN_SET_POINTER"))
    text += "\nend Gen.ParseDispatch\n"
    return text


def macro_string(rel, name):
    m = re.search(r'#define\s+%s\s+"([^"]*)"' % name, read(rel))
    if not m:
        raise TranslateError("macro %s not found in %s" % (name, rel))
    return m.group(1)


def fix_trailing_comma_comments(text):
    """`  [..]   -- x,\n` -> `  [..],   -- x\n` (the joining comma must precede the comment)"""
    return re.sub(r"(\])(   -- [^\n]*),\n", r"\1,\2\n", text)


def run():
    text = extract()
    core.write_if_changed(os.path.join(core.LEAN, "CppUModel", "Gen", "ParseDispatch.lean"), text)
    return check_pinned()


if __name__ == "__main__":
    print(extract())
    print(check_pinned())
