"""Regenerates lean/CppUModel/Gen/RunAllTestsLoop.lean (C20) from src/CppUTest/TestRegistry.cpp:
TestRegistry::runAllTests as the statement list it is - what is called on the TestResult before the loop, the statements of
the `for` body in source order (plain calls and `if (cond) { calls }`), what is called after the loop, and the initial value of
`groupStart`.  Model/TeamCityLoop.lean interprets the list; Proofs/TeamCityLoop.lean proves the interpreter equal to the
hand-written loop of Model/OutputEvents.lean the balance theorems are proved about.

Shape checks (TranslateError otherwise): the loop walks tests_ from the head to NULLPTR by getNext(); every
TestResult::current*/tests* callback used here calls the output callback of the same name (and takes its time stamp on the
side the model assumes: start callbacks print first and then read the clock, end callbacks read the clock first)."""
import os, re
from .common import *
from .extract_escapes import squeeze
from .extract_teamcity import matching, one_statement_end, IDENT

REG_SRC = "src/CppUTest/TestRegistry.cpp"
RES_SRC = "src/CppUTest/TestResult.cpp"


class Names:
    def __init__(self, result, test):
        self.r, self.t = result, test

    def act(self, text):
        r, t = re.escape(self.r), re.escape(self.t)
        table = [
            (r + r"\.currentGroupStarted\(" + t + r"\)", "groupStarted"),
            (r + r"\.currentGroupEnded\(" + t + r"\)", "groupEnded"),
            (r + r"\.currentTestStarted\(" + t + r"\)", "testStarted"),
            (r + r"\.currentTestEnded\(" + t + r"\)", "testEnded"),
            (t + r"->runOneTest\(firstPlugin_," + r + r"\)", "runOneTest"),
            (r + r"\.countTest\(\)", "countTest"),
            (r + r"\.testsStarted\(\)", "testsStarted"),
            (r + r"\.testsEnded\(\)", "testsEnded"),
            (r"groupStart=true", "setGroupStart true"),
            (r"groupStart=false", "setGroupStart false"),
            (t + r"->setRunInSeperateProcess\(\)", "setSeparate"),
            (t + r"->setRunIgnored\(\)", "setRunIgnored"),
            (r"currentRepetition_\+\+|\+\+currentRepetition_", "nextRepetition"),
        ]
        for rx, lean in table:
            if re.fullmatch(rx, text):
                return lean
        raise TranslateError("runAllTests: statement not understood: " + text)

    def cond(self, text):
        r, t = re.escape(self.r), re.escape(self.t)
        while text.startswith("(") and matching(text, 0, "(", ")") == len(text):
            text = text[1:-1]
        table = [(r"groupStart", "groupStart"), (r"groupStart==true", "groupStart"),
                 (r"testShouldRun\(" + t + "," + r + r"\)", "shouldRun"), (r"endOfGroup\(" + t + r"\)", "endOfGroup"),
                 (r"runInSeperateProcess_", "separateFlag"), (r"runIgnored_", "runIgnoredFlag")]
        for rx, lean in table:
            if re.fullmatch(rx, text):
                return lean
        raise TranslateError("runAllTests: condition not understood: " + text)


def parse_block(names, text):
    """-> [("act", a) | ("ifc", cond, [a])]"""
    out, pos = [], 0
    while pos < len(text):
        if text.startswith("if(", pos):
            cend = matching(text, pos + 2, "(", ")")
            cond = names.cond(text[pos + 3:cend - 1])
            if text.startswith("{", cend):
                bend = matching(text, cend, "{", "}")
                inner = text[cend + 1:bend - 1]
            else:
                bend = one_statement_end(text, cend)
                inner = text[cend:bend]
            if text.startswith("else", bend):
                raise TranslateError("runAllTests: if with an else branch")
            body = parse_block(names, inner)
            if any(b[0] != "act" for b in body):
                raise TranslateError("runAllTests: nested if")
            out.append(("ifc", cond, [b[1] for b in body]))
            pos = bend
            continue
        end = one_statement_end(text, pos)
        out.append(("act", names.act(text[pos:end - 1])))
        pos = end
    return out


def extract_loop():
    src = strip_comments(read(REG_SRC))
    m = re.search(r"void\s+TestRegistry::runAllTests\s*\(\s*TestResult\s*&\s*(%s)\s*\)\s*\{" % IDENT, src)
    if not m:
        raise TranslateError("TestRegistry::runAllTests(TestResult&) not found")
    result = m.group(1)
    body = squeeze(function_body(src, r"void\s+TestRegistry::runAllTests\s*\(\s*TestResult\s*&\s*%s\s*\)\s*\{" % result))
    body = body.replace("UtestShell*", "UtestShell* ").replace("boolgroupStart", "bool groupStart")
    m = re.match(r"bool groupStart=(true|false);", body)
    if not m:
        raise TranslateError("runAllTests: does not start with `bool groupStart = ...;`: " + body[:60])
    init = m.group(1)
    f = body.find("for(", m.end())
    if f < 0:
        raise TranslateError("runAllTests: no for loop")
    hend = matching(body, f + 3, "(", ")")
    hm = re.fullmatch(r"UtestShell\* (%s)=tests_;(.*);(.*)" % IDENT, body[f + 4:hend - 1])
    if not hm:
        raise TranslateError("runAllTests: loop header changed: " + body[f:hend])
    test = hm.group(1)
    if hm.group(2) not in (test + "!=NULLPTR", test + "!=0", test, test + "!=nullptr", "NULLPTR!=" + test) or \
            hm.group(3) != "%s=%s->getNext()" % (test, test):
        raise TranslateError("runAllTests: the loop does not walk tests_ by getNext() to the end: " + body[f:hend])
    if not body.startswith("{", hend):
        raise TranslateError("runAllTests: loop body is not a block")
    bend = matching(body, hend, "{", "}")
    names = Names(result, test)
    before = parse_block(names, body[m.end():f])
    loop = parse_block(names, body[hend + 1:bend - 1])
    after = parse_block(names, body[bend:])
    if any(b[0] != "act" for b in before + after):
        raise TranslateError("runAllTests: conditional statement outside the loop")
    return init, [b[1] for b in before], loop, [a[1] for a in after]


def check_result_forwards():
    src = strip_comments(read(RES_SRC))
    want = [
        ("currentGroupStarted", r"UtestShell\s*\*\s*(\w+)", r"^output_\.printCurrentGroupStarted\(\*%s\);currentGroupTimeStarted_=.*GetPlatformSpecificTimeInMillis\(\);$"),
        ("currentGroupEnded", r"UtestShell\s*\*\s*(\w*)", r"^currentGroupTotalExecutionTime_=.*GetPlatformSpecificTimeInMillis\(\)-currentGroupTimeStarted_;output_\.printCurrentGroupEnded\(\*this\);$"),
        ("currentTestStarted", r"UtestShell\s*\*\s*(\w+)", r"^output_\.printCurrentTestStarted\(\*%s\);currentTestTimeStarted_=.*GetPlatformSpecificTimeInMillis\(\);$"),
        ("currentTestEnded", r"UtestShell\s*\*\s*(\w*)", r"^currentTestTotalExecutionTime_=.*GetPlatformSpecificTimeInMillis\(\)-currentTestTimeStarted_;output_\.printCurrentTestEnded\(\*this\);$"),
        ("addFailure", r"const\s+TestFailure\s*&\s*(\w+)", r"^output_\.printFailure\(%s\);failureCount_\+\+;$|^failureCount_\+\+;output_\.printFailure\(%s\);$"),
        ("print", r"const\s+char\s*\*\s*(\w+)", r"^output_\.print\(%s\);$"),
        ("printVeryVerbose", r"const\s+char\s*\*\s*(\w+)", r"^output_\.printVeryVerbose\(%s\);$"),
        ("testsStarted", r"", r"^timeStarted_=.*GetPlatformSpecificTimeInMillis\(\);output_\.printTestsStarted\(\);$"),
        ("testsEnded", r"", r"^.*output_\.printTestsEnded\(\*this\);$"),
    ]
    for name, params, rx in want:
        hdr = r"void\s+TestResult::%s\s*\(\s*%s\s*\)\s*\{" % (name, params)
        m = re.search(hdr, src)
        if not m:
            raise TranslateError("TestResult::%s not found" % name)
        body = squeeze(function_body(src, hdr))
        p = m.group(1) if m.groups() else ""
        rx2 = rx.replace("%s", re.escape(p or "")) if "%s" in rx else rx
        if not re.search(rx2, body):
            raise TranslateError("TestResult::%s no longer forwards to the output callback as modelled: %s" % (name, body[:120]))


TYPES = '''inductive Act
  | testsStarted | testsEnded                                  -- result.testsStarted() / result.testsEnded()
  | groupStarted | groupEnded | testStarted | testEnded        -- result.currentGroupStarted(test) / ...
  | runOneTest                                                 -- test->runOneTest(firstPlugin_, result)
  | countTest                                                  -- result.countTest()
  | setGroupStart (b : Bool)                                   -- groupStart = b
  | setSeparate | setRunIgnored                                -- test->setRunInSeperateProcess() / test->setRunIgnored()
  | nextRepetition                                             -- currentRepetition_++
deriving DecidableEq, Repr
inductive Cond
  | groupStart | shouldRun | endOfGroup                        -- groupStart / testShouldRun(test, result) / endOfGroup(test)
  | separateFlag | runIgnoredFlag                              -- runInSeperateProcess_ / runIgnored_
deriving DecidableEq, Repr
inductive Stmt
  | act (a : Act)
  | ifc (c : Cond) (body : List Act)
deriving DecidableEq, Repr
'''


def lean_act(a):
    return "." + a if " " not in a else "(.%s)" % a


def extract():
    init, before, loop, after = extract_loop()
    check_result_forwards()
    t = HEADER % ("translate/extract_runloop.py", REG_SRC + ", " + RES_SRC)
    t += "namespace Gen.RunAllTestsLoop\n" + TYPES
    t += "/-- `bool groupStart = …;` -/\ndef groupStartInit : Bool := %s\n" % init
    t += "/-- statements before the `for` loop -/\ndef before : List Act := [%s]\n" % ", ".join(lean_act(a) for a in before)
    t += "/-- the body of `for (UtestShell* test = tests_; test != NULLPTR; test = test->getNext())`, in source order -/\n"
    t += "def body : List Stmt :=\n  [%s]\n" % ",\n   ".join(
        (".act %s" % lean_act(s[1])) if s[0] == "act" else ".ifc .%s [%s]" % (s[1], ", ".join(lean_act(a) for a in s[2])) for s in loop)
    t += "/-- statements after the loop -/\ndef after : List Act := [%s]\n" % ", ".join(lean_act(a) for a in after)
    t += "end Gen.RunAllTestsLoop\n"
    return t


def run():
    text = extract()
    core.write_if_changed(os.path.join(core.LEAN, "CppUModel", "Gen", "RunAllTestsLoop.lean"), text)
    return []
