"""Regenerates lean/CppUModel/Gen/LeakDetectorConstants.lean from the leak detector sources.

Extracted: the MemLeakPeriod enum, hash_prime, memory_corruption_buffer_size, GuardBytes, the poison byte of
invalidateMemory, sizeof(MemoryLeakDetectorNode) (LP64 layout of the field list), and three loop-free functions
translated expression by expression: MemoryLeakDetectorTable::hash, MemoryLeakDetectorList::isInPeriod,
MemoryLeakDetector::matchingAllocation; the statement order of the release wrappers of MemoryLeakWarningPlugin.cpp.
Shape checks (TranslateError when the text no longer has the expected form): the two guard-byte loops,
invalidateMemory, isOfEqualType, the actualAllocator() forwarders, the two size functions."""
import os, re
from .common import *

SRC = "src/CppUTest/MemoryLeakDetector.cpp"
HDR = "include/CppUTest/MemoryLeakDetector.h"
TH = "include/CppUTest/TestHarness.h"
TMA = "src/CppUTest/TestMemoryAllocator.cpp"
PLUG = "src/CppUTest/MemoryLeakWarningPlugin.cpp"
OUT = "LeakDetectorConstants.lean"


def norm(s):
    return re.sub(r"\s+", "", s)


def drop_disabled_branches(src, macro):
    """keep the branch of `#ifdef macro / #ifndef macro ... #else ... #endif` that applies when `macro` is NOT defined"""
    out, stack = [], []           # stack of (keep_now, saw_else, relevant)
    for line in src.split("\n"):
        s = line.strip()
        m = re.match(r"#\s*(ifdef|ifndef)\s+(\w+)", s)
        if m:
            if m.group(2) == macro:
                keep = m.group(1) == "ifndef"
                stack.append([keep, True])
            else:
                stack.append([True, False])
            out.append("")
            continue
        if re.match(r"#\s*if\b", s):
            stack.append([True, False]); out.append(""); continue
        if re.match(r"#\s*else\b", s) and stack:
            if stack[-1][1]:
                stack[-1][0] = not stack[-1][0]
            out.append(""); continue
        if re.match(r"#\s*endif\b", s) and stack:
            stack.pop(); out.append(""); continue
        out.append(line if all(k for k, _ in stack) else "")
    return "\n".join(out)


# ---------------------------------------------------------------- boolean expression translator

TOK = re.compile(r"\s*(->|==|!=|\|\||&&|[()!]|[A-Za-z_][A-Za-z_0-9]*)")


def tokens(text):
    out, i = [], 0
    text = text.strip()
    while i < len(text):
        m = TOK.match(text, i)
        if not m:
            raise TranslateError("cannot tokenise expression at: " + text[i:i + 30])
        out.append(m.group(1)); i = m.end()
    # join a -> b
    j, res = 0, []
    while j < len(out):
        if j + 2 < len(out) and out[j + 1] == "->":
            res.append(out[j] + "->" + out[j + 2]); j += 3
        else:
            res.append(out[j]); j += 1
    return res


class ExprParser:
    def __init__(self, toks, atoms, pointer_pair=None):
        self.t, self.i, self.atoms, self.pp = toks, 0, atoms, pointer_pair

    def peek(self):
        return self.t[self.i] if self.i < len(self.t) else None

    def eat(self, x=None):
        tok = self.peek()
        if tok is None or (x is not None and tok != x):
            raise TranslateError("expression: expected %r, found %r" % (x, tok))
        self.i += 1
        return tok

    def parse(self):
        e = self.or_()
        if self.peek() is not None:
            raise TranslateError("expression: trailing tokens %r" % self.t[self.i:])
        return e

    def or_(self):
        e = self.and_()
        while self.peek() == "||":
            self.eat(); e = "(%s || %s)" % (e, self.and_())
        return e

    def and_(self):
        e = self.cmp()
        while self.peek() == "&&":
            self.eat(); e = "(%s && %s)" % (e, self.cmp())
        return e

    def cmp(self):
        a_raw_pos = self.i
        a = self.unary()
        if self.peek() in ("==", "!="):
            op = self.eat()
            b_raw_pos = self.i
            b = self.unary()
            ra, rb = self.t[a_raw_pos], self.t[b_raw_pos]
            if self.pp and {ra, rb} == set(self.pp):
                return self.pp_name if op == "==" else "(!%s)" % self.pp_name
            return "(%s %s %s)" % (a, op, b)
        return a

    pp_name = "samePointer"

    def unary(self):
        tok = self.peek()
        if tok == "!":
            self.eat(); return "(!%s)" % self.unary()
        if tok == "(":
            self.eat(); e = self.or_(); self.eat(")"); return e
        tok = self.eat()
        if tok in self.atoms:
            return self.atoms[tok]
        if self.pp and tok in self.pp:
            return tok            # only legal inside a pointer comparison (checked in cmp)
        raise TranslateError("expression: unknown identifier %r" % tok)


def translate_bool(text, atoms, pointer_pair=None):
    p = ExprParser(tokens(text), atoms, pointer_pair)
    e = p.parse()
    if pointer_pair:
        for v in pointer_pair:
            if re.search(r"\b%s\b" % v, e):
                raise TranslateError("pointer variable used outside a pointer comparison: " + text)
    return e


def period_names(hdr):
    m = re.search(r"enum\s+MemLeakPeriod\s*\{(.*?)\}", hdr, re.S)
    if not m:
        raise TranslateError("enum MemLeakPeriod not found")
    names = [x.strip() for x in m.group(1).split(",") if x.strip()]
    for n in names:
        if not re.fullmatch(r"mem_leak_period_[a-z]+", n):
            raise TranslateError("unexpected MemLeakPeriod enumerator: " + n)
    short = [n[len("mem_leak_period_"):] for n in names]
    if sorted(short) != sorted(["all", "disabled", "enabled", "checking"]):
        raise TranslateError("MemLeakPeriod is no longer {all, disabled, enabled, checking}: %r" % short)
    return short


FIELD_SIZES = [
    (r"size_t", 8), (r"unsigned\s+char", 1), (r"unsigned(\s+int)?", 4), (r"(const\s+)?char\s*\*", 8),
    (r"TestMemoryAllocator\s*\*", 8), (r"MemLeakPeriod", 4), (r"MemoryLeakDetectorNode\s*\*", 8),
]


def node_struct_bytes(hdr):
    m = re.search(r"struct\s+MemoryLeakDetectorNode\s*\{(.*?)\n\};", hdr, re.S)
    if not m:
        raise TranslateError("struct MemoryLeakDetectorNode not found")
    body = m.group(1)
    # drop the inline constructor and member function declarations
    body = re.sub(r"MemoryLeakDetectorNode\s*\(\s*\)\s*:.*?\{\s*\}", "", body, flags=re.S)
    off, maxal, nfields = 0, 1, 0
    for stmt in body.split(";"):
        s = stmt.strip()
        s = re.sub(r"^(private|public)\s*:", "", s).strip()
        if not s or "(" in s or s.startswith("friend"):
            continue
        mm = re.fullmatch(r"(.+?)\s*\b(\w+_)", s, re.S)
        if not mm:
            raise TranslateError("MemoryLeakDetectorNode: field not understood: " + s)
        ty = mm.group(1).strip()
        for pat, sz in FIELD_SIZES:
            if re.fullmatch(pat, ty):
                break
        else:
            raise TranslateError("MemoryLeakDetectorNode: field of unknown size: " + s)
        al = sz
        off = (off + al - 1) // al * al + sz
        maxal = max(maxal, al); nfields += 1
    if nfields < 8:
        raise TranslateError("MemoryLeakDetectorNode: only %d fields found" % nfields)
    return (off + maxal - 1) // maxal * maxal


def release_wrappers(plug):
    names = ["threadsafe_mem_leak_free", "mem_leak_free", "threadsafe_mem_leak_operator_delete",
             "threadsafe_mem_leak_operator_delete_array", "mem_leak_operator_delete", "mem_leak_operator_delete_array"]
    out = []
    for n in names:
        body = function_body(plug, r"static\s+void\s+%s\s*\([^)]*\)[^{;]*\{" % n)
        stmts = [norm(s) for s in body.split(";") if norm(s)]
        stmts = [s for s in stmts if s != "MemLeakScopedMutexlock"]
        calls = []
        for s in stmts:
            m = re.fullmatch(r"MemoryLeakWarningPlugin::getGlobalDetector\(\)->(\w+)\((.*)\)", s)
            if not m:
                raise TranslateError("%s: statement not understood: %s" % (n, s))
            calls.append((m.group(1), m.group(2)))
        kinds = [c[0] for c in calls]
        if sorted(kinds) != ["deallocMemory", "invalidateMemory"] and kinds != ["deallocMemory"]:
            raise TranslateError("%s: unexpected calls %r" % (n, kinds))
        inval_first = kinds == ["invalidateMemory", "deallocMemory"]
        dargs = [c[1] for c in calls if c[0] == "deallocMemory"][0]
        m = re.match(r"(getCurrent\w+Allocator)\(\),\(char\*\)(\w+)(.*)$", dargs)
        if not m:
            raise TranslateError("%s: deallocMemory arguments not understood: %s" % (n, dargs))
        rest = m.group(3)
        if rest not in ("", ",file,line,true", ",file,line", ",true", ",file,line,false", ",false"):
            raise TranslateError("%s: deallocMemory tail not understood: %s" % (n, rest))
        iargs = [c[1] for c in calls if c[0] == "invalidateMemory"]
        if iargs and iargs[0] != "(char*)" + m.group(2):
            raise TranslateError("%s: invalidateMemory is not applied to the released pointer: %s" % (n, iargs[0]))
        out.append((n, inval_first, m.group(1), "file,line" in rest, rest.endswith(",true")))
    return out


def norm_param(p):
    p = re.sub(r"\s+", " ", p.strip())
    p = re.sub(r"\s+(size|file|line|mem|memory)$", "", p)       # drop the parameter name
    p = re.sub(r"\s*([*&])\s*", r"\1", p)
    return p


def overload_forwarding(plug):
    """every `operator new / new[] / delete / delete[]` defined in the file: signature key -> function pointer it forwards to"""
    out = []
    pat = re.compile(r"(void\s*\*|void)\s+operator\s+(new|delete)\s*(\[\s*\])?\s*\(([^)]*)\)[^{;]*\{([^{}]*)\}")
    for m in pat.finditer(plug):
        ret, kind, arr, params, body = m.groups()
        ps = [norm_param(x) for x in params.split(",")]
        key = "%s%s(%s)" % (kind, "[]" if arr else "", ",".join(ps))
        b = norm(body)
        if kind == "new":
            mm = re.fullmatch(r"return(\w+)\((.*)\);", b)
            if not mm or ret.replace(" ", "") != "void*":
                raise TranslateError("operator %s: body not understood: %s" % (key, b))
            args = mm.group(2)
            if args not in ("size", "size,file,line", "size,file,(size_t)line"):
                raise TranslateError("operator %s: arguments not understood: %s" % (key, args))
            loc = args != "size"
        else:
            mm = re.fullmatch(r"(\w+)\(mem\);", b)
            if not mm:
                raise TranslateError("operator %s: body not understood: %s" % (key, b))
            loc = False
        if any(k == key for k, _, _ in out):
            raise TranslateError("operator %s defined twice" % key)
        out.append((key, mm.group(1), loc))
    if len(out) < 10:
        raise TranslateError("only %d operator new/delete overloads found" % len(out))
    return out


def fptr_table(plug, fn):
    body = function_body(plug, r"void\s+MemoryLeakWarningPlugin::%s\s*\(\s*\)\s*\{" % fn)
    out = []
    body = "\n".join(l for l in body.split("\n") if not l.strip().startswith("#"))
    for st in body.split(";"):
        st = norm(st)
        if not st:
            continue
        mm = re.fullmatch(r"(\w+_fptr)=(\w+)", st)
        if not mm:
            raise TranslateError("%s: statement not understood: %s" % (fn, st))
        out.append((mm.group(1), mm.group(2)))
    if len(out) != 11:
        raise TranslateError("%s assigns %d function pointers (11 expected)" % (fn, len(out)))
    return out


def acquire_wrappers(plug, names):
    out = []
    for n in names:
        body = function_body(plug, r"static\s+void\s*\*\s*%s\s*\([^)]*\)[^{;]*\{" % n)
        stmts = [norm(x) for x in body.split(";") if norm(x)]
        stmts = [x for x in stmts if x not in ("MemLeakScopedMutexlock", "UT_THROW_BAD_ALLOC_WHEN_NULL(memory)", "returnmemory")]
        if len(stmts) != 1:
            raise TranslateError("%s: statements not understood: %r" % (n, stmts))
        mm = re.fullmatch(r"(?:void\*memory=|return)MemoryLeakWarningPlugin::getGlobalDetector\(\)->(allocMemory|reallocMemory)\((.*)\)", stmts[0])
        if not mm:
            raise TranslateError("%s: statement not understood: %s" % (n, stmts[0]))
        kind, args = mm.groups()
        m2 = re.fullmatch(r"(getCurrent\w+Allocator)\(\),(\(char\*\)memory,)?size(,file,line)?(,true|,false)?", args)
        if not m2 or (kind == "reallocMemory") != bool(m2.group(2)):
            raise TranslateError("%s: arguments not understood: %s" % (n, args))
        out.append((n, m2.group(1), bool(m2.group(3)), m2.group(4) == ",true", kind == "reallocMemory"))
    return out


MRP = "src/CppUTestExt/MemoryReporterPlugin.cpp"
MRA = "src/CppUTestExt/MemoryReportAllocator.cpp"


def report_allocator_wiring():
    """statements of MemoryReporterPlugin::setGlobalMemoryReportAllocators / removeGlobalMemoryReportAllocators"""
    src = strip_comments(read(MRP))
    body = function_body(src, r"void\s+MemoryReporterPlugin::setGlobalMemoryReportAllocators\s*\(\s*\)\s*\{")
    stmts = [norm(x) for x in body.split(";") if norm(x)]
    install = []
    if len(stmts) % 2:
        raise TranslateError("setGlobalMemoryReportAllocators: odd number of statements")
    for a, b in zip(stmts[0::2], stmts[1::2]):
        m1 = re.fullmatch(r"(\w+)\.setRealAllocator\((getCurrent\w+Allocator)\(\)\)", a)
        m2 = re.fullmatch(r"(setCurrent\w+Allocator)\(&(\w+)\)", b)
        if not m1 or not m2:
            raise TranslateError("setGlobalMemoryReportAllocators: statements not understood: %s ; %s" % (a, b))
        install.append((m1.group(1), m1.group(2), m2.group(1), m2.group(2)))
    body = function_body(src, r"void\s+MemoryReporterPlugin::removeGlobalMemoryReportAllocators\s*\(\s*\)\s*\{")
    remove = []
    for st in [norm(x) for x in body.split(";") if norm(x)]:
        m = re.fullmatch(r"if\((getCurrent\w+Allocator)\(\)==&(\w+)\)(setCurrent\w+Allocator)\((\w+)\.getRealAllocator\(\)\)", st)
        if not m:
            raise TranslateError("removeGlobalMemoryReportAllocators: statement not understood: " + st)
        remove.append(m.groups())
    if len(install) != 3 or len(remove) != 3:
        raise TranslateError("report allocator wiring: %d install / %d remove statements" % (len(install), len(remove)))
    pre = norm(function_body(src, r"void\s+MemoryReporterPlugin::preTestAction\s*\([^)]*\)\s*\{"))
    post = norm(function_body(src, r"void\s+MemoryReporterPlugin::postTestAction\s*\([^)]*\)\s*\{"))
    if not pre.startswith("if(formatter_==NULLPTR)return;") or pre.count("setGlobalMemoryReportAllocators();") != 1:
        raise TranslateError("MemoryReporterPlugin::preTestAction changed shape")
    if not post.startswith("if(formatter_==NULLPTR)return;removeGlobalMemoryReportAllocators();"):
        raise TranslateError("MemoryReporterPlugin::postTestAction changed shape")
    mra = strip_comments(read(MRA))
    b = norm(function_body(mra, r"TestMemoryAllocator\s*\*\s*MemoryReportAllocator::actualAllocator\s*\(\s*\)\s*\{"))
    if b != "returnrealAllocator_->actualAllocator();":
        raise TranslateError("MemoryReportAllocator::actualAllocator changed shape: " + b)
    for fn, call in (("alloc_name", "alloc_name"), ("free_name", "free_name")):
        b = norm(function_body(mra, r"MemoryReportAllocator::%s\s*\(\s*\)\s*const\s*\{" % fn))
        if b != "returnrealAllocator_->%s();" % call:
            raise TranslateError("MemoryReportAllocator::%s changed shape: %s" % (fn, b))
    return install, remove



# ---------------------------------------------------------------- overload switching, current allocators (C04 growth)

FPTRS = ["operator_new_fptr", "operator_new_nothrow_fptr", "operator_new_debug_fptr", "operator_new_array_fptr",
         "operator_new_array_nothrow_fptr", "operator_new_array_debug_fptr", "operator_delete_fptr", "operator_delete_array_fptr",
         "malloc_fptr", "realloc_fptr", "free_fptr"]


def leak_detection_branch(plug):
    """the text that is compiled when CPPUTEST_USE_MEM_LEAK_DETECTION is on: `#if M ... #else ... #endif` keeps the first branch"""
    out, stack = [], []
    for line in plug.split("\n"):
        s = line.strip()
        m = re.match(r"#\s*if\s+(\w+)\s*$", s)
        if m:
            stack.append([True, m.group(1) == "CPPUTEST_USE_MEM_LEAK_DETECTION"]); out.append(""); continue
        if re.match(r"#\s*(if|ifdef|ifndef)\b", s):
            stack.append([True, False]); out.append(""); continue
        if re.match(r"#\s*else\b", s) and stack:
            if stack[-1][1]:
                stack[-1][0] = False
            out.append(""); continue
        if re.match(r"#\s*endif\b", s) and stack:
            stack.pop(); out.append(""); continue
        out.append(line if all(k for k, _ in stack) else "")
    return "\n".join(out)


def static_initialisers(plug):
    """`static <type> (*X_fptr)(...) ... = fn;` for the 11 function pointers and their saved_ copies"""
    text = leak_detection_branch(plug)
    init = {}
    for m in re.finditer(r"static\s+void\s*\*?\s*\(\s*\*\s*(\w+_fptr)\s*\)\s*\([^)]*\)[^=;]*=\s*(\w+)\s*;", text):
        if m.group(1) in init:
            raise TranslateError("function pointer %s initialised twice" % m.group(1))
        init[m.group(1)] = m.group(2)
    want = FPTRS + ["saved_" + x for x in FPTRS]
    if sorted(init) != sorted(want):
        raise TranslateError("static function pointers are %r (expected the 11 pointers and their saved_ copies)" % sorted(init))
    m = re.search(r"static\s+int\s+save_counter\s*=\s*(-?\d+)\s*;", text)
    if not m:
        raise TranslateError("static int save_counter = <n>; not found")
    return [(k, init[k]) for k in want], int(m.group(1))


def save_restore(plug):
    """saveAndDisableNewDeleteOverloads / restoreNewDeleteOverloads: counter guard, the assignment list, the trailing call"""
    out = {}
    for fn in ("saveAndDisableNewDeleteOverloads", "restoreNewDeleteOverloads"):
        body = function_body(plug, r"void\s+MemoryLeakWarningPlugin::%s\s*\(\s*\)\s*\{" % fn)
        body = "\n".join(l for l in body.split("\n") if not l.strip().startswith("#"))
        stmts = [norm(x) for x in body.split(";") if norm(x)]
        if not stmts:
            raise TranslateError(fn + " is empty")
        g = re.fullmatch(r"if\((\+\+|--)save_counter>(\d+)\)return", stmts[0])
        if not g:
            raise TranslateError("%s: counter guard not understood: %s" % (fn, stmts[0]))
        pairs, tail = [], []
        for st in stmts[1:]:
            mm = re.fullmatch(r"(\w+_fptr)=(\w+_fptr)", st)
            if mm and not tail:
                pairs.append((mm.group(1), mm.group(2)))
            elif re.fullmatch(r"(\w+)\(\)", st):
                tail.append(st[:-2])
            else:
                raise TranslateError("%s: statement not understood: %s" % (fn, st))
        out[fn] = (1 if g.group(1) == "++" else -1, int(g.group(2)), pairs, tail)
    return out


def overloaded_test(plug):
    body = function_body(plug, r"bool\s+MemoryLeakWarningPlugin::areNewDeleteOverloaded\s*\(\s*\)\s*\{")
    body = norm(leak_detection_branch("#if CPPUTEST_USE_MEM_LEAK_DETECTION\n" + body.split("#if CPPUTEST_USE_MEM_LEAK_DETECTION")[-1]))
    m = re.fullmatch(r"return(.*);", body)
    if not m:
        raise TranslateError("areNewDeleteOverloaded changed shape: " + body)
    ptrs, fns = set(), []
    for d in m.group(1).split("||"):
        mm = re.fullmatch(r"(\w+_fptr)==(\w+)", d)
        if not mm:
            raise TranslateError("areNewDeleteOverloaded: disjunct not understood: " + d)
        ptrs.add(mm.group(1)); fns.append(mm.group(2))
    if len(ptrs) != 1:
        raise TranslateError("areNewDeleteOverloaded looks at several pointers: %r" % sorted(ptrs))
    return ptrs.pop(), fns


def normal_wrappers(plug, names):
    """normal_* functions: which platform call each one is (malloc / realloc / free), straight through"""
    out = []
    for n in names:
        body = function_body(plug, r"static\s+void\s*\*?\s*%s\s*\([^)]*\)[^{;]*\{" % n)
        stmts = [norm(x) for x in body.split(";") if norm(x)]
        stmts = [x for x in stmts if x not in ("UT_THROW_BAD_ALLOC_WHEN_NULL(memory)", "returnmemory")]
        if len(stmts) != 1:
            raise TranslateError("%s: statements not understood: %r" % (n, stmts))
        mm = re.fullmatch(r"(?:void\*memory=|return)?PlatformSpecific(Malloc|Realloc|Free)\((size|memory,size|mem|buffer)\)", stmts[0])
        if not mm or {"Malloc": "size", "Realloc": "memory,size"}.get(mm.group(1), mm.group(2)) != mm.group(2):
            raise TranslateError("%s: statement not understood: %s" % (n, stmts[0]))
        out.append((n, mm.group(1).lower()))
    return out


def current_allocator_wiring(tma):
    """setCurrentXAllocator / getCurrentXAllocator / setCurrentXAllocatorToDefault / defaultXAllocator and the stash"""
    fams, defaults = [], []
    for fam in ("New", "NewArray", "Malloc"):
        var = "current%sAllocator" % fam
        b = norm(function_body(tma, r"void\s+setCurrent%sAllocator\s*\(\s*TestMemoryAllocator\s*\*\s*allocator\s*\)\s*\{" % fam))
        if b != var + "=allocator;":
            raise TranslateError("setCurrent%sAllocator changed shape: %s" % (fam, b))
        b = norm(function_body(tma, r"TestMemoryAllocator\s*\*\s*getCurrent%sAllocator\s*\(\s*\)\s*\{" % fam))
        if b != "if(%s==NULLPTR)setCurrent%sAllocatorToDefault();return%s;" % (var, fam, var):
            raise TranslateError("getCurrent%sAllocator changed shape: %s" % (fam, b))
        b = norm(function_body(tma, r"void\s+setCurrent%sAllocatorToDefault\s*\(\s*\)\s*\{" % fam))
        m = re.fullmatch(r"(\w+)=(default\w+Allocator)\(\);", b)
        if not m:
            raise TranslateError("setCurrent%sAllocatorToDefault changed shape: %s" % (fam, b))
        raw = function_body(tma, r"TestMemoryAllocator\s*\*\s*%s\s*\(\s*\)\s*\{" % m.group(2))
        mm = re.fullmatch(r'\s*static\s+TestMemoryAllocator\s+allocator\s*\(\s*"([^"]*)"\s*,\s*"([^"]*)"\s*,\s*"([^"]*)"\s*\)\s*;\s*return\s*&\s*allocator\s*;\s*', raw)
        if not mm:
            raise TranslateError("%s changed shape: %s" % (m.group(2), norm(raw)))
        fams.append(("setCurrent%sAllocatorToDefault" % fam, "set" + m.group(1)[0].upper() + m.group(1)[1:], m.group(2)))
        defaults.append((m.group(2),) + mm.groups())
    b = function_body(tma, r"void\s+GlobalMemoryAllocatorStash::save\s*\(\s*\)\s*\{")
    save = []
    for st in [norm(x) for x in b.split(";") if norm(x)]:
        m = re.fullmatch(r"(original\w+Allocator)=(getCurrent\w+Allocator)\(\)", st)
        if not m:
            raise TranslateError("GlobalMemoryAllocatorStash::save: statement not understood: " + st)
        save.append(m.groups())
    b = function_body(tma, r"void\s+GlobalMemoryAllocatorStash::restore\s*\(\s*\)\s*\{")
    restore = []
    for st in [norm(x) for x in b.split(";") if norm(x)]:
        m = re.fullmatch(r"if\((original\w+Allocator)\)(setCurrent\w+Allocator)\((original\w+Allocator)\)", st)
        if not m or m.group(1) != m.group(3):
            raise TranslateError("GlobalMemoryAllocatorStash::restore: statement not understood: " + st)
        restore.append((m.group(1), m.group(2)))
    if len(save) != 3 or len(restore) != 3:
        raise TranslateError("GlobalMemoryAllocatorStash: %d save / %d restore statements" % (len(save), len(restore)))
    return fams, defaults, save, restore


def lean_pairs(name, doc, pairs):
    return "/-- %s -/\ndef %s : List (String × String) := [\n" % (doc, name) + ",\n".join('  ("%s", "%s")' % x for x in pairs) + "\n]\n\n"

def lean_bool(b):
    return "true" if b else "false"


def extract():
    src = drop_disabled_branches(strip_comments(read(SRC)), "CPPUTEST_DISABLE_MEM_CORRUPTION_CHECK")
    src = drop_disabled_branches(src, "CPPUTEST_DISABLE_HEAP_POISON")
    hdr = drop_disabled_branches(strip_comments(read(HDR)), "CPPUTEST_DISABLE_MEM_CORRUPTION_CHECK")
    th = strip_comments(read(TH))
    tma = strip_comments(read(TMA))
    plug = strip_comments(read(PLUG))

    periods = period_names(hdr)

    m = re.search(r"#define\s+MEMORY_LEAK_HASH_TABLE_SIZE\s+(\d+)", th)
    if not m or not re.search(r"hash_prime\s*=\s*MEMORY_LEAK_HASH_TABLE_SIZE", hdr):
        raise TranslateError("hash_prime / MEMORY_LEAK_HASH_TABLE_SIZE not found")
    hash_prime = int(m.group(1))
    if not re.search(r"MemoryLeakDetectorList\s+table_\s*\[\s*hash_prime\s*\]", hdr):
        raise TranslateError("table_[hash_prime] not found")

    m = re.search(r"memory_corruption_buffer_size\s*=\s*(\d+)", hdr)
    if not m:
        raise TranslateError("memory_corruption_buffer_size not found")
    guard_size = int(m.group(1))

    m = re.search(r"static\s+const\s+char\s+GuardBytes\s*\[\s*\]\s*=\s*\{(.*?)\}", read(SRC), re.S)
    if not m:
        raise TranslateError("GuardBytes not found")
    guard = []
    for item in m.group(1).split(","):
        item = item.strip()
        mm = re.fullmatch(r"'(.)'", item)
        if mm:
            guard.append(ord(mm.group(1)))
        elif re.fullmatch(r"0[xX][0-9a-fA-F]+|\d+", item):
            guard.append(int(item, 0) & 0xFF)
        else:
            raise TranslateError("GuardBytes element not understood: " + item)
    if not guard:
        raise TranslateError("GuardBytes is empty")

    # the two guard loops
    want_add = "for(size_ti=0;i<memory_corruption_buffer_size;i++)memory[i]=GuardBytes[i%sizeof(GuardBytes)];"
    body = norm(function_body(src, r"MemoryLeakDetector::addMemoryCorruptionInformation\s*\(\s*char\s*\*\s*memory\s*\)\s*\{"))
    if body != want_add:
        raise TranslateError("addMemoryCorruptionInformation changed shape: " + body)
    want_valid = "for(size_ti=0;i<memory_corruption_buffer_size;i++)if(memory[i]!=GuardBytes[i%sizeof(GuardBytes)])returnfalse;returntrue;"
    body = norm(function_body(src, r"MemoryLeakDetector::validMemoryCorruptionInformation\s*\(\s*char\s*\*\s*memory\s*\)\s*\{"))
    if body != want_valid:
        raise TranslateError("validMemoryCorruptionInformation changed shape: " + body)
    m = re.search(r"addMemoryCorruptionInformation\s*\(\s*node->memory_\s*\+\s*node->size_\s*\)", src)
    m2 = re.search(r"validMemoryCorruptionInformation\s*\(\s*node->memory_\s*\+\s*node->size_\s*\)", src)
    if not m or not m2:
        raise TranslateError("the guard bytes are no longer placed/checked at node->memory_ + node->size_")

    # invalidateMemory
    body = norm(function_body(src, r"MemoryLeakDetector::invalidateMemory\s*\(\s*char\s*\*\s*memory\s*\)\s*\{"))
    m = re.fullmatch(r"MemoryLeakDetectorNode\*node=memoryTable_\.retrieveNode\(memory\);if\(node\)PlatformSpecificMemset\(memory,(0[xX][0-9a-fA-F]+|\d+),node->size_\);", body)
    if not m:
        raise TranslateError("invalidateMemory changed shape: " + body)
    poison = int(m.group(1), 0) & 0xFF

    # size functions
    body = norm(function_body(src, r"static\s+size_t\s+calculateVoidPointerAlignedSize\s*\(\s*size_t\s+size\s*\)\s*\{"))
    if body != "return(sizeof(void*)-(size%sizeof(void*)))+size;":
        raise TranslateError("calculateVoidPointerAlignedSize changed shape: " + body)
    body = norm(function_body(src, r"MemoryLeakDetector::sizeOfMemoryWithCorruptionInfo\s*\(\s*size_t\s+size\s*\)\s*\{"))
    if body != "returncalculateVoidPointerAlignedSize(size+memory_corruption_buffer_size);":
        raise TranslateError("sizeOfMemoryWithCorruptionInfo changed shape: " + body)

    # hash
    body = function_body(src, r"MemoryLeakDetectorTable::hash\s*\(\s*char\s*\*\s*memory\s*\)\s*\{")
    m = re.fullmatch(r"return\(unsignedlong\)\(\(size_t\)memory(%)hash_prime\);", norm(body))
    if not m:
        raise TranslateError("hash changed shape: " + norm(body))

    # isInPeriod
    body = function_body(src, r"MemoryLeakDetectorList::isInPeriod\s*\(\s*MemoryLeakDetectorNode\s*\*\s*node\s*,\s*MemLeakPeriod\s+period\s*\)\s*\{")
    m = re.fullmatch(r"\s*return\s+(.*?);\s*", body, re.S)
    if not m:
        raise TranslateError("isInPeriod is not a single return statement: " + body.strip())
    atoms = {"period": "period", "node->period_": "nodePeriod"}
    for p in periods:
        atoms["mem_leak_period_" + p] = "Period." + p
    in_period = translate_bool(m.group(1), atoms)

    # matchingAllocation
    body = function_body(src, r"MemoryLeakDetector::matchingAllocation\s*\(\s*TestMemoryAllocator\s*\*\s*alloc_allocator\s*,\s*TestMemoryAllocator\s*\*\s*free_allocator\s*\)\s*\{")
    body = re.sub(r"free_allocator\s*->\s*isOfEqualType\s*\(\s*alloc_allocator\s*\)", "equalTypeCall", body)
    stmts = [s.strip() for s in body.split(";") if s.strip()]
    matoms = {"doAllocationTypeChecking_": "typeChecking", "equalTypeCall": "equalType", "true": "true", "false": "false"}
    pp = ("alloc_allocator", "free_allocator")
    chain = []
    for s in stmts[:-1]:
        mm = re.fullmatch(r"if\s*\((.*)\)\s*return\s+(true|false)", s, re.S)
        if not mm:
            raise TranslateError("matchingAllocation: statement not understood: " + s)
        chain.append((translate_bool(mm.group(1), matoms, pp), mm.group(2)))
    mm = re.fullmatch(r"return\s+(.*)", stmts[-1], re.S)
    if not mm:
        raise TranslateError("matchingAllocation: last statement is not a return: " + stmts[-1])
    final = translate_bool(mm.group(1), matoms, pp)
    matching = ""
    for c, r in chain:
        matching += "if %s then %s\n  else " % (c, r)
    matching += final

    # allocator identity functions
    body = norm(function_body(tma, r"bool\s+TestMemoryAllocator::isOfEqualType\s*\(\s*TestMemoryAllocator\s*\*\s*allocator\s*\)\s*\{"))
    if body != "returnSimpleString::StrCmp(this->name(),allocator->name())==0;":
        raise TranslateError("isOfEqualType changed shape: " + body)
    body = norm(function_body(tma, r"TestMemoryAllocator\s*\*\s*TestMemoryAllocator::actualAllocator\s*\(\s*\)\s*\{"))
    if body != "returnthis;":
        raise TranslateError("TestMemoryAllocator::actualAllocator changed shape: " + body)
    for cls in ("MemoryLeakAllocator", "AccountingTestMemoryAllocator"):
        body = norm(function_body(tma, r"TestMemoryAllocator\s*\*\s*%s::actualAllocator\s*\(\s*\)\s*\{" % cls))
        if body != "returnoriginalAllocator_->actualAllocator();":
            raise TranslateError("%s::actualAllocator changed shape: %s" % (cls, body))
    # checkForCorruption compares the actual allocators of both sides
    body = norm(function_body(src, r"void\s+MemoryLeakDetector::checkForCorruption\s*\("))
    if "matchingAllocation(node->allocator_->actualAllocator(),allocator->actualAllocator())" not in body:
        raise TranslateError("checkForCorruption no longer compares node->allocator_->actualAllocator() with allocator->actualAllocator()")

    node_bytes = node_struct_bytes(hdr)
    wrappers = release_wrappers(plug)
    overloads = overload_forwarding(plug)
    plain_tab = fptr_table(plug, "turnOnDefaultNotThreadSafeNewDeleteOverloads")
    ts_tab = fptr_table(plug, "turnOnThreadSafeNewDeleteOverloads")
    rel_names = set(w[0] for w in wrappers)
    acq_names = []
    for _, fn in plain_tab + ts_tab:
        if fn not in rel_names and fn not in acq_names:
            acq_names.append(fn)
    acquires = acquire_wrappers(plug, acq_names)
    # malloc / realloc / free of C code reach the tables through these three functions
    for fn, ptr in (("cpputest_malloc_location_with_leak_detection", "malloc_fptr"), ("cpputest_realloc_location_with_leak_detection", "realloc_fptr"),
                    ("cpputest_free_location_with_leak_detection", "free_fptr")):
        b = norm(function_body(plug, r"%s\s*\([^)]*\)\s*\{" % fn))
        if not re.fullmatch(r"(return)?%s\((memory,)?(size|buffer),file,line\);" % ptr, b):
            raise TranslateError("%s no longer forwards to %s: %s" % (fn, ptr, b))

    t = HEADER % ("translate/extract_leakdetector.py", ", ".join([SRC, HDR, TH, TMA, PLUG, MRP, MRA]))
    t += "namespace Gen.LeakDetector\n\n"
    t += "/-- `enum MemLeakPeriod` (include/CppUTest/MemoryLeakDetector.h) -/\ninductive Period\n"
    for p in periods:
        t += "  | %s\n" % p
    t += "deriving DecidableEq, Repr, Inhabited\n\n"
    t += "/-- `MEMORY_LEAK_HASH_TABLE_SIZE` / `hash_prime` -/\ndef hashPrime : Nat := %d\n" % hash_prime
    t += "/-- `memory_corruption_buffer_size` -/\ndef guardSize : Nat := %d\n" % guard_size
    t += "/-- `static const char GuardBytes[]` -/\ndef guardBytes : List UInt8 := [%s]\n" % ", ".join("0x%02X" % b for b in guard)
    t += "/-- the byte `invalidateMemory` writes over the user bytes -/\ndef poisonByte : UInt8 := 0x%02X\n" % poison
    t += "/-- `sizeof(MemoryLeakDetectorNode)` on LP64, computed from the field list -/\ndef nodeStructBytes : Nat := %d\n" % node_bytes
    t += "/-- `sizeof(void*)` used by `calculateVoidPointerAlignedSize` -/\ndef pointerBytes : Nat := 8\n\n"
    t += "/-- `MemoryLeakDetectorTable::hash`: `(unsigned long)((size_t)memory % hash_prime)` with the table size as a parameter -/\n"
    t += "def hash (hash_prime : Nat) (memory : Nat) : Nat := memory % hash_prime\n\n"
    t += "/-- `MemoryLeakDetectorList::isInPeriod(node, period)`; `nodePeriod` is `node->period_` -/\n"
    t += "def isInPeriod (nodePeriod period : Period) : Bool :=\n  %s\n\n" % in_period
    t += "/-- `MemoryLeakDetector::matchingAllocation`: `samePointer` is `alloc_allocator == free_allocator`,\n"
    t += "    `typeChecking` is `doAllocationTypeChecking_`, `equalType` is `free_allocator->isOfEqualType(alloc_allocator)` -/\n"
    t += "def matchingAllocation (samePointer typeChecking equalType : Bool) : Bool :=\n  %s\n\n" % matching
    t += "/-- release wrappers of MemoryLeakWarningPlugin.cpp: name, `invalidateMemory` on the released pointer strictly before\n"
    t += "    `deallocMemory`, current-allocator getter, passes file/line, separately allocated node -/\n"
    t += "structure ReleaseWrapper where\n  name : String\n  invalidateThenDealloc : Bool\n  getter : String\n  withLocation : Bool\n  separateNode : Bool\n"
    t += "deriving DecidableEq, Repr, Inhabited\n\n"
    t += "def releaseWrappers : List ReleaseWrapper := [\n"
    t += ",\n".join('  { name := "%s", invalidateThenDealloc := %s, getter := "%s", withLocation := %s, separateNode := %s }'
                    % (n, lean_bool(a), g, lean_bool(b), lean_bool(c)) for n, a, g, b, c in wrappers)
    t += "\n]\n\n"
    t += "/-- every `operator new / new[] / delete / delete[]` defined in MemoryLeakWarningPlugin.cpp: signature, the function pointer it\n"
    t += "    forwards to, whether it passes file/line on -/\n"
    t += "structure Overload where\n  key : String\n  fptr : String\n  passesLocation : Bool\nderiving DecidableEq, Repr, Inhabited\n\n"
    t += "def overloads : List Overload := [\n"
    t += ",\n".join('  { key := "%s", fptr := "%s", passesLocation := %s }' % (k, f, lean_bool(l)) for k, f, l in overloads)
    t += "\n]\n\n"
    t += "/-- `turnOnDefaultNotThreadSafeNewDeleteOverloads`: function pointer := function -/\n"
    t += "def plainTable : List (String × String) := [\n" + ",\n".join('  ("%s", "%s")' % x for x in plain_tab) + "\n]\n\n"
    t += "/-- `turnOnThreadSafeNewDeleteOverloads` -/\n"
    t += "def threadSafeTable : List (String × String) := [\n" + ",\n".join('  ("%s", "%s")' % x for x in ts_tab) + "\n]\n\n"
    t += "/-- the acquiring functions behind the function pointers: current-allocator getter, passes file/line, separately\n"
    t += "    allocated node, `reallocMemory` instead of `allocMemory` -/\n"
    t += "structure AcquireWrapper where\n  name : String\n  getter : String\n  withLocation : Bool\n  separateNode : Bool\n  isRealloc : Bool\n"
    t += "deriving DecidableEq, Repr, Inhabited\n\n"
    t += "def acquireWrappers : List AcquireWrapper := [\n"
    t += ",\n".join('  { name := "%s", getter := "%s", withLocation := %s, separateNode := %s, isRealloc := %s }'
                    % (n, g, lean_bool(a), lean_bool(b), lean_bool(c)) for n, g, a, b, c in acquires)
    t += "\n]\n\n"
    install, remove = report_allocator_wiring()
    t += "/-- `MemoryReporterPlugin::setGlobalMemoryReportAllocators`, one entry per pair of statements:\n"
    t += "    `A.setRealAllocator(G()); S(&B);` as (A, G, S, B) -/\n"
    t += "def reportInstall : List (String × String × String × String) := [\n"
    t += ",\n".join('  ("%s", "%s", "%s", "%s")' % x for x in install) + "\n]\n\n"
    t += "/-- `MemoryReporterPlugin::removeGlobalMemoryReportAllocators`: `if (G() == &A) S(B.getRealAllocator());` as (G, A, S, B) -/\n"
    t += "def reportRemove : List (String × String × String × String) := [\n"
    t += ",\n".join('  ("%s", "%s", "%s", "%s")' % x for x in remove) + "\n]\n\nend Gen.LeakDetector\n"
    # ---- overload switching and current allocators (C04 growth)
    off_tab = fptr_table(plug, "turnOffNewDeleteOverloads")
    for tabname, tab in (("turnOffNewDeleteOverloads", off_tab), ("turnOnDefaultNotThreadSafeNewDeleteOverloads", plain_tab), ("turnOnThreadSafeNewDeleteOverloads", ts_tab)):
        if [k for k, _ in tab] != FPTRS:
            raise TranslateError("%s does not assign exactly the 11 function pointers in the known order: %r" % (tabname, [k for k, _ in tab]))
    inits, counter0 = static_initialisers(plug)
    sr = save_restore(plug)
    ov_ptr, ov_fns = overloaded_test(plug)
    normals = normal_wrappers(plug, [fn for _, fn in off_tab])
    fams, defaults, st_save, st_restore = current_allocator_wiring(tma)
    t = t.replace("\n\nend Gen.LeakDetector\n", "\n\n")
    t += lean_pairs("offTable", "`turnOffNewDeleteOverloads`: function pointer := function", off_tab)
    t += lean_pairs("staticInit", "initial values of the 11 function pointers and of their `saved_` copies (static initialisers)", inits)
    t += "/-- initial value of `save_counter` -/\ndef saveCounterInit : Int := %d\n\n" % counter0
    for fn, nm in (("saveAndDisableNewDeleteOverloads", "save"), ("restoreNewDeleteOverloads", "restore")):
        step, thr, pairs, tail = sr[fn]
        t += "/-- `%s`: `if (%ssave_counter > %d) return;` -/\ndef %sCounterStep : Int := %d\ndef %sReturnIfAbove : Int := %d\n" % (
            fn, "++" if step > 0 else "--", thr, nm, step, nm, thr)
        t += lean_pairs(nm + "Assignments", "`%s`: the assignments `dst = src`, in order" % fn, pairs)
        t += "/-- `%s`: the calls after the assignments -/\ndef %sThenCalls : List String := [%s]\n\n" % (fn, nm, ", ".join('"%s"' % x for x in tail))
    t += "/-- `areNewDeleteOverloaded`: `P == f1 || P == f2 ...` -/\ndef overloadedPtr : String := \"%s\"\ndef overloadedFns : List String := [%s]\n\n" % (
        ov_ptr, ", ".join('"%s"' % x for x in ov_fns))
    t += lean_pairs("normalWrappers", "the functions behind the pointers when the overloads are off: the platform call each one makes", normals)
    t += lean_pairs("cEntryPoints", "the C entry points of MemoryLeakWarningPlugin.cpp and the function pointer each forwards to", [
        ("cpputest_malloc_location_with_leak_detection", "malloc_fptr"), ("cpputest_realloc_location_with_leak_detection", "realloc_fptr"),
        ("cpputest_free_location_with_leak_detection", "free_fptr")])
    t += "/-- `setCurrent…AllocatorToDefault`: (function, setter it amounts to, default-allocator function) -/\n"
    t += "def defaultSetters : List (String × String × String) := [\n" + ",\n".join('  ("%s", "%s", "%s")' % x for x in fams) + "\n]\n\n"
    t += "/-- `default…Allocator()`: (function, name, alloc_name, free_name) of its static allocator -/\n"
    t += "def defaultAllocators : List (String × String × String × String) := [\n" + ",\n".join('  ("%s", "%s", "%s", "%s")' % x for x in defaults) + "\n]\n\n"
    t += lean_pairs("stashSave", "`GlobalMemoryAllocatorStash::save`: `field = getter()`", st_save)
    t += lean_pairs("stashRestore", "`GlobalMemoryAllocatorStash::restore`: `if (field) setter(field)`", st_restore)
    t += "end Gen.LeakDetector\n"
    return t


def run():
    text = extract()
    core.write_if_changed(os.path.join(core.LEAN, "CppUModel", "Gen", OUT), text)
    return []
