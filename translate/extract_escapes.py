"""Regenerates lean/CppUModel/Gen/EscapeTables.lean (C16, C20) from
  src/CppUTest/TeamCityTestOutput.cpp : the branch table of TeamCityTestOutput::printEscaped
  src/CppUTest/JUnitTestOutput.cpp    : the ordered replace list of JUnitTestOutput::encodeXmlText,
                                        the forbidden characters and replacement of encodeFileName,
                                        the literal pieces of createFileName
Each function is shape-checked: anything but the expected loop-free skeleton raises TranslateError
(handled by the check like a broken proof obligation)."""
import os, re
from .common import *

TC_SRC = "src/CppUTest/TeamCityTestOutput.cpp"
JU_SRC = "src/CppUTest/JUnitTestOutput.cpp"

_SIMPLE_ESC = {"n": 10, "r": 13, "t": 9, "0": 0, "\\": 92, "'": 39, '"': 34, "a": 7, "b": 8, "f": 12, "v": 11, "?": 63}


def c_unescape(body):
    """bytes of the inside of a C character or string literal"""
    out, i = [], 0
    while i < len(body):
        ch = body[i]
        if ch != "\\":
            b = ch.encode("utf-8")
            out.extend(b)
            i += 1
            continue
        i += 1
        if i >= len(body):
            raise TranslateError("dangling backslash in literal: " + body)
        e = body[i]
        if e in _SIMPLE_ESC:
            out.append(_SIMPLE_ESC[e]); i += 1
        elif e == "x":
            m = re.match(r"[0-9a-fA-F]+", body[i + 1:])
            if not m:
                raise TranslateError("bad \\x escape in literal: " + body)
            out.append(int(m.group(0), 16) & 255); i += 1 + len(m.group(0))
        elif e in "01234567":
            m = re.match(r"[0-7]{1,3}", body[i:])
            out.append(int(m.group(0), 8) & 255); i += len(m.group(0))
        else:
            raise TranslateError("unknown escape \\%s in literal: %s" % (e, body))
    return out


CHAR_LIT = r"'((?:\\.|[^'\\])+)'"
STR_LIT = r'"((?:\\.|[^"\\])*)"'


def char_value(text):
    m = re.fullmatch(CHAR_LIT, text)
    if not m:
        raise TranslateError("not a character literal: " + text)
    v = c_unescape(m.group(1))
    if len(v) != 1:
        raise TranslateError("character literal is not one byte: " + text)
    return v[0]


def squeeze(text):
    """remove whitespace outside character/string literals"""
    out = []
    pos = 0
    for m in re.finditer(CHAR_LIT + "|" + STR_LIT, text):
        out.append(re.sub(r"\s+", "", text[pos:m.start()]))
        out.append(m.group(0))
        pos = m.end()
    out.append(re.sub(r"\s+", "", text[pos:]))
    return "".join(out)


# ---------------------------------------------------------------- TeamCity printEscaped

def parse_cond(cond):
    """`(*s=='a')||(*s=='b')` -> [bytes]; parentheses optional"""
    chars = []
    for part in cond.split("||"):
        p = part
        while p.startswith("(") and p.endswith(")"):
            p = p[1:-1]
        m = re.fullmatch(r"\*s==(" + CHAR_LIT + ")", p)
        if not m:
            raise TranslateError("printEscaped: condition is not a disjunction of `*s == 'c'`: " + cond)
        chars.append(char_value(m.group(1)))
    return chars


def extract_teamcity():
    src = strip_comments(read(TC_SRC))
    body = squeeze(function_body(src, r"void\s+TeamCityTestOutput::printEscaped\s*\(\s*const\s+char\s*\*\s*s\s*\)\s*\{"))
    pre, post = "while(*s){charstr[3];", "printBuffer(str);s++;}"
    if not (body.startswith(pre) and body.endswith(post)):
        raise TranslateError("printEscaped: loop skeleton changed: " + body[:60] + " ... " + body[-40:])
    chain = body[len(pre):len(body) - len(post)]
    branches, bars = [], set()
    br = re.compile(r"if\((?P<cond>(?:" + CHAR_LIT + r"|[^'{}])*?)\)\{str\[0\]=(?P<c0>" + CHAR_LIT + r");str\[1\]=(?P<c1>\*s|" +
                    CHAR_LIT + r");str\[2\]=0;\}else")
    pos = 0
    while True:
        m = br.match(chain, pos)
        if not m:
            break
        chars = parse_cond(m.group("cond"))
        bars.add(char_value(m.group("c0")))
        second = None if m.group("c1") == "*s" else char_value(m.group("c1"))
        branches.append((chars, second))
        pos = m.end()
    rest = chain[pos:]
    if rest != "{str[0]=*s;str[1]=0;}":
        raise TranslateError("printEscaped: branch chain changed shape near: " + rest[:80])
    if not branches:
        raise TranslateError("printEscaped: no escaping branch found")
    if len(bars) != 1:
        raise TranslateError("printEscaped: branches use different escape characters: %r" % sorted(bars))
    return branches, bars.pop()


# ---------------------------------------------------------------- JUnit encodeXmlText / encodeFileName / createFileName

def extract_xml():
    src = strip_comments(read(JU_SRC))
    body = squeeze(function_body(src, r"SimpleString\s+JUnitTestOutput::encodeXmlText\s*\(\s*const\s+SimpleString\s*&\s*textbody\s*\)\s*\{"))
    pre, post = "SimpleStringbuf=textbody.asCharString();", "returnbuf;"
    if not (body.startswith(pre) and body.endswith(post)):
        raise TranslateError("encodeXmlText: skeleton changed: " + body[:80])
    mid = body[len(pre):len(body) - len(post)]
    call = re.compile(r"buf\.replace\(" + STR_LIT + "," + STR_LIT + r"\);")
    pos, reps = 0, []
    while pos < len(mid):
        m = call.match(mid, pos)
        if not m:
            raise TranslateError("encodeXmlText: statement is not buf.replace(\"..\",\"..\"): " + mid[pos:pos + 60])
        reps.append((c_unescape(m.group(1)), c_unescape(m.group(2))))
        pos = m.end()
    if not reps:
        raise TranslateError("encodeXmlText: no replace call")
    return reps


def extract_filename():
    src = strip_comments(read(JU_SRC))
    body = squeeze(function_body(src, r"SimpleString\s+JUnitTestOutput::encodeFileName\s*\(\s*const\s+SimpleString\s*&\s*fileName\s*\)\s*\{"))
    m = re.fullmatch(r"staticconstchar\*constforbiddenCharacters=" + STR_LIT +
                     r";SimpleStringresult=fileName;for\(constchar\*sym=forbiddenCharacters;\*sym;\+\+sym\)\{result\.replace\(\*sym,(" +
                     CHAR_LIT + r")\);\}returnresult;", body)
    if not m:
        raise TranslateError("encodeFileName changed shape: " + body[:120])
    forbidden = c_unescape(m.group(1))
    repl = char_value(m.group(2))
    body = squeeze(function_body(src, r"SimpleString\s+JUnitTestOutput::createFileName\s*\(\s*const\s+SimpleString\s*&\s*group\s*\)\s*\{"))
    m = re.fullmatch(r"SimpleStringfileName=" + STR_LIT + r";if\(!impl_->package_\.isEmpty\(\)\)\{fileName\+=impl_->package_;fileName\+=" +
                     STR_LIT + r";\}fileName\+=group;returnencodeFileName\(fileName\)\+" + STR_LIT + ";", body)
    if not m:
        raise TranslateError("createFileName changed shape: " + body[:160])
    return forbidden, repl, c_unescape(m.group(1)), c_unescape(m.group(2)), c_unescape(m.group(3))


def lst(bs):
    return "[" + ", ".join(str(b) for b in bs) + "]"


def extract():
    branches, bar = extract_teamcity()
    reps = extract_xml()
    forbidden, repl, prefix, sep, suffix = extract_filename()
    t = HEADER % ("translate/extract_escapes.py", TC_SRC + ", " + JU_SRC)
    t += "namespace Gen.EscapeTables\n"
    t += "/-- `TeamCityTestOutput::printEscaped`: the `if / else if` chain in source order. Each entry: the bytes the\n"
    t += "    branch tests for, and the byte written after the escape character (`none` = the byte itself). -/\n"
    t += "def tcBranches : List (List UInt8 × Option UInt8) := [%s]\n" % ", ".join(
        "(%s, %s)" % (lst(cs), "none" if s is None else "some %d" % s) for cs, s in branches)
    t += "/-- the escape character written first in every branch -/\n"
    t += "def tcBar : UInt8 := %d\n" % bar
    t += "/-- `JUnitTestOutput::encodeXmlText`: the `buf.replace(pattern, text)` calls in source order -/\n"
    t += "def xmlReplaces : List (List UInt8 × List UInt8) := [%s]\n" % ", ".join("(%s, %s)" % (lst(p), lst(r)) for p, r in reps)
    t += "/-- `JUnitTestOutput::encodeFileName`: forbidden characters (in source order) and their replacement -/\n"
    t += "def fileNameForbidden : List UInt8 := %s\n" % lst(forbidden)
    t += "def fileNameReplacement : UInt8 := %d\n" % repl
    t += "/-- `JUnitTestOutput::createFileName`: literal pieces -/\n"
    t += "def fileNamePrefix : List UInt8 := %s\n" % lst(prefix)
    t += "def fileNamePackageSep : List UInt8 := %s\n" % lst(sep)
    t += "def fileNameSuffix : List UInt8 := %s\n" % lst(suffix)
    t += "end Gen.EscapeTables\n"
    return t


def run():
    text = extract()
    core.write_if_changed(os.path.join(core.LEAN, "CppUModel", "Gen", "EscapeTables.lean"), text)
    return []
