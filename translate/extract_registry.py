"""Regenerates lean/CppUModel/Gen/RegistryShape.lean from TestFilter.cpp / Utest.cpp / TestRegistry.cpp /
TestResult.cpp (property C02).

* loop-free decision functions are TRANSLATED (tiny C++ boolean-expression / statement subset,
  symbolic execution of `bool x = e; if (c) x = a; else x = b; return e;`):
    TestFilter::match, UtestShell::shouldRun, TestRegistry::endOfGroup,
    the branch condition of IgnoredUtestShell::runOneTest, the modulus of the shuffle draw;
* the loops the hand-written model was written from are SHAPE-CHECKED (normalised text must be the
  text the model mirrors); any other shape raises TranslateError ("cannot translate"), which the
  check handles like a broken proof obligation.
"""
import os, re
from .common import *

F_FILTER = "src/CppUTest/TestFilter.cpp"
F_UTEST = "src/CppUTest/Utest.cpp"
F_REG = "src/CppUTest/TestRegistry.cpp"
F_RESULT = "src/CppUTest/TestResult.cpp"
F_RUNNER = "src/CppUTest/CommandLineTestRunner.cpp"
F_OUTPUT = "src/CppUTest/TestOutput.cpp"
F_ORDERED = "src/CppUTestExt/OrderedTest.cpp"

# ----------------------------------------------------------------------------- tiny expression parser

TOK = re.compile(r"\s*(->|&&|\|\||==|!=|<=|>=|[A-Za-z_][A-Za-z_0-9]*(?:::[A-Za-z_][A-Za-z_0-9]*)*|\d+|[()!?:.,+\-*/%<>=;{}])")


def tokens(text):
    out, pos = [], 0
    text = text.strip()
    while pos < len(text):
        m = TOK.match(text, pos)
        if not m:
            raise TranslateError("cannot tokenise: " + text[pos:pos + 30])
        out.append(m.group(1))
        pos = m.end()
    return out


class P:
    """expression := ternary; AST nodes are tuples; ('atom', text) for anything postfix-y"""

    def __init__(self, toks):
        self.t, self.i = toks, 0

    def peek(self):
        return self.t[self.i] if self.i < len(self.t) else None

    def eat(self, x=None):
        tok = self.peek()
        if tok is None or (x is not None and tok != x):
            raise TranslateError("expected %r, found %r" % (x, tok))
        self.i += 1
        return tok

    def expr(self):
        c = self.lor()
        if self.peek() == "?":
            self.eat("?"); a = self.expr(); self.eat(":"); b = self.expr()
            return ("ite", c, a, b)
        return c

    def lor(self):
        a = self.land()
        while self.peek() == "||":
            self.eat(); a = ("or", a, self.land())
        return a

    def land(self):
        a = self.eq()
        while self.peek() == "&&":
            self.eat(); a = ("and", a, self.eq())
        return a

    def eq(self):
        a = self.rel()
        while self.peek() in ("==", "!="):
            op = self.eat(); a = ("eq" if op == "==" else "ne", a, self.rel())
        return a

    def rel(self):
        a = self.add()
        while self.peek() in ("<", ">", "<=", ">="):
            op = self.eat(); a = ({"<": "lt", ">": "gt", "<=": "le", ">=": "ge"}[op], a, self.add())
        return a

    def add(self):
        a = self.unary()
        while self.peek() in ("+", "-"):
            op = self.eat(); a = ("add" if op == "+" else "sub", a, self.unary())
        return a

    def unary(self):
        if self.peek() == "!":
            self.eat(); return ("not", self.unary())
        return self.postfix()

    def postfix(self):
        tok = self.peek()
        if tok == "(":
            self.eat("("); a = self.expr(); self.eat(")")
            node = ("paren", a)
        elif tok is not None and re.match(r"[A-Za-z_\d]", tok):
            node = ("atom", self.eat())
        else:
            raise TranslateError("unexpected token %r" % tok)
        while self.peek() in (".", "->", "("):
            if self.peek() == "(":
                self.eat("("); args = []
                if self.peek() != ")":
                    args.append(self.expr())
                    while self.peek() == ",":
                        self.eat(); args.append(self.expr())
                self.eat(")")
                node = ("call", node, tuple(args))
            else:
                op = self.eat(); node = ("member", op, node, self.eat())
        return node


def text_of(n):
    k = n[0]
    if k == "atom": return n[1]
    if k == "paren": return "(" + text_of(n[1]) + ")"
    if k == "not": return "!" + text_of(n[1])
    if k == "call": return text_of(n[1]) + "(" + ",".join(text_of(a) for a in n[2]) + ")"
    if k == "member": return text_of(n[2]) + n[1] + n[3]
    if k == "ite": return text_of(n[1]) + "?" + text_of(n[2]) + ":" + text_of(n[3])
    sym = {"or": "||", "and": "&&", "eq": "==", "ne": "!=", "add": "+", "sub": "-", "lt": "<", "gt": ">", "le": "<=", "ge": ">="}[k]
    return text_of(n[1]) + sym + text_of(n[2])


def lean_bool(n, atoms, env):
    """AST -> Lean Bool expression; `atoms` maps canonical C++ text to a Lean parameter"""
    t = text_of(n)
    if t in atoms:
        return atoms[t]
    k = n[0]
    if k == "atom":
        if n[1] in env: return env[n[1]]
        if n[1] in ("true", "false"): return n[1]
        raise TranslateError("unknown operand `%s`" % n[1])
    if k == "paren": return lean_bool(n[1], atoms, env)
    if k == "not": return "(!%s)" % lean_bool(n[1], atoms, env)
    if k == "and": return "(%s && %s)" % (lean_bool(n[1], atoms, env), lean_bool(n[2], atoms, env))
    if k == "or": return "(%s || %s)" % (lean_bool(n[1], atoms, env), lean_bool(n[2], atoms, env))
    if k == "ite": return "(if %s then %s else %s)" % tuple(lean_bool(x, atoms, env) for x in n[1:4])
    if k == "eq": return "(%s == %s)" % (lean_bool(n[1], atoms, env), lean_bool(n[2], atoms, env))
    if k == "ne": return "(%s != %s)" % (lean_bool(n[1], atoms, env), lean_bool(n[2], atoms, env))
    if k in ("lt", "gt", "le", "ge"):
        # integer comparison: both operands must be named integer atoms
        a, b = text_of(n[1]), text_of(n[2])
        if a in atoms and b in atoms:
            return "(decide (%s %s %s))" % (atoms[a], {"lt": "<", "gt": ">", "le": "≤", "ge": "≥"}[k], atoms[b])
    raise TranslateError("outside the translated subset: `%s`" % t)


def lean_nat(n, vars_):
    k = n[0]
    if k == "atom":
        if n[1].isdigit(): return n[1]
        if n[1] in vars_: return vars_[n[1]]
        raise TranslateError("unknown integer operand `%s`" % n[1])
    if k == "paren": return lean_nat(n[1], vars_)
    if k == "add": return "(%s + %s)" % (lean_nat(n[1], vars_), lean_nat(n[2], vars_))
    raise TranslateError("integer expression outside the translated subset: `%s`" % text_of(n))


def parse_expr(text):
    p = P(tokens(text))
    e = p.expr()
    if p.peek() is not None:
        raise TranslateError("trailing tokens in expression: " + text)
    return e


def exec_body(body, atoms):
    """symbolic execution of:  (bool x = e;)* (if (c) x = e; [else x = e;])* return e;"""
    env = {}
    s = body.strip()
    while s:
        m = re.match(r"bool\s+(\w+)\s*=\s*([^;]+);", s)
        if m:
            env[m.group(1)] = lean_bool(parse_expr(m.group(2)), atoms, env)
            s = s[m.end():].strip(); continue
        m = re.match(r"if\s*\(", s)
        if m:
            depth, j = 0, m.end() - 1
            while True:
                if s[j] == "(": depth += 1
                elif s[j] == ")":
                    depth -= 1
                    if depth == 0: break
                j += 1
            cond = lean_bool(parse_expr(s[m.end():j]), atoms, env)
            rest = s[j + 1:].strip()
            m1 = re.match(r"(\w+)\s*=\s*([^;]+);", rest)
            if not m1 or m1.group(1) not in env:
                raise TranslateError("if-branch is not an assignment to a declared bool: " + rest[:40])
            var, a = m1.group(1), lean_bool(parse_expr(m1.group(2)), atoms, env)
            rest = rest[m1.end():].strip()
            b = env[var]
            m2 = re.match(r"else\s+(\w+)\s*=\s*([^;]+);", rest)
            if m2:
                if m2.group(1) != var:
                    raise TranslateError("else-branch assigns another variable")
                b = lean_bool(parse_expr(m2.group(2)), atoms, env)
                rest = rest[m2.end():].strip()
            env[var] = "(if %s then %s else %s)" % (cond, a, b)
            s = rest; continue
        m = re.match(r"return\s+([^;]+);\s*$", s)
        if m:
            return lean_bool(parse_expr(m.group(1)), atoms, env)
        raise TranslateError("statement outside the translated subset: " + s[:50])
    raise TranslateError("no return statement")


def norm(s):
    return re.sub(r"\s+", "", s)


def norm_keep_strings(s):
    """whitespace removed outside string/char literals only"""
    out = []
    for m in re.finditer(r'"(?:\\.|[^"\\])*"|\'(?:\\.|[^\'\\])*\'|[^"\']+', s):
        t = m.group(0)
        out.append(t if t[0] in "\"'" else re.sub(r"\s+", "", t))
    return "".join(out)


def expect_shape_s(what, body, want):
    got = norm_keep_strings(body)
    if got != want:
        raise TranslateError("%s changed shape: `%s` (the model was written from `%s`)" % (what, got, want))


def expect_shape(what, body, want):
    if norm(body) != want:
        raise TranslateError("%s changed shape: `%s` (the model was written from `%s`)" % (what, norm(body), want))


# ----------------------------------------------------------------------------- extraction

def extract():
    filt = strip_comments(read(F_FILTER))
    utest = strip_comments(read(F_UTEST))
    reg = strip_comments(read(F_REG))
    res = strip_comments(read(F_RESULT))

    # --- translated decision functions
    body = function_body(filt, r"bool\s+TestFilter::match\s*\(\s*const\s+SimpleString\s*&\s*name\s*\)\s*const\s*\{")
    filter_match = exec_body(body, {"strictMatching_": "strict", "invertMatching_": "invert",
                                    "name==filter_": "eq", "filter_==name": "eq",
                                    "name.contains(filter_)": "contains"})

    body = function_body(utest, r"bool\s+UtestShell::shouldRun\s*\([^)]*\)\s*const\s*\{")
    should_run = exec_body(body, {"match(group_,groupFilters)": "matchGroup", "match(name_,nameFilters)": "matchName"})

    body = function_body(reg, r"bool\s+TestRegistry::endOfGroup\s*\(\s*UtestShell\s*\*\s*test\s*\)\s*\{")
    end_of_group = exec_body(body, {"!test": "testNull", "!test->getNext()": "nextNull",
                                    "test->getGroup()!=test->getNext()->getGroup()": "groupDiffers",
                                    "test->getNext()->getGroup()!=test->getGroup()": "groupDiffers"})

    body = function_body(utest, r"void\s+IgnoredUtestShell::runOneTest\s*\([^)]*\)\s*\{")
    m = re.match(r"if\((.*)\)\{UtestShell::runOneTest\(plugin,result\);return;\}result\.countIgnored\(\);$", norm(body))
    if not m:
        raise TranslateError("IgnoredUtestShell::runOneTest changed shape: " + norm(body))
    ignored_runs = lean_bool(parse_expr(m.group(1)), {"runIgnored_": "runIgnored"}, {})
    body = function_body(utest, r"void\s+IgnoredUtestShell::setRunIgnored\s*\(\s*\)\s*\{")
    expect_shape("IgnoredUtestShell::setRunIgnored", body, "runIgnored_=true;")

    # the shuffle draw `((size_t) PlatformSpecificRand()) % <modulus>`: the whole method (and swap / reverse /
    # relinkTestsInOrder) is translated statement by statement from the clang AST by extract_ptrarray.py; here only the
    # modulus the hand-written `shuffleLoop` uses is read (the loop variable may have any name)
    body = function_body(utest, r"void\s+UtestShellPointerArray::shuffle\s*\(\s*size_t\s+\w+\s*\)\s*\{")
    m = re.search(r"for\(size_t(\w+)=count_-1;.*?PlatformSpecificRand\(\)\)*%([^;]*);", norm(body))
    if not m:
        raise TranslateError("UtestShellPointerArray::shuffle changed shape: " + norm(body))
    loopvar = m.group(1)
    modulus = lean_nat(parse_expr(m.group(2)), {loopvar: "i"})

    # --- shape checks of what the hand-written model mirrors
    expect_shape("UtestShell::match",
                 function_body(utest, r"bool\s+UtestShell::match\s*\([^)]*\)\s*const\s*\{"),
                 "if(filters==NULLPTR)returntrue;for(;filters!=NULLPTR;filters=filters->getNext())"
                 "if(filters->match(target))returntrue;returnfalse;")
    expect_shape("TestRegistry::runAllTests",
                 function_body(reg, r"void\s+TestRegistry::runAllTests\s*\(\s*TestResult\s*&\s*result\s*\)\s*\{"),
                 "boolgroupStart=true;result.testsStarted();"
                 "for(UtestShell*test=tests_;test!=NULLPTR;test=test->getNext()){"
                 "if(runInSeperateProcess_)test->setRunInSeperateProcess();if(runIgnored_)test->setRunIgnored();"
                 "if(groupStart){result.currentGroupStarted(test);groupStart=false;}"
                 "result.countTest();"
                 "if(testShouldRun(test,result)){result.currentTestStarted(test);test->runOneTest(firstPlugin_,result);"
                 "result.currentTestEnded(test);}"
                 "if(endOfGroup(test)){groupStart=true;result.currentGroupEnded(test);}}"
                 "result.testsEnded();currentRepetition_++;")
    expect_shape("TestRegistry::testShouldRun",
                 function_body(reg, r"bool\s+TestRegistry::testShouldRun\s*\([^)]*\)\s*\{"),
                 "if(test->shouldRun(groupFilters_,nameFilters_))returntrue;else{result.countFilteredOut();returnfalse;}")
    expect_shape("TestRegistry::addTest", function_body(reg, r"void\s+TestRegistry::addTest\s*\([^)]*\)\s*\{"),
                 "tests_=test->addTest(tests_);")
    expect_shape("TestRegistry::shuffleTests", function_body(reg, r"void\s+TestRegistry::shuffleTests\s*\([^)]*\)\s*\{"),
                 "UtestShellPointerArrayarray(getFirstTest());array.shuffle(seed);tests_=array.getFirstTest();")
    expect_shape("TestRegistry::reverseTests", function_body(reg, r"void\s+TestRegistry::reverseTests\s*\(\s*\)\s*\{"),
                 "UtestShellPointerArrayarray(getFirstTest());array.reverse();tests_=array.getFirstTest();")
    expect_shape("TestRegistry::setRunIgnored", function_body(reg, r"void\s+TestRegistry::setRunIgnored\s*\(\s*\)\s*\{"),
                 "runIgnored_=true;")
    body = norm(function_body(utest, r"void\s+UtestShell::runOneTest\s*\([^)]*\)\s*\{"))
    if not body.startswith("hasFailed_=false;result.countRun();HelperTestRunInforunInfo(this,plugin,&result);"):
        raise TranslateError("UtestShell::runOneTest changed shape: " + body)
    expect_shape("UtestShell::addTest", function_body(utest, r"UtestShell\s*\*\s*UtestShell::addTest\s*\([^)]*\)\s*\{"),
                 "next_=test;returnthis;")
    expect_shape("UtestShell::countTests", function_body(utest, r"size_t\s+UtestShell::countTests\s*\(\s*\)\s*\{"),
                 "returnnext_?next_->countTests()+1:1;")
    m = re.search(r"UtestShellPointerArray::UtestShellPointerArray\s*\(\s*UtestShell\s*\*\s*firstTest\s*\)[^{]*\{", utest)
    if not m:
        raise TranslateError("UtestShellPointerArray constructor not found")
    expect_shape("UtestShellPointerArray constructor",
                 function_body(utest, r"UtestShellPointerArray::UtestShellPointerArray\s*\(\s*UtestShell\s*\*\s*firstTest\s*\)[^{]*\{"),
                 "count_=(firstTest)?firstTest->countTests():0;if(count_==0)return;arrayOfTests_=newUtestShell*[count_];"
                 "UtestShell*currentTest=firstTest;for(size_ti=0;i<count_;i++){arrayOfTests_[i]=currentTest;"
                 "currentTest=currentTest->getNext();}")
    expect_shape("UtestShellPointerArray::getFirstTest",
                 function_body(utest, r"UtestShell\s*\*\s*UtestShellPointerArray::getFirstTest\s*\(\s*\)\s*const\s*\{"),
                 "returnget(0);")
    expect_shape("UtestShellPointerArray::get",
                 function_body(utest, r"UtestShell\s*\*\s*UtestShellPointerArray::get\s*\([^)]*\)\s*const\s*\{"),
                 "if(index>=count_)returnNULLPTR;returnarrayOfTests_[index];")
    # --- registry queries, un-registration, per-shell run-ignored
    expect_shape("TestRegistry::unDoLastAddTest", function_body(reg, r"void\s+TestRegistry::unDoLastAddTest\s*\(\s*\)\s*\{"),
                 "tests_=tests_?tests_->getNext():NULLPTR;")
    expect_shape("TestRegistry::findTestWithName",
                 function_body(reg, r"UtestShell\s*\*\s*TestRegistry::findTestWithName\s*\([^)]*\)\s*\{"),
                 "UtestShell*current=tests_;while(current){if(current->getName()==name)returncurrent;"
                 "current=current->getNext();}returnNULLPTR;")
    expect_shape("TestRegistry::findTestWithGroup",
                 function_body(reg, r"UtestShell\s*\*\s*TestRegistry::findTestWithGroup\s*\([^)]*\)\s*\{"),
                 "UtestShell*current=tests_;while(current){if(current->getGroup()==group)returncurrent;"
                 "current=current->getNext();}returnNULLPTR;")
    expect_shape("TestRegistry::countTests", function_body(reg, r"size_t\s+TestRegistry::countTests\s*\(\s*\)\s*\{"),
                 "returntests_?tests_->countTests():0;")
    expect_shape("TestRegistry::getTestWithNext",
                 function_body(reg, r"UtestShell\s*\*\s*TestRegistry::getTestWithNext\s*\([^)]*\)\s*\{"),
                 "UtestShell*current=tests_;while(current&&current->getNext()!=test)current=current->getNext();returncurrent;")
    expect_shape("IgnoredUtestShell::willRun", function_body(utest, r"bool\s+IgnoredUtestShell::willRun\s*\(\s*\)\s*const\s*\{"),
                 "if(runIgnored_)returnUtestShell::willRun();returnfalse;")
    expect_shape("UtestShell::willRun", function_body(utest, r"bool\s+UtestShell::willRun\s*\(\s*\)\s*const\s*\{"), "returntrue;")
    expect_shape("UtestShell::setRunIgnored", function_body(utest, r"void\s+UtestShell::setRunIgnored\s*\(\s*\)\s*\{"), "")

    # --- list modes (string literals compared verbatim)
    reg_s = strip_comments(read(F_REG))
    expect_shape_s("TestRegistry::listTestGroupNames",
                   function_body(reg_s, r"void\s+TestRegistry::listTestGroupNames\s*\([^)]*\)\s*\{"),
                   'SimpleStringgroupList;for(UtestShell*test=tests_;test!=NULLPTR;test=test->getNext()){SimpleStringgname;'
                   'gname+="#";gname+=test->getGroup();gname+="#";if(!groupList.contains(gname)){groupList+=gname;groupList+=" ";}}'
                   'groupList.replace("#","");if(groupList.endsWith(" "))groupList=groupList.subString(0,groupList.size()-1);'
                   'result.print(groupList.asCharString());')
    expect_shape_s("TestRegistry::listTestGroupAndCaseNames",
                   function_body(reg_s, r"void\s+TestRegistry::listTestGroupAndCaseNames\s*\([^)]*\)\s*\{"),
                   'SimpleStringgroupAndNameList;for(UtestShell*test=tests_;test!=NULLPTR;test=test->getNext()){'
                   'if(testShouldRun(test,result)){SimpleStringgroupAndName;groupAndName+="#";groupAndName+=test->getGroup();'
                   'groupAndName+=".";groupAndName+=test->getName();groupAndName+="#";'
                   'if(!groupAndNameList.contains(groupAndName)){groupAndNameList+=groupAndName;groupAndNameList+=" ";}}}'
                   'groupAndNameList.replace("#","");if(groupAndNameList.endsWith(" "))'
                   'groupAndNameList=groupAndNameList.subString(0,groupAndNameList.size()-1);'
                   'result.print(groupAndNameList.asCharString());')
    expect_shape_s("TestRegistry::listTestLocations",
                   function_body(reg_s, r"void\s+TestRegistry::listTestLocations\s*\([^)]*\)\s*\{"),
                   'SimpleStringtestLocations;for(UtestShell*test=tests_;test!=NULLPTR;test=test->getNext()){SimpleStringtestLocation;'
                   'testLocation+=test->getGroup();testLocation+=".";testLocation+=test->getName();testLocation+=".";'
                   'testLocation+=test->getFile();testLocation+=".";testLocation+=StringFromFormat("%d\\n",(int)test->getLineNumber());'
                   'testLocations+=testLocation;}result.print(testLocations.asCharString());')

    # --- the repeat loop of the command line runner
    runner = strip_comments(read(F_RUNNER))
    expect_shape_s("CommandLineTestRunner::runAllTests",
                   function_body(runner, r"int\s+CommandLineTestRunner::runAllTests\s*\(\s*\)\s*\{"),
                   'initializeTestRun();size_tloopCount=0;size_tfailedTestCount=0;size_tfailedExecutionCount=0;'
                   'size_trepeatCount=arguments_->getRepeatCount();'
                   'if(arguments_->isListingTestGroupNames()){TestResulttr(*output_);registry_->listTestGroupNames(tr);return0;}'
                   'if(arguments_->isListingTestGroupAndCaseNames()){TestResulttr(*output_);registry_->listTestGroupAndCaseNames(tr);return0;}'
                   'if(arguments_->isListingTestLocations()){TestResulttr(*output_);registry_->listTestLocations(tr);return0;}'
                   'if(arguments_->isReversing())registry_->reverseTests();'
                   'if(arguments_->isShuffling()){output_->print("Test order shuffling enabled with seed: ");'
                   'output_->print(arguments_->getShuffleSeed());output_->print("\\n");}'
                   'while(loopCount++<repeatCount){if(arguments_->isShuffling())registry_->shuffleTests(arguments_->getShuffleSeed());'
                   'output_->printTestRun(loopCount,repeatCount);TestResulttr(*output_);registry_->runAllTests(tr);'
                   'failedTestCount+=tr.getFailureCount();if(tr.isFailure()){failedExecutionCount++;}}'
                   'return(int)(failedTestCount!=0?failedTestCount:failedExecutionCount);')
    body = norm(function_body(runner, r"void\s+CommandLineTestRunner::initializeTestRun\s*\(\s*\)\s*\{"))
    for part in ("registry_->setGroupFilters(arguments_->getGroupFilters());", "registry_->setNameFilters(arguments_->getNameFilters());",
                 "if(arguments_->isRunIgnored())registry_->setRunIgnored();"):
        if part not in body:
            raise TranslateError("CommandLineTestRunner::initializeTestRun changed shape: `%s` lacks `%s`" % (body, part))
    out_s = strip_comments(read(F_OUTPUT))
    expect_shape_s("TestOutput::printTestRun", function_body(out_s, r"void\s+TestOutput::printTestRun\s*\([^)]*\)\s*\{"),
                   'if(total>1){print("Test run ");print(number);print(" of ");print(total);print("\\n");}')

    # --- TEST_ORDERED (OrderedTest.cpp): the three decisions are TRANSLATED, the pointer updates shape-checked
    od = strip_comments(read(F_ORDERED))
    body = norm(function_body(od, r"void\s+OrderedTestShell::addOrderedTestToHead\s*\([^)]*\)\s*\{"))
    m = re.match(r"TestRegistry\*reg=TestRegistry::getCurrentRegistry\(\);UtestShell\*head=getOrderedTestHead\(\);"
                 r"if\((.*)\)\{reg->addTest\(test\);\}else\{reg->getTestWithNext\(head\)->addTest\(test\);test->addTest\(head\);\}"
                 r"test->_nextOrderedTest=getOrderedTestHead\(\);setOrderedTestHead\(test\);$", body)
    if not m:
        raise TranslateError("OrderedTestShell::addOrderedTestToHead changed shape: " + body)
    first_null = {"NULLPTR==reg->getFirstTest()": "firstNull", "reg->getFirstTest()==NULLPTR": "firstNull", "!reg->getFirstTest()": "firstNull",
                  "head==reg->getFirstTest()": "headIsFirst", "reg->getFirstTest()==head": "headIsFirst"}
    ordered_front = lean_bool(parse_expr(m.group(1)), first_null, {})
    body = norm(function_body(od, r"void\s+OrderedTestInstaller::addOrderedTestInOrder\s*\([^)]*\)\s*\{"))
    m = re.match(r"if\((.*)\)OrderedTestShell::addOrderedTestToHead\(test\);elseaddOrderedTestInOrderNotAtHeadPosition\(test\);$", body)
    if not m:
        raise TranslateError("OrderedTestInstaller::addOrderedTestInOrder changed shape: " + body)
    ordered_before_head = lean_bool(parse_expr(m.group(1)), {"test->getLevel()": "testLevel",
                                                              "OrderedTestShell::getOrderedTestHead()->getLevel()": "headLevel"}, {})
    body = norm(function_body(od, r"void\s+OrderedTestInstaller::addOrderedTestInOrderNotAtHeadPosition\s*\([^)]*\)\s*\{"))
    m = re.match(r"OrderedTestShell\*current=OrderedTestShell::getOrderedTestHead\(\);while\(current->getNextOrderedTest\(\)\)\{"
                 r"if\((.*)\)\{test->addOrderedTest\(current->getNextOrderedTest\(\)\);current->addOrderedTest\(test\);return;\}"
                 r"current=current->getNextOrderedTest\(\);\}"
                 r"test->addOrderedTest\(current->getNextOrderedTest\(\)\);current->addOrderedTest\(test\);$", body)
    if not m:
        raise TranslateError("OrderedTestInstaller::addOrderedTestInOrderNotAtHeadPosition changed shape: " + body)
    ordered_stop = lean_bool(parse_expr(m.group(1)), {"current->getNextOrderedTest()->getLevel()": "nextLevel",
                                                       "test->getLevel()": "testLevel"}, {})
    body = norm(function_body(od, r"OrderedTestInstaller::OrderedTestInstaller\s*\([^)]*\)\s*\{"))
    m = re.match(r"((?:test\.set\w+\(\w+\);)*)if\(OrderedTestShell::firstOrderedTest\(\)\)OrderedTestShell::addOrderedTestToHead\(&test\);"
                 r"elseaddOrderedTestInOrder\(&test\);$", body)
    want = sorted(["test.setTestName(testName)", "test.setGroupName(groupName)", "test.setFileName(fileName)",
                   "test.setLineNumber(lineNumber)", "test.setLevel(level)"])
    if not m or sorted(x for x in m.group(1).split(";") if x) != want:
        raise TranslateError("OrderedTestInstaller constructor changed shape: " + body)
    expect_shape("OrderedTestShell::firstOrderedTest", function_body(od, r"bool\s+OrderedTestShell::firstOrderedTest\s*\(\s*\)\s*\{"),
                 "return(getOrderedTestHead()==NULLPTR);")
    expect_shape("OrderedTestShell::addOrderedTest",
                 function_body(od, r"OrderedTestShell\s*\*\s*OrderedTestShell::addOrderedTest\s*\([^)]*\)\s*\{"),
                 "UtestShell::addTest(test);_nextOrderedTest=test;returnthis;")
    expect_shape("OrderedTestShell::getNextOrderedTest",
                 function_body(od, r"OrderedTestShell\s*\*\s*OrderedTestShell::getNextOrderedTest\s*\(\s*\)\s*\{"), "return_nextOrderedTest;")
    expect_shape("OrderedTestShell::getOrderedTestHead",
                 function_body(od, r"OrderedTestShell\s*\*\s*OrderedTestShell::getOrderedTestHead\s*\(\s*\)\s*\{"), "return_orderedTestsHead;")
    expect_shape("OrderedTestShell::setOrderedTestHead", function_body(od, r"void\s+OrderedTestShell::setOrderedTestHead\s*\([^)]*\)\s*\{"),
                 "_orderedTestsHead=test;")
    expect_shape("OrderedTestShell::getLevel", function_body(od, r"int\s+OrderedTestShell::getLevel\s*\(\s*\)\s*\{"), "return_level;")
    expect_shape("OrderedTestShell::setLevel", function_body(od, r"void\s+OrderedTestShell::setLevel\s*\([^)]*\)\s*\{"), "_level=level;")
    expect_shape("TestRegistry::getFirstTest", function_body(reg, r"UtestShell\s*\*\s*TestRegistry::getFirstTest\s*\(\s*\)\s*\{"), "returntests_;")

    for fn, field in (("countTest", "testCount_"), ("countRun", "runCount_"),
                      ("countFilteredOut", "filteredOutCount_"), ("countIgnored", "ignoredCount_")):
        expect_shape("TestResult::" + fn, function_body(res, r"void\s+TestResult::%s\s*\(\s*\)\s*\{" % fn), field + "++;")

    text = HEADER % ("translate/extract_registry.py", "%s, %s, %s, %s" % (F_FILTER, "src/CppUTest/Utest.cpp", F_REG, F_ORDERED))
    text += "namespace Gen.Registry\n"
    text += "def filterMatch (strict invert eq contains : Bool) : Bool :=\n  %s\n" % filter_match
    text += "def shouldRun (matchGroup matchName : Bool) : Bool :=\n  %s\n" % should_run
    text += "def endOfGroup (testNull nextNull groupDiffers : Bool) : Bool :=\n  %s\n" % end_of_group
    text += "def ignoredRuns (runIgnored : Bool) : Bool :=\n  %s\n" % ignored_runs
    text += "def shuffleModulus (i : Nat) : Nat :=\n  %s\n" % modulus
    text += "def orderedAddAtFront (firstNull headIsFirst : Bool) : Bool :=\n  %s\n" % ordered_front
    text += "def orderedBeforeHead (testLevel headLevel : Int) : Bool :=\n  %s\n" % ordered_before_head
    text += "def orderedStopBefore (nextLevel testLevel : Int) : Bool :=\n  %s\n" % ordered_stop
    text += "end Gen.Registry\n"
    return text


def run():
    text = extract()
    core.write_if_changed(os.path.join(core.LEAN, "CppUModel", "Gen", "RegistryShape.lean"), text)
    return []
