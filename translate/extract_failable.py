"""Regenerates lean/CppUModel/Gen/FailableConstants.lean (the two enum constants of the malloc countdown) from
src/CppUTest/TestHarness_c.cpp.  The function BODIES the C15 model was written from are translated by
translate/extract_failable_code.py (Gen/FailableCode.lean); the textual shape checks that used to live here
are gone, so a semantically neutral rewrite of those bodies is no longer reported."""
import os, re
from .common import *

SRC_A = "src/CppUTest/TestMemoryAllocator.cpp"
SRC_C = "src/CppUTest/TestHarness_c.cpp"


def norm(s):
    return re.sub(r"\s+", "", s)


def extract():
    a = strip_comments(read(SRC_A))
    c = strip_comments(read(SRC_C))
    m = re.search(r"enum\s*\{\s*NO_COUNTDOWN\s*=\s*(-?\d+)\s*,\s*OUT_OF_MEMORRY\s*=\s*(-?\d+)\s*\}", c)
    if not m:
        raise TranslateError("enum { NO_COUNTDOWN, OUT_OF_MEMORRY } not found")
    no_cd, oom = int(m.group(1)), int(m.group(2))
    m = re.search(r"static\s+int\s+malloc_out_of_memory_counter\s*=\s*(\w+)\s*;", c)
    if not m or m.group(1) != "NO_COUNTDOWN":
        raise TranslateError("initial value of malloc_out_of_memory_counter is not NO_COUNTDOWN")
    # constructor: head_(NULLPTR), currentAllocNumber_(0)
    if not re.search(r"head_\s*\(\s*NULLPTR\s*\)\s*,\s*currentAllocNumber_\s*\(\s*(0)\s*\)", a):
        raise TranslateError("FailableMemoryAllocator constructor no longer starts with head_(NULLPTR), currentAllocNumber_(0)")
    text = HEADER % ("translate/extract_failable.py", SRC_C)
    text += "namespace Gen.Failable\n"
    text += "def noCountdown : Int := %d\n" % no_cd
    text += "def outOfMemory : Int := %d\n" % oom
    text += "end Gen.Failable\n"
    return text


def run():
    text = extract()
    core.write_if_changed(os.path.join(core.LEAN, "CppUModel", "Gen", "FailableConstants.lean"), text)
    return []
