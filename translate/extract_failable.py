"""Regenerates lean/CppUModel/Gen/FailableConstants.lean (the two enum constants of the malloc countdown) from
src/CppUTest/TestHarness_c.cpp.  The function BODIES the C15 model was written from are translated by
translate/extract_failable_code.py (Gen/FailableCode.lean); the textual shape checks that used to live here
are gone, so a semantically neutral rewrite of those bodies is no longer reported."""
import os, re
from .common import *

SRC_A = "src/CppUTest/TestMemoryAllocator.cpp"
SRC_C = "src/CppUTest/TestHarness_c.cpp"
SRC_P = "src/CppUTest/MemoryLeakWarningPlugin.cpp"

NEW_FNS = ["operator_new", "operator_new_nothrow", "operator_new_debug",
           "operator_new_array", "operator_new_array_nothrow", "operator_new_array_debug"]


def norm(s):
    return re.sub(r"\s+", "", s)


def throws_on_null(p, fn):
    """does the tracked operator-new function `fn` turn a NULL from the allocator into std::bad_alloc?  Two body shapes are
    understood (behind an optional `MemLeakScopedMutex lock;`): `return <detector>->allocMemory(...);` (NULL handed through) and
    `void* memory = <detector>->allocMemory(...); UT_THROW_BAD_ALLOC_WHEN_NULL(memory); return memory;`"""
    b = norm(function_body(p, r"static\s+void\s*\*\s*%s\s*\([^)]*\)[^{;]*\{" % fn))
    if fn.startswith("threadsafe_"):
        if not b.startswith("MemLeakScopedMutexlock;"):
            raise TranslateError("%s no longer starts with `MemLeakScopedMutex lock;`" % fn)
        b = b[len("MemLeakScopedMutexlock;"):]
    call = r"MemoryLeakWarningPlugin::getGlobalDetector\(\)->allocMemory\([^;]*\)"
    if re.fullmatch(r"return" + call + ";", b):
        return False
    m = re.fullmatch(r"void\*(\w+)=" + call + r";UT_THROW_BAD_ALLOC_WHEN_NULL\((\w+)\);return(\w+);", b)
    if m and m.group(1) == m.group(2) == m.group(3):
        return True
    raise TranslateError("body of %s not understood (neither `return allocMemory(...)` nor allocate / throw when NULL / return): %s" % (fn, b[:200]))


def fptr_table(p, fn):
    body = function_body(p, r"void\s+MemoryLeakWarningPlugin::%s\s*\(\s*\)\s*\{" % fn)
    body = norm(re.sub(r"(?m)^\s*#.*$", "", body))
    tab = re.findall(r"(\w+_fptr)=(\w+);", body)
    want = [f + "_fptr" for f in NEW_FNS]
    got = [t for t in tab if t[0] in want]
    if sorted(t[0] for t in got) != sorted(want):
        raise TranslateError("%s does not assign each operator-new function pointer exactly once" % fn)
    return got


def operator_forms(p):
    """which function pointer each `operator new` / `operator new[]` definition calls: form name = the pointer's family"""
    forms = {}
    for m in re.finditer(r"void\s*\*\s*operator\s+new\s*(\[\s*\])?\s*\(([^)]*)\)[^{;]*\{", p):
        params = norm(m.group(2))
        if "nothrow_t" in params:
            kind = "_nothrow"
        elif params.startswith("size_tsize,constchar*"):
            kind = "_debug"
        elif params == "size_tsize":
            kind = ""
        else:
            continue
        form = "operator_new" + ("_array" if m.group(1) else "") + kind
        body = norm(function_body(p[m.start():], r"void\s*\*\s*operator\s+new[^{;]*\{"))
        c = re.fullmatch(r"return(\w+_fptr)\(size(,file,(\(size_t\))?line)?\);", body)
        if not c:
            raise TranslateError("operator new definition (%s) is not a single call through a function pointer: %s" % (params, body[:120]))
        if forms.setdefault(form, c.group(1)) != c.group(1):
            raise TranslateError("two definitions of %s call different function pointers" % form)
    if sorted(forms) != sorted(NEW_FNS):
        raise TranslateError("operator new definitions found: %s" % sorted(forms))
    return [(f, forms[f]) for f in NEW_FNS]


def lean_pairs(name, doc, pairs, fmt):
    return "/-- %s -/\ndef %s : List (String × %s) := [\n%s]\n" % (
        doc, name, "Bool" if fmt == "b" else "String",
        ",\n".join('  ("%s", %s)' % (a, (str(b).lower() if fmt == "b" else '"%s"' % b)) for a, b in pairs))


def extract():
    a = strip_comments(read(SRC_A))
    c = strip_comments(read(SRC_C))
    m = re.search(r"enum\s*\{\s*NO_COUNTDOWN\s*=\s*(-?\d+)\s*,\s*OUT_OF_MEMORRY\s*=\s*(-?\d+)\s*\}", c)
    if not m:
        raise TranslateError("enum { NO_COUNTDOWN, OUT_OF_MEMORRY } not found")
    no_cd, oom = int(m.group(1)), int(m.group(2))
    m = re.search(r"static\s+int\s+malloc_out_of_memory_counter\s*=\s*(\w+)\s*;", c)
    if not m or m.group(1) != "NO_COUNTDOWN":
        raise TranslateError("initial value of malloc_out_of_memory_counter is not NO_COUNTDOWN")
    # constructor: head_(NULLPTR), currentAllocNumber_(0)
    if not re.search(r"head_\s*\(\s*NULLPTR\s*\)\s*,\s*currentAllocNumber_\s*\(\s*(0)\s*\)", a):
        raise TranslateError("FailableMemoryAllocator constructor no longer starts with head_(NULLPTR), currentAllocNumber_(0)")
    text = HEADER % ("translate/extract_failable.py", SRC_C + ", " + SRC_P)
    text += "namespace Gen.Failable\n"
    text += "def noCountdown : Int := %d\n" % no_cd
    text += "def outOfMemory : Int := %d\n" % oom
    # the operator new overloads in front of the allocator (src/CppUTest/MemoryLeakWarningPlugin.cpp)
    p = strip_comments(read(SRC_P))
    fns = ["mem_leak_" + f for f in NEW_FNS] + ["threadsafe_mem_leak_" + f for f in NEW_FNS]
    text += lean_pairs("newThrowsOnNull", "tracked operator-new function, and whether its body turns a NULL from the allocator into "
                       "`std::bad_alloc` (otherwise NULL is handed to the caller)", [(f, throws_on_null(p, f)) for f in fns], "b")
    text += lean_pairs("operatorFptr", "`operator new` / `operator new[]` form (plain, nothrow, with file/line) and the function pointer its "
                       "definition calls", operator_forms(p), "s")
    text += lean_pairs("plainOverloads", "`turnOnDefaultNotThreadSafeNewDeleteOverloads`: function pointer := function",
                       fptr_table(p, "turnOnDefaultNotThreadSafeNewDeleteOverloads"), "s")
    text += lean_pairs("threadSafeOverloads", "`turnOnThreadSafeNewDeleteOverloads`: function pointer := function",
                       fptr_table(p, "turnOnThreadSafeNewDeleteOverloads"), "s")
    text += "end Gen.Failable\n"
    return text


def run():
    text = extract()
    core.write_if_changed(os.path.join(core.LEAN, "CppUModel", "Gen", "FailableConstants.lean"), text)
    return []
