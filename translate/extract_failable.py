"""Regenerates lean/CppUModel/Gen/FailableConstants.lean from src/CppUTest/TestHarness_c.cpp and checks that
the loop-free functions the C15 model was written from still have the shape that was modelled
(`shouldFail`, `countdown`, `cpputest_malloc_set_out_of_memory_countdown`, `strdup_alloc`, the head of
`cpputest_calloc_location`, `clearFailedAllocs`, `checkAllFailedAllocsWereDone`)."""
import os, re
from .common import *

SRC_A = "src/CppUTest/TestMemoryAllocator.cpp"
SRC_C = "src/CppUTest/TestHarness_c.cpp"


def norm(s):
    return re.sub(r"\s+", "", s)


SHAPES_A = [
    (r"bool\s+shouldFail\s*\(\s*int\s+allocationNumber\s*,\s*const\s+char\s*\*\s*file\s*,\s*size_t\s+line\s*\)\s*\{",
     "if(file_){if(SimpleString::StrCmp(file,file_)==0&&line==line_){actualAllocNumber_++;"
     "returnactualAllocNumber_==allocNumberToFail_;}returnfalse;}returnallocationNumber==allocNumberToFail_;",
     "LocationToFailAllocNode::shouldFail"),
    (r"void\s+FailableMemoryAllocator::clearFailedAllocs\s*\(\s*\)\s*\{",
     "LocationToFailAllocNode*current=head_;while(current){head_=current->next_;"
     "free_memory((char*)current,0,__FILE__,__LINE__);current=head_;}currentAllocNumber_=0;",
     "FailableMemoryAllocator::clearFailedAllocs"),
    (r"void\s+init\s*\(\s*LocationToFailAllocNode\s*\*\s*next\s*=\s*NULLPTR\s*\)\s*\{",
     "allocNumberToFail_=0;actualAllocNumber_=0;file_=NULLPTR;line_=0;next_=next;",
     "LocationToFailAllocNode::init"),
]

SHAPES_C = [
    (r"static\s+void\s+countdown\s*\(\s*\)\s*\{",
     "if(malloc_out_of_memory_counter<=NO_COUNTDOWN)return;if(malloc_out_of_memory_counter==OUT_OF_MEMORRY)return;"
     "malloc_out_of_memory_counter--;if(malloc_out_of_memory_counter==OUT_OF_MEMORRY)cpputest_malloc_set_out_of_memory();",
     "countdown"),
    (r"void\s+cpputest_malloc_set_out_of_memory_countdown\s*\(\s*int\s+count\s*\)\s*\{",
     "malloc_out_of_memory_counter=count;if(malloc_out_of_memory_counter==OUT_OF_MEMORRY)cpputest_malloc_set_out_of_memory();",
     "cpputest_malloc_set_out_of_memory_countdown"),
    (r"void\s+cpputest_malloc_set_out_of_memory\s*\(\s*\)\s*\{",
     "if(originalAllocator==NULLPTR)originalAllocator=getCurrentMallocAllocator();"
     "setCurrentMallocAllocator(NullUnknownAllocator::defaultAllocator());",
     "cpputest_malloc_set_out_of_memory"),
    (r"void\s+cpputest_malloc_set_not_out_of_memory\s*\(\s*\)\s*\{",
     "malloc_out_of_memory_counter=NO_COUNTDOWN;setCurrentMallocAllocator(originalAllocator);originalAllocator=NULLPTR;",
     "cpputest_malloc_set_not_out_of_memory"),
    (r"void\s*\*\s*cpputest_malloc_location\s*\(\s*size_t\s+size\s*,\s*const\s+char\s*\*\s*file\s*,\s*size_t\s+line\s*\)\s*\{",
     "countdown();malloc_count++;returncpputest_malloc_location_with_leak_detection(size,file,line);",
     "cpputest_malloc_location"),
    (r"static\s+char\s*\*\s*strdup_alloc\s*\([^)]*\)\s*\{",
     "char*result=(char*)cpputest_malloc_location(size,file,line);if(result==NULLPTR)returnNULLPTR;"
     "PlatformSpecificMemCpy(result,str,size);result[size-1]='\\0';returnresult;",
     "strdup_alloc"),
    (r"void\s*\*\s*cpputest_calloc_location\s*\([^)]*\)\s*\{",
     "if(size!=0&&num>((size_t)-1)/size)returnNULLPTR;void*mem=cpputest_malloc_location(num*size,file,line);"
     "if(mem)PlatformSpecificMemset(mem,0,num*size);returnmem;",
     "cpputest_calloc_location"),
]


def extract():
    a = strip_comments(read(SRC_A))
    c = strip_comments(read(SRC_C))
    for sig, want, name in SHAPES_A:
        got = norm(function_body(a, sig))
        if got != want:
            raise TranslateError("%s changed shape: %s" % (name, got))
    for sig, want, name in SHAPES_C:
        got = norm(function_body(c, sig))
        if got != want:
            raise TranslateError("%s changed shape: %s" % (name, got))
    m = re.search(r"enum\s*\{\s*NO_COUNTDOWN\s*=\s*(-?\d+)\s*,\s*OUT_OF_MEMORRY\s*=\s*(-?\d+)\s*\}", c)
    if not m:
        raise TranslateError("enum { NO_COUNTDOWN, OUT_OF_MEMORRY } not found")
    no_cd, oom = int(m.group(1)), int(m.group(2))
    m = re.search(r"static\s+int\s+malloc_out_of_memory_counter\s*=\s*(\w+)\s*;", c)
    if not m or m.group(1) != "NO_COUNTDOWN":
        raise TranslateError("initial value of malloc_out_of_memory_counter is not NO_COUNTDOWN")
    # constructor: head_(NULLPTR), currentAllocNumber_(0)
    if not re.search(r"head_\s*\(\s*NULLPTR\s*\)\s*,\s*currentAllocNumber_\s*\(\s*(0)\s*\)", a):
        raise TranslateError("FailableMemoryAllocator constructor no longer starts with head_(NULLPTR), currentAllocNumber_(0)")
    text = HEADER % ("translate/extract_failable.py", SRC_C)
    text += "namespace Gen.Failable\n"
    text += "def noCountdown : Int := %d\n" % no_cd
    text += "def outOfMemory : Int := %d\n" % oom
    text += "end Gen.Failable\n"
    return text


def run():
    text = extract()
    core.write_if_changed(os.path.join(core.LEAN, "CppUModel", "Gen", "FailableConstants.lean"), text)
    return []
