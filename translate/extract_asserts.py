"""Regenerates lean/CppUModel/Gen/AssertShapes.lean (C03) from
   src/Platforms/Gcc/UtestPlatform.cpp (IsNan / IsInf / Fabs implementations and wiring)
   src/CppUTest/Utest.cpp            (UtestShell::assert* bodies, doubles_equal)
   include/CppUTest/UtestMacros.h    (check macros: callee, operand expressions with their casts)
   src/CppUTest/TestHarness_c.cpp    (C entry points: parameter types, callee, operand expressions)
   include/CppUTest/TestHarness_c.h  (C front macros)

Shape checks (TranslateError): every assert body is exactly
    getTestResult()->countCheck();  { if (c) return; | if (c) failWith(F(...)[, testTerminator]); | failWith(...); }*
with countCheck() once and first; every simple macro is `do { UtestShell::getCurrent()->f(args); } while(0)`.
The emitted tables (condition texts, failure classes, parameter types, cast expressions) are compared
by `decide` with the tables the model was written against (Props/C03.lean: shapes_match ...)."""
import os, re
from .common import *

UTEST = "src/CppUTest/Utest.cpp"
MACROS = "include/CppUTest/UtestMacros.h"
CSRC = "src/CppUTest/TestHarness_c.cpp"
CHDR = "include/CppUTest/TestHarness_c.h"

ASSERTS = ["assertTrue", "fail", "assertCstrEqual", "assertCstrNEqual", "assertCstrNoCaseEqual", "assertCstrContains",
           "assertCstrNoCaseContains", "assertLongsEqual", "assertUnsignedLongsEqual", "assertLongLongsEqual",
           "assertUnsignedLongLongsEqual", "assertSignedBytesEqual", "assertPointersEqual",
           "assertFunctionPointersEqual", "assertDoublesEqual", "assertBinaryEqual", "assertBitsEqual", "assertEquals",
           "assertCompare"]
OPERAND_NAMES = {"condition", "expected", "actual", "length", "threshold", "mask", "byteCount", "failed", "comparison", "size"}
# number of operand arguments (leading arguments) of each assert function
NOPERANDS = {"assertTrue": 1, "fail": 0, "assertCstrEqual": 2, "assertCstrNEqual": 3, "assertCstrNoCaseEqual": 2,
             "assertCstrContains": 2, "assertCstrNoCaseContains": 2, "assertLongsEqual": 2, "assertUnsignedLongsEqual": 2,
             "assertLongLongsEqual": 2, "assertUnsignedLongLongsEqual": 2, "assertSignedBytesEqual": 2,
             "assertPointersEqual": 2, "assertFunctionPointersEqual": 2, "assertDoublesEqual": 3, "assertBinaryEqual": 3,
             "assertBitsEqual": 4, "assertEquals": 1, "assertCompare": 1}

SIMPLE_MACROS = ["CHECK_TRUE_LOCATION", "CHECK_FALSE_LOCATION", "STRCMP_EQUAL_LOCATION", "STRNCMP_EQUAL_LOCATION",
                 "STRCMP_NOCASE_EQUAL_LOCATION", "STRCMP_CONTAINS_LOCATION", "STRCMP_NOCASE_CONTAINS_LOCATION",
                 "LONGS_EQUAL_LOCATION", "UNSIGNED_LONGS_EQUAL_LOCATION", "LONGLONGS_EQUAL_LOCATION",
                 "UNSIGNED_LONGLONGS_EQUAL_LOCATION", "SIGNED_BYTES_EQUAL_LOCATION", "SIGNED_BYTES_EQUAL_TEXT_LOCATION",
                 "POINTERS_EQUAL_LOCATION", "FUNCTIONPOINTERS_EQUAL_LOCATION", "DOUBLES_EQUAL_LOCATION",
                 "MEMCMP_EQUAL_LOCATION", "BITS_LOCATION", "FAIL_LOCATION", "FAIL_TEST_LOCATION"]
FLOW_MACROS = ["CHECK_EQUAL_LOCATION", "CHECK_COMPARE_LOCATION", "ENUMS_EQUAL_TYPE_LOCATION", "CHECK_THROWS", "TEST_EXIT"]
CHECK_NAME = re.compile(r"^(CHECK|STRCMP|STRNCMP|LONGS|UNSIGNED|LONGLONGS|BYTES|SIGNED|POINTERS|FUNCTIONPOINTERS|DOUBLES|MEMCMP|BITS|"
                        r"ENUMS|FAIL|TEST_EXIT)")
PLATFORM = "src/Platforms/Gcc/UtestPlatform.cpp"
C_ENTRIES = ["CHECK_EQUAL_C_BOOL_LOCATION", "CHECK_EQUAL_C_INT_LOCATION", "CHECK_EQUAL_C_UINT_LOCATION",
             "CHECK_EQUAL_C_LONG_LOCATION", "CHECK_EQUAL_C_ULONG_LOCATION", "CHECK_EQUAL_C_LONGLONG_LOCATION",
             "CHECK_EQUAL_C_ULONGLONG_LOCATION", "CHECK_EQUAL_C_REAL_LOCATION", "CHECK_EQUAL_C_CHAR_LOCATION",
             "CHECK_EQUAL_C_UBYTE_LOCATION", "CHECK_EQUAL_C_SBYTE_LOCATION", "CHECK_EQUAL_C_STRING_LOCATION",
             "CHECK_EQUAL_C_POINTER_LOCATION", "CHECK_EQUAL_C_MEMCMP_LOCATION", "CHECK_EQUAL_C_BITS_LOCATION",
             "FAIL_TEXT_C_LOCATION", "FAIL_C_LOCATION", "CHECK_C_LOCATION"]
# arguments that are not operands
NOISE = {"text", "file", "line", "fileName", "lineNumber", "NULLPTR", "NULL", "__FILE__", "__LINE__", "S", "(text)",
         "checkString", "conditionString", "#condition"}


def nows(s):
    return re.sub(r"\s+", "", s)


def blank_strings(src):
    """replace string literals by the token S (after comments are gone)"""
    return re.sub(r'"(?:\\.|[^"\\])*"', " S ", src)


def join_literals(s):
    """adjacent string literals / stringified arguments concatenate: S #x S -> S"""
    prev = None
    while prev != s:
        prev = s
        s = re.sub(r"S#\w+S|SS|S#\w+(?=[,)])|#\w+S", "S", s)
    return s


def take_if_branch(body):
    """keep the `#if CPPUTEST_USE_LONG_LONG` branch, drop the `#else` branch (the build defines it 1)"""
    out, state = [], "keep"
    for line in body.split("\n"):
        t = line.strip()
        if t.startswith("#if"):
            if "CPPUTEST_USE_LONG_LONG" not in t:
                raise TranslateError("unexpected preprocessor conditional in an assert body: " + t)
            state = "if"
        elif t.startswith("#else"):
            state = "else"
        elif t.startswith("#endif"):
            state = "keep"
        elif t.startswith("#"):
            raise TranslateError("unexpected preprocessor line in an assert body: " + t)
        elif state != "else":
            out.append(line)
    return "\n".join(out)


def split_top(s, sep=","):
    """split at separators of nesting depth 0"""
    parts, depth, cur = [], 0, ""
    for ch in s:
        if ch in "([{":
            depth += 1
        elif ch in ")]}":
            depth -= 1
        if ch == sep and depth == 0:
            parts.append(cur)
            cur = ""
        else:
            cur += ch
    if cur.strip() or parts:
        parts.append(cur)
    return parts


def matching(s, i):
    """index of the bracket closing the one at s[i]"""
    depth = 0
    for j in range(i, len(s)):
        if s[j] in "([{":
            depth += 1
        elif s[j] in ")]}":
            depth -= 1
            if depth == 0:
                return j
    raise TranslateError("unbalanced brackets in: " + s[i:i + 80])


def parse_fail_call(name, text):
    """`failWith(F(...)[,testTerminator]);` -> F"""
    if not text.startswith("failWith("):
        raise TranslateError("%s: statement is neither `return;` nor `failWith(...)`: %s" % (name, text[:80]))
    j = matching(text, len("failWith"))
    if text[j + 1:j + 2] != ";":
        raise TranslateError("%s: failWith call not followed by `;`: %s" % (name, text[:80]))
    args = split_top(text[len("failWith("):j])
    if len(args) == 2 and args[1] != "testTerminator":
        raise TranslateError("%s: failWith uses an unexpected terminator: %s" % (name, args[1]))
    if len(args) not in (1, 2):
        raise TranslateError("%s: failWith with %d arguments" % (name, len(args)))
    m = re.match(r"(\w+)\(this,", args[0])
    if not m:
        raise TranslateError("%s: failWith argument is not a failure object built on `this`: %s" % (name, args[0][:60]))
    return m.group(1), text[j + 2:]


def parse_assert_body(name, body):
    """[(kind, cond, failure class)]; kind 0 return, 1 conditional failWith, 2 unconditional failWith"""
    s = nows(take_if_branch(body))
    head = "getTestResult()->countCheck();"
    if not s.startswith(head):
        raise TranslateError("%s: the first statement is not countCheck(): %s" % (name, s[:60]))
    if s.count("countCheck") != 1:
        raise TranslateError("%s: countCheck() appears %d times" % (name, s.count("countCheck")))
    s = s[len(head):]
    stmts = []
    while s:
        if s.startswith("if("):
            j = matching(s, 2)
            cond, rest = s[3:j], s[j + 1:]
            if rest.startswith("return;"):
                stmts.append((0, cond, ""))
                s = rest[len("return;"):]
            else:
                cls, s = parse_fail_call(name, rest)
                stmts.append((1, cond, cls))
        else:
            cls, s = parse_fail_call(name, s)
            stmts.append((2, "", cls))
    if not stmts:
        raise TranslateError("%s: no statement after countCheck()" % name)
    return stmts


def norm_type(t):
    t = re.sub(r"\s+", " ", t.strip())
    t = re.sub(r"\s*\*\s*", "*", t)
    return t


def operand_params(name, params):
    out = []
    for p in split_top(params):
        p = p.strip()
        m = re.match(r"^(.*?)\(\s*\*\s*(\w+)\s*\)\s*\(\s*\)$", p)     # void (*expected)()
        if m:
            if m.group(2) in OPERAND_NAMES:
                out.append(norm_type(m.group(1)) + " (*)()")
            continue
        m = re.match(r"^(.*?)(\w+)$", p, re.S)
        if not m:
            raise TranslateError("%s: cannot read parameter `%s`" % (name, p))
        if m.group(2) in OPERAND_NAMES:
            out.append(norm_type(m.group(1)))
    return out


def find_function(src, qualified):
    m = re.search(r"\bvoid\s+%s\s*\(" % re.escape(qualified), src)
    if not m:
        raise TranslateError("function not found: " + qualified)
    i = m.end() - 1
    j = matching(src, i)
    params = src[i + 1:j]
    k = src.index("{", j)
    if src[j + 1:k].strip() not in ("", "\\"):
        raise TranslateError("unexpected text between the parameters and the body of %s: %r" % (qualified, src[j + 1:k]))
    e = matching(src, k)
    return params, src[k + 1:e]


def read_macros(text):
    """name -> (params or None, body) with continuation lines joined"""
    text = text.replace("\\\r\n", " ").replace("\\\n", " ")
    out = {}
    for m in re.finditer(r"^[ \t]*#[ \t]*define[ \t]+(\w+)(\(([^)]*)\))?[ \t]*(.*)$", text, re.M):
        name = m.group(1)
        if name in out:
            continue        # FAIL is guarded by #ifndef; first definition wins
        params = [p.strip() for p in m.group(3).split(",")] if m.group(2) else None
        out[name] = (params, m.group(4))
    return out


def macro_body(macros, name):
    if name not in macros:
        raise TranslateError("macro not found: " + name)
    return join_literals(nows(macros[name][1]))


def simple_macro(macros, name):
    b = macro_body(macros, name)
    m = re.match(r"^do\{UtestShell::getCurrent\(\)->(\w+)\((.*)\);\}while\(0\)(//.*)?$", b)
    if not m:
        raise TranslateError("macro %s is not `do { UtestShell::getCurrent()->f(args); } while(0)`: %s" % (name, b[:100]))
    callee, args = m.group(1), split_top(m.group(2))
    if callee not in NOPERANDS:
        raise TranslateError("macro %s calls an unknown assert function %s" % (name, callee))
    k = NOPERANDS[callee]
    if len(args) < k:
        raise TranslateError("macro %s passes too few arguments to %s" % (name, callee))
    return callee, args[:k]


def front_macro(macros, name):
    b = macro_body(macros, name)
    m = re.match(r"^(\w+)\((.*)\)$", b)
    if not m or matching(b, len(m.group(1))) != len(b) - 1:
        raise TranslateError("macro %s is not a single macro call: %s" % (name, b[:100]))
    args = [a for a in split_top(m.group(2)) if a not in NOISE]
    return m.group(1), args


def c_entry(src, name):
    params, body = find_function(src, name)
    b = join_literals(nows(body))
    m = re.match(r"^UtestShell::getCurrent\(\)->(\w+)\((.*)\);$", b)
    if not m:
        raise TranslateError("%s is not a single call on the current test: %s" % (name, b[:100]))
    callee, args = m.group(1), split_top(m.group(2))
    if callee not in NOPERANDS:
        raise TranslateError("%s calls an unknown assert function %s" % (name, callee))
    if args[-1] != "UtestShell::getCurrentTestTerminatorWithoutExceptions()":
        raise TranslateError("%s does not pass the terminator without exceptions" % name)
    return operand_params(name, params), callee, args[:NOPERANDS[callee]]


def platform_predicates():
    """IsNan / IsInf / Fabs as wired in the Gcc platform: the model's class split nan / inf / finite is isnan / isinf of the
    double itself and fabs is the C library's"""
    src = strip_comments(read(PLATFORM))
    out = []
    for fn in ("IsNanImplementation", "IsInfImplementation"):
        m = re.search(r"static\s+int\s+%s\s*\(\s*double\s+d\s*\)\s*\{" % fn, src)
        if not m:
            raise TranslateError("static int %s(double d) not found in %s" % (fn, PLATFORM))
        k = m.end() - 1
        out.append((fn, nows(src[k + 1:matching(src, k)])))
    for ptr, sig in (("PlatformSpecificFabs", r"double\s*\(\s*\*\s*PlatformSpecificFabs\s*\)\s*\(\s*double\s*\)"),
                     ("PlatformSpecificIsNan", r"int\s*\(\s*\*\s*PlatformSpecificIsNan\s*\)\s*\(\s*double\s*\)"),
                     ("PlatformSpecificIsInf", r"int\s*\(\s*\*\s*PlatformSpecificIsInf\s*\)\s*\(\s*double\s*\)")):
        m = re.search(sig + r"\s*=\s*([^;]+);", src)
        if not m:
            raise TranslateError("%s is not initialised in %s" % (ptr, PLATFORM))
        out.append((ptr, nows(m.group(1))))
    return out


def lean_str(s):
    return '"' + s.replace("\\", "\\\\").replace('"', '\\"') + '"'


def lean_list(items):
    return "[" + ", ".join(items) + "]"


def extract():
    utest = blank_strings(strip_comments(read(UTEST)))
    shapes, params = [], []
    for a in ASSERTS:
        p, body = find_function(utest, "UtestShell::" + a)
        shapes.append((a, parse_assert_body(a, body)))
        ops = operand_params(a, p)[:NOPERANDS[a]]
        if a != "fail":
            params.append((a, ops))
    m = re.search(r"\bbool\s+doubles_equal\s*\(\s*double\s+d1\s*,\s*double\s+d2\s*,\s*double\s+threshold\s*\)", utest)
    if not m:
        raise TranslateError("doubles_equal(double d1, double d2, double threshold) not found")
    k = utest.index("{", m.end())
    de_body = nows(utest[k + 1:matching(utest, k)])
    de = [s for s in re.split(r"(?<=[;}])(?=if\(|return)", de_body) if s]

    mtext = blank_strings(strip_comments(read(MACROS)))
    macros = read_macros(mtext)
    simple = [(n,) + simple_macro(macros, n) for n in SIMPLE_MACROS]
    flow = [(n, macro_body(macros, n)) for n in FLOW_MACROS]
    # every check macro the header defines: a new or removed macro changes `allMacros`
    all_macros = [n for n in macros if CHECK_NAME.match(n)]
    front_names = [n for n in all_macros if n not in SIMPLE_MACROS and n not in FLOW_MACROS]
    front = [(n,) + front_macro(macros, n) for n in front_names]
    # the byte mask of BYTES_EQUAL
    be = dict((n, (t, a)) for n, t, a in front)["BYTES_EQUAL"]
    mm = [re.match(r"^\((expected|actual)\)&(0[xX][0-9a-fA-F]+|\d+)$", a) for a in be[1]]
    if be[0] != "LONGS_EQUAL" or len(mm) != 2 or not all(mm) or mm[0].group(2) != mm[1].group(2):
        raise TranslateError("BYTES_EQUAL is not LONGS_EQUAL((expected) & M, (actual) & M): %r" % (be,))
    mask = int(mm[0].group(2), 0)

    csrc = blank_strings(strip_comments(read(CSRC)))
    centries = [(n,) + c_entry(csrc, n) for n in C_ENTRIES]
    cmacros = read_macros(blank_strings(strip_comments(read(CHDR))))
    all_cmacros = [n for n in cmacros if CHECK_NAME.match(n)]
    cfront = [(n,) + front_macro(cmacros, n) for n in all_cmacros]
    platform = platform_predicates()

    t = HEADER % ("translate/extract_asserts.py", ", ".join([UTEST, MACROS, CSRC, CHDR]))
    t += "namespace Gen.AssertShapes\n\n"
    t += "/-- the literal of `BYTES_EQUAL(e, a)` = `LONGS_EQUAL((e) & M, (a) & M)` -/\n"
    t += "def bytesMask : Nat := %d\n\n" % mask
    t += "/-- per assert function: statements after the leading countCheck(): (kind, condition, failure class) -/\n"
    t += "def shapes : List (String × List (Nat × String × String)) := [\n"
    t += ",\n".join("  (%s, %s)" % (lean_str(a), lean_list("(%d, %s, %s)" % (k, lean_str(c), lean_str(f)) for k, c, f in st))
                    for a, st in shapes)
    t += "\n]\n\n"
    t += "def params : List (String × List String) := [\n"
    t += ",\n".join("  (%s, %s)" % (lean_str(a), lean_list(lean_str(x) for x in ps)) for a, ps in params)
    t += "\n]\n\n"
    t += "def doublesEqualBody : List String := [\n" + ",\n".join("  " + lean_str(s) for s in de) + "\n]\n\n"
    t += "def macros : List (String × String × List String) := [\n"
    t += ",\n".join("  (%s, %s, %s)" % (lean_str(n), lean_str(c), lean_list(lean_str(x) for x in a)) for n, c, a in simple)
    t += "\n]\n\n"
    for n, b in flow:
        t += "def flow_%s : String :=\n  %s\n\n" % (n, lean_str(b))
    t += "def front : List (String × String × List String) := [\n"
    t += ",\n".join("  (%s, %s, %s)" % (lean_str(n), lean_str(c), lean_list(lean_str(x) for x in a)) for n, c, a in front)
    t += "\n]\n\n"
    t += "def cEntries : List (String × List String × String × List String) := [\n"
    t += ",\n".join("  (%s, %s, %s, %s)" % (lean_str(n), lean_list(lean_str(x) for x in ps), lean_str(c),
                                          lean_list(lean_str(x) for x in a)) for n, ps, c, a in centries)
    t += "\n]\n\n"
    t += "def cFront : List (String × String × List String) := [\n"
    t += ",\n".join("  (%s, %s, %s)" % (lean_str(n), lean_str(c), lean_list(lean_str(x) for x in a)) for n, c, a in cfront)
    t += "\n]\n\n"
    t += "/-- every check macro defined by UtestMacros.h / TestHarness_c.h, in order -/\n"
    t += "def allMacros : List String := %s\n\n" % lean_list(lean_str(x) for x in all_macros)
    t += "def allCMacros : List String := %s\n\n" % lean_list(lean_str(x) for x in all_cmacros)
    t += "/-- the platform predicates doubles_equal relies on (src/Platforms/Gcc/UtestPlatform.cpp) -/\n"
    t += "def platformPredicates : List (String × String) := [\n"
    t += ",\n".join("  (%s, %s)" % (lean_str(a), lean_str(b)) for a, b in platform)
    t += "\n]\n\nend Gen.AssertShapes\n"
    return t


def run():
    text = extract()
    core.write_if_changed(os.path.join(core.LEAN, "CppUModel", "Gen", "AssertShapes.lean"), text)
    return []


if __name__ == "__main__":
    print(extract())
