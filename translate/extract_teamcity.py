"""Regenerates lean/CppUModel/Gen/TeamCityWriters.lean (C20) from
  src/CppUTest/TeamCityTestOutput.cpp : the five overridden callbacks printCurrentTestStarted / printCurrentTestEnded /
                                        printCurrentGroupStarted / printCurrentGroupEnded / printFailure, each as the
                                        STATEMENT LIST it is: print("literal") / printEscaped(field) / print(field) /
                                        print(number) / if (cond) { prints } / early return guard / assignment to
                                        currtest_ or currGroup_ - in source order
  src/CppUTest/TestOutput.cpp         : TestOutput::printTestRun as the same kind of list
The writer model (Model/TeamCity.lean) is an interpreter of these lists, so which field goes through printEscaped, every
literal, the order of the pieces, the guards and where the state is assigned are what the source says at check time.

Shape checks (TranslateError otherwise, handled like a broken proof obligation): the constructor initialises currtest_ with a
null pointer and currGroup_ with the empty string; TestOutput::print(const char*) is printBuffer(str); print(long) and
print(size_t) are print(StringFrom(n).asCharString()); printVeryVerbose prints through printBuffer exactly when verbose_ is
level_veryVerbose; ConsoleTestOutput::printBuffer is PlatformSpecificFPuts(s, PlatformSpecificStdOut) followed by flush();
the five callbacks are the ones TeamCityTestOutput.h declares as overrides and printEscaped is not virtual;
CompositeTestOutput forwards every callback to outputOne_ then outputTwo_ (table `compositeForwards`).

Adjacent print("a"); print("b"); are merged into one literal (the bytes written are the same), parameter names are read from
the signature, braces around a single statement are optional."""
import os, re
from .common import *
from .extract_escapes import squeeze, c_unescape, STR_LIT, CHAR_LIT

TC_SRC = "src/CppUTest/TeamCityTestOutput.cpp"
TC_HDR = "include/CppUTest/TeamCityTestOutput.h"
TO_SRC = "src/CppUTest/TestOutput.cpp"

IDENT = r"[A-Za-z_]\w*"


def lean_string(bs):
    out = []
    for b in bs:
        if b == 10:
            out.append("\\n")
        elif b == 13:
            out.append("\\r")
        elif b == 9:
            out.append("\\t")
        elif b == 34:
            out.append('\\"')
        elif b == 92:
            out.append("\\\\")
        elif 32 <= b < 127:
            out.append(chr(b))
        elif b == 0 or b >= 128:
            raise TranslateError("literal with a byte outside ASCII / NUL: %r" % (bs,))
        else:
            out.append("\\x%02x" % b)
    return '"' + "".join(out) + '"'


def find_function(src, cls, name, params_regex):
    """-> (regex match of the header with the parameter-name groups, squeezed body)"""
    rx = r"void\s+%s::%s\s*\(\s*%s\s*\)\s*(?:const\s*)?\{" % (cls, name, params_regex)
    m = re.search(rx, src)
    if not m:
        raise TranslateError("%s::%s: definition with the expected parameter list not found" % (cls, name))
    return m, squeeze(function_body(src, rx))


def matching(text, i, open_ch, close_ch):
    """index just after the bracket that closes the one at text[i]; literals are skipped"""
    assert text[i] == open_ch
    depth, j = 0, i
    lit = re.compile(CHAR_LIT + "|" + STR_LIT)
    while j < len(text):
        m = lit.match(text, j)
        if m:
            j = m.end()
            continue
        if text[j] == open_ch:
            depth += 1
        elif text[j] == close_ch:
            depth -= 1
            if depth == 0:
                return j + 1
        j += 1
    raise TranslateError("unbalanced %s near: %s" % (open_ch, text[i:i + 40]))


class Ctx:
    """what the names inside one callback mean"""
    def __init__(self, fn, test=None, res=None, failure=None, number=None, total=None):
        self.fn, self.test, self.res, self.failure, self.number, self.total = fn, test, res, failure, number, total

    def field(self, e):
        t, f = self.test, self.failure
        if t and e == t + ".getName()":
            return "testName"
        if t and e == t + ".getGroup()":
            return "testGroup"
        if e == "currtest_->getName()":
            return "currTestName"
        if e == "currGroup_":
            return "currGroup"
        if f:
            for getter, lean in (("getTestNameOnly", "failTestNameOnly"), ("getFileName", "failFileName"),
                                 ("getTestFileName", "failTestFileName"), ("getMessage", "failMessage")):
                if e == "%s.%s()" % (f, getter):
                    return lean
        raise TranslateError("%s: text expression not understood: %s" % (self.fn, e))

    def num(self, e):
        if self.res and e == self.res + ".getCurrentTestTotalExecutionTime()":
            return "testDuration"
        if self.failure and e == self.failure + ".getFailureLineNumber()":
            return "failLine"
        if self.failure and e == self.failure + ".getTestLineNumber()":
            return "failTestLine"
        if self.number and e == self.number:
            return "runNumber"
        if self.total and e == self.total:
            return "runTotal"
        raise TranslateError("%s: number expression not understood: %s" % (self.fn, e))

    def cond(self, c):
        """disjunction of possibly negated atoms -> [(negated, atom)]"""
        out = []
        for part in split_top(c, "||"):
            p = strip_parens(part)
            neg = False
            while p.startswith("!"):
                neg = not neg
                p = strip_parens(p[1:])
            if self.test and p == self.test + ".willRun()":
                out.append((neg, "testWillRun"))
            elif self.failure and p == self.failure + ".isOutsideTestFile()":
                out.append((neg, "failOutsideTestFile"))
            elif self.failure and p == self.failure + ".isInHelperFunction()":
                out.append((neg, "failInHelperFunction"))
            elif self.total and p in (self.total + ">1", "1<" + self.total):
                out.append((neg, "runTotalGtOne"))
            else:
                raise TranslateError("%s: condition not understood: %s" % (self.fn, c))
        return out

    def guard(self, c):
        p = strip_parens(c)
        if p in ("!currtest_", "currtest_==NULLPTR", "currtest_==0", "NULLPTR==currtest_", "currtest_==nullptr"):
            return "currTestNull"
        if p in ('currGroup_==""', '""==currGroup_', "currGroup_.isEmpty()"):
            return "currGroupEmpty"
        raise TranslateError("%s: early-return condition not understood: %s" % (self.fn, c))


def strip_parens(p):
    while p.startswith("(") and matching(p, 0, "(", ")") == len(p):
        p = p[1:-1]
    return p


def split_top(c, sep):
    parts, depth, j, start = [], 0, 0, 0
    lit = re.compile(CHAR_LIT + "|" + STR_LIT)
    while j < len(c):
        m = lit.match(c, j)
        if m:
            j = m.end()
            continue
        if c[j] == "(":
            depth += 1
        elif c[j] == ")":
            depth -= 1
        elif depth == 0 and c.startswith(sep, j):
            parts.append(c[start:j])
            j += len(sep)
            start = j
            continue
        j += 1
    parts.append(c[start:])
    if any("&&" in p and "(" not in p for p in parts):
        raise TranslateError("condition uses &&: " + c)
    return parts


STRS = r'((?:"(?:\\.|[^"\\])*")+)'


def parse_atoms(ctx, text):
    """a sequence of print statements -> [atom]"""
    out, pos = [], 0
    while pos < len(text):
        m = re.compile(r"print\(" + STRS + r"\);").match(text, pos)
        if m:
            bs = []
            for piece in re.finditer(STR_LIT, m.group(1)):
                bs += c_unescape(piece.group(1))
            out.append(("lit", bs))
            pos = m.end()
            continue
        m = re.compile(r"(printEscaped|print)\(").match(text, pos)
        if not m:
            return out, pos
        end = matching(text, m.end() - 1, "(", ")")
        if not text.startswith(";", end):
            raise TranslateError("%s: ';' expected after call near: %s" % (ctx.fn, text[pos:pos + 60]))
        arg = text[m.end():end - 1]
        if arg.endswith(".asCharString()"):
            f = ctx.field(arg[:-len(".asCharString()")])
            out.append(("esc" if m.group(1) == "printEscaped" else "raw", f))
        elif m.group(1) == "print":
            out.append(("num", ctx.num(arg)))
        else:
            raise TranslateError("%s: printEscaped of something that is not <text>.asCharString(): %s" % (ctx.fn, arg))
        pos = end + 1
    return out, pos


def merge_lits(atoms):
    out = []
    for a in atoms:
        if a[0] == "lit" and out and out[-1][0] == "lit":
            out[-1] = ("lit", out[-1][1] + a[1])
        else:
            out.append(a)
    return out


def one_statement_end(text, pos):
    """end of the single statement starting at pos (up to its ';' outside brackets and literals)"""
    j, depth = pos, 0
    lit = re.compile(CHAR_LIT + "|" + STR_LIT)
    while j < len(text):
        m = lit.match(text, j)
        if m:
            j = m.end()
            continue
        if text[j] in "([{":
            depth += 1
        elif text[j] in ")]}":
            depth -= 1
        elif text[j] == ";" and depth == 0:
            return j + 1
        j += 1
    raise TranslateError("statement without ';' near: " + text[pos:pos + 40])


def parse_stmts(ctx, body):
    stmts, pos = [], 0
    while pos < len(body):
        atoms, npos = parse_atoms(ctx, body[pos:])
        if npos:
            stmts += [("out", a) for a in atoms]
            pos += npos
            continue
        rest = body[pos:]
        if rest.startswith("if("):
            cend = matching(rest, 2, "(", ")")
            cond = rest[3:cend - 1]
            if rest.startswith("{", cend):
                bend = matching(rest, cend, "{", "}")
                inner = rest[cend + 1:bend - 1]
            else:
                bend = one_statement_end(rest, cend)
                inner = rest[cend:bend]
            if rest.startswith("else", bend):
                raise TranslateError("%s: if with an else branch" % ctx.fn)
            if inner == "return;":
                stmts.append(("returnIf", ctx.guard(cond)))
            else:
                atoms, used = parse_atoms(ctx, inner)
                if used != len(inner) or not atoms:
                    raise TranslateError("%s: body of `if (%s)` is not a list of print calls: %s" % (ctx.fn, cond, inner[:80]))
                stmts.append(("cond", ctx.cond(cond), merge_lits(atoms)))
            pos += bend
            continue
        m = re.match(r"currtest_=&(" + IDENT + r");", rest)
        if m and ctx.test and m.group(1) == ctx.test:
            stmts.append(("setCurrTest",))
            pos += m.end()
            continue
        m = re.match(r"currGroup_=(" + IDENT + r")\.getGroup\(\);", rest)
        if m and ctx.test and m.group(1) == ctx.test:
            stmts.append(("setCurrGroup",))
            pos += m.end()
            continue
        raise TranslateError("%s: statement not understood: %s" % (ctx.fn, rest[:80]))
    # merge adjacent literal outputs (same bytes written)
    out = []
    for s in stmts:
        if s[0] == "out" and s[1][0] == "lit" and out and out[-1][0] == "out" and out[-1][1][0] == "lit":
            out[-1] = ("out", ("lit", out[-1][1][1] + s[1][1]))
        else:
            out.append(s)
    return out


def lean_atom(a):
    if a[0] == "lit":
        return ".lit " + lean_string(a[1])
    return ".%s .%s" % (a[0], a[1])


def lean_stmt(s):
    if s[0] == "out":
        return ".out (%s)" % lean_atom(s[1])
    if s[0] == "cond":
        return ".cond [%s] [%s]" % (", ".join("(%s, .%s)" % ("true" if n else "false", a) for n, a in s[1]),
                                    ", ".join(lean_atom(a) for a in s[2]))
    if s[0] == "returnIf":
        return ".returnIf .%s" % s[1]
    return "." + s[0]


def extract_writers():
    src = strip_comments(read(TC_SRC))
    shell = r"const\s+UtestShell\s*&\s*(%s)?" % IDENT
    res = r"const\s+TestResult\s*&\s*(%s)?" % IDENT
    fail = r"const\s+TestFailure\s*&\s*(%s)?" % IDENT
    writers = []
    m, body = find_function(src, "TeamCityTestOutput", "printCurrentTestStarted", shell)
    writers.append(("printCurrentTestStarted", parse_stmts(Ctx("printCurrentTestStarted", test=m.group(1)), body)))
    m, body = find_function(src, "TeamCityTestOutput", "printCurrentTestEnded", res)
    writers.append(("printCurrentTestEnded", parse_stmts(Ctx("printCurrentTestEnded", res=m.group(1)), body)))
    m, body = find_function(src, "TeamCityTestOutput", "printCurrentGroupStarted", shell)
    writers.append(("printCurrentGroupStarted", parse_stmts(Ctx("printCurrentGroupStarted", test=m.group(1)), body)))
    m, body = find_function(src, "TeamCityTestOutput", "printCurrentGroupEnded", res)
    writers.append(("printCurrentGroupEnded", parse_stmts(Ctx("printCurrentGroupEnded", res=m.group(1)), body)))
    m, body = find_function(src, "TeamCityTestOutput", "printFailure", fail)
    writers.append(("printFailure", parse_stmts(Ctx("printFailure", failure=m.group(1)), body)))
    # constructor: nothing open at the start
    sq = squeeze(src)
    m = re.search(r"TeamCityTestOutput::TeamCityTestOutput\(\):(.*?)\{\}", sq)
    if not m:
        raise TranslateError("TeamCityTestOutput constructor changed shape")
    inits = sorted(m.group(1).split(","))
    if len(inits) != 2 or inits[0] not in ("currGroup_()", 'currGroup_("")') or \
            inits[1] not in ("currtest_(NULLPTR)", "currtest_(0)", "currtest_(nullptr)", "currtest_(NULL)"):
        raise TranslateError("TeamCityTestOutput constructor does not start with no current test and an empty group: " + m.group(1))
    return writers


def extract_base():
    src = strip_comments(read(TO_SRC))
    m, body = find_function(src, "TestOutput", "printTestRun", r"size_t\s+(%s)\s*,\s*size_t\s+(%s)" % (IDENT, IDENT))
    run = parse_stmts(Ctx("printTestRun", number=m.group(1), total=m.group(2)), body)
    checks = [
        ("TestOutput", "print", r"const\s+char\s*\*\s*(%s)" % IDENT, lambda p: ["printBuffer(%s);" % p[0]]),
        ("TestOutput", "print", r"long\s+(%s)" % IDENT, lambda p: ["print(StringFrom(%s).asCharString());" % p[0]]),
        ("TestOutput", "print", r"size_t\s+(%s)" % IDENT, lambda p: ["print(StringFrom(%s).asCharString());" % p[0]]),
        ("TestOutput", "printVeryVerbose", r"const\s+char\s*\*\s*(%s)" % IDENT,
         lambda p: ["if(verbose_==level_veryVerbose)printBuffer(%s);" % p[0], "if(verbose_==level_veryVerbose){printBuffer(%s);}" % p[0]]),
        ("ConsoleTestOutput", "printBuffer", r"const\s+char\s*\*\s*(%s)" % IDENT,
         lambda p: ["PlatformSpecificFPuts(%s,PlatformSpecificStdOut);flush();" % p[0]]),
        ("ConsoleTestOutput", "flush", r"", lambda p: ["PlatformSpecificFlush();"]),
    ]
    for cls, name, params, want in checks:
        m, body = find_function(src, cls, name, params)
        if body not in want(m.groups()):
            raise TranslateError("%s::%s(%s) changed shape: %s" % (cls, name, params, body[:100]))
    # CompositeTestOutput: which callbacks are forwarded, to which output first
    forwards = []
    for m in re.finditer(r"void\s+CompositeTestOutput::(\w+)\s*\(([^)]*)\)\s*\{", src):
        name = m.group(1)
        if name in ("setOutputOne", "setOutputTwo"):
            continue
        body = squeeze(function_body(src[m.start():], r"void\s+CompositeTestOutput::%s\s*\(([^)]*)\)\s*\{" % name))
        args = [a.strip().split()[-1].lstrip("*&") for a in m.group(2).split(",") if a.strip()]
        call = "%s(%s);" % (name, ",".join(args))
        one, two = "if(outputOne_)outputOne_->" + call, "if(outputTwo_)outputTwo_->" + call
        ptype = squeeze(" ".join(a.strip().rsplit(None, 1)[0] for a in m.group(2).split(",") if a.strip()))
        if body == one + two:
            forwards.append((name, ptype, True, True, True))
        elif body == two + one:
            forwards.append((name, ptype, True, True, False))
        elif body == one:
            forwards.append((name, ptype, True, False, True))
        elif body == two:
            forwards.append((name, ptype, False, True, True))
        else:
            raise TranslateError("CompositeTestOutput::%s is not a pair of forwarding calls: %s" % (name, body[:120]))
    return run, forwards


OVERRIDES = ["printCurrentTestStarted", "printCurrentTestEnded", "printCurrentGroupStarted", "printCurrentGroupEnded", "printFailure"]


def check_header():
    hdr = squeeze(strip_comments(read(TC_HDR)))
    if "classTeamCityTestOutput:publicConsoleTestOutput{" not in hdr:
        raise TranslateError("TeamCityTestOutput no longer derives from ConsoleTestOutput")
    got = re.findall(r"virtualvoid(\w+)\([^)]*\)CPPUTEST_OVERRIDE;", hdr)
    if sorted(got) != sorted(OVERRIDES):
        raise TranslateError("TeamCityTestOutput.h: the overridden callbacks are %r, expected %r" % (sorted(got), sorted(OVERRIDES)))
    if "voidprintEscaped(constchar*s);" not in hdr and not re.search(r"voidprintEscaped\(constchar\*\w*\);", hdr):
        raise TranslateError("TeamCityTestOutput.h: printEscaped declaration changed")


TYPES = '''/-- a text-valued thing a callback can print -/
inductive Field
  | testName | testGroup                 -- getName() / getGroup() of the callback's UtestShell argument
  | currTestName | currGroup             -- currtest_->getName() / currGroup_
  | failTestNameOnly | failFileName | failTestFileName | failMessage     -- getters of the callback's TestFailure argument
deriving DecidableEq, Repr
/-- a number a callback can print (through `print(size_t)` / `print(long)`) -/
inductive Num
  | testDuration                         -- res.getCurrentTestTotalExecutionTime()
  | failLine | failTestLine              -- failure.getFailureLineNumber() / getTestLineNumber()
  | runNumber | runTotal                 -- the parameters of printTestRun
deriving DecidableEq, Repr
inductive CondAtom
  | testWillRun | failOutsideTestFile | failInHelperFunction | runTotalGtOne
deriving DecidableEq, Repr
inductive Guard
  | currTestNull                         -- `if (!currtest_) return;`
  | currGroupEmpty                       -- `if (currGroup_ == "") return;`
deriving DecidableEq, Repr
/-- one output call -/
inductive Atom
  | lit (s : String)                     -- print("...")
  | esc (f : Field)                      -- printEscaped(<f>.asCharString())
  | raw (f : Field)                      -- print(<f>.asCharString())           (NOT escaped)
  | num (n : Num)                        -- print(<n>)
deriving DecidableEq, Repr
/-- one statement of a callback, in source order -/
inductive Stmt
  | out (a : Atom)
  | cond (disjuncts : List (Bool × CondAtom)) (body : List Atom)   -- if (a || !b ..) { prints }; Bool = negated
  | returnIf (g : Guard)
  | setCurrTest                          -- currtest_ = &test;
  | setCurrGroup                         -- currGroup_ = test.getGroup();
deriving DecidableEq, Repr
'''


def extract():
    check_header()
    writers = extract_writers()
    run, forwards = extract_base()
    t = HEADER % ("translate/extract_teamcity.py", TC_SRC + ", " + TC_HDR + ", " + TO_SRC)
    t += "namespace Gen.TeamCityWriters\n" + TYPES
    for name, stmts in writers:
        t += "/-- `TeamCityTestOutput::%s`, statement by statement -/\n" % name
        t += "def %s : List Stmt :=\n  [%s]\n" % (name, ",\n   ".join(lean_stmt(s) for s in stmts))
    t += "/-- `TestOutput::printTestRun` (not overridden by TeamCityTestOutput) -/\n"
    t += "def printTestRun : List Stmt :=\n  [%s]\n" % ",\n   ".join(lean_stmt(s) for s in run)
    t += "/-- `CompositeTestOutput`: (callback, parameter types, forwarded to outputOne_, forwarded to outputTwo_, outputOne_ first) -/\n"
    t += "def compositeForwards : List (String × String × Bool × Bool × Bool) :=\n  [%s]\n" % ",\n   ".join(
        '("%s", "%s", %s, %s, %s)' % (n, p, str(a).lower(), str(b).lower(), str(c).lower()) for n, p, a, b, c in forwards)
    t += "end Gen.TeamCityWriters\n"
    return t


def run():
    text = extract()
    core.write_if_changed(os.path.join(core.LEAN, "CppUModel", "Gen", "TeamCityWriters.lean"), text)
    return []
