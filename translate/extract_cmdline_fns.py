"""Regenerates lean/CppUModel/Gen/ParseHandlers.lean: the BODIES of the loop-free functions of
src/CppUTest/CommandLineArguments.cpp, translated statement by statement into Lean definitions.

Translated (each one becomes `def Gen.ParseHandlers.<name>`):
  getParameterField, setRepeatCount, setShuffle, addGroupDotNameFilter, addTestToRunBasedOnVerboseOutput,
  setOutputType, setPackageName, the eight add...Filter functions, and `parseBody` = the body of the
  `for` loop of CommandLineArguments::parse (the if / else-if chain with its statements and the rejection test).
Also regenerated: the getter table (getter -> member it returns), the constructor's member initialisers,
`CommandLineTestRunner::parseArguments` (which outputs are created) as `Gen.ParseHandlers.createdOutputs`.

How the C++ is read (token level; a small recursive-descent parser for the statement/expression subset these
functions use; anything else raises TranslateError = "cannot translate", handled like a broken obligation):
  * state: the members written by these functions are fields of `St` (`cfg : Config` + `preSeeded`);
    `member_ = e` becomes `let s := { s with ... }`;
  * `(ac, av, i)`: `rest` is the list av[i0..ac) at entry (so `ac` = rest.length in relative terms) and `k` the
    number of positions `i` has advanced: `av[i+e]` = `rest.getD (k+e) []`, `i + 1 < ac` = `k + 1 < rest.length`,
    `av[i] + n` = `(rest.getD k []).drop n`, `i++` / `++i` = `k + 1`;
  * control flow: `if` / `else` / early `return` are translated by duplicating the continuation into both branches, so
    every definition is a tree of `if … then … else …` over `let`s ending in `⟨s, k, returned value⟩`;
  * SimpleString / TestFilter / SimpleStringCollection calls become the textbook functions of Spec/Text.lean and
    Spec/CommandLine.lean (`size` = length, `==`, `startsWith`, `subString`, `subStringFromTill`, `at`, `split`,
    `AtoI`/`AtoU`; `new TestFilter(x)` = ⟨x, false, false⟩, `strictMatching()`/`invertMatching()` set the flag,
    `f->add(list)` = f :: list).  That link is C13's / C02's and is exercised by the h_c12 correspondence.
Props/C12.lean proves every generated definition equal to the hand-written model function the theorems are about.
"""
import os, re
from .common import *

SRC = "src/CppUTest/CommandLineArguments.cpp"
HDR = "include/CppUTest/CommandLineArguments.h"
RUNNER = "src/CppUTest/CommandLineTestRunner.cpp"

TOKEN = re.compile(r'\s*(?:(?P<id>[A-Za-z_]\w*)|(?P<num>\d+)|(?P<str>"(?:\\.|[^"\\])*")|(?P<chr>\'(?:\\.|[^\'\\])\')|'
                   r'(?P<op>->|::|\+\+|--|==|!=|<=|>=|&&|\|\||[-+*/%<>=!&|(){}\[\];,.?:~]))')


def tokenize(text):
    out, i = [], 0
    text = text.rstrip()
    while i < len(text):
        m = TOKEN.match(text, i)
        if not m:
            if text[i:].strip() == "":
                break
            raise TranslateError("cannot tokenize: " + text[i:i + 30])
        i = m.end()
        for kind in ("id", "num", "str", "chr", "op"):
            if m.group(kind) is not None:
                out.append((kind, m.group(kind)))
                break
    return out


TYPE_WORDS = {"SimpleString", "size_t", "unsigned", "int", "bool", "TestFilter", "SimpleStringCollection", "const", "char", "TestResult"}


class P:
    """recursive-descent parser over tokens -> tuples"""

    def __init__(self, toks, where):
        self.t, self.i, self.where = toks, 0, where

    def peek(self, k=0):
        return self.t[self.i + k] if self.i + k < len(self.t) else ("eof", "")

    def at(self, val, k=0):
        return self.peek(k)[1] == val and self.peek(k)[0] in ("op", "id")

    def eat(self, val):
        if not self.at(val):
            raise TranslateError("%s: expected `%s` at `%s`" % (self.where, val, " ".join(x[1] for x in self.t[self.i:self.i + 6])))
        self.i += 1

    def fail(self, what):
        raise TranslateError("%s: %s at `%s`" % (self.where, what, " ".join(x[1] for x in self.t[self.i:self.i + 8])))

    # ---- statements
    def block_items(self):
        items = []
        while not self.at("}") and self.peek()[0] != "eof":
            items.append(self.statement())
        return items

    def statement(self):
        if self.at("{"):
            self.eat("{")
            items = self.block_items()
            self.eat("}")
            return ("block", items)
        if self.at("if"):
            self.eat("if"); self.eat("(")
            c = self.expr()
            self.eat(")")
            a = self.statement()
            b = None
            if self.at("else"):
                self.eat("else")
                b = self.statement()
            return ("if", c, a, b)
        if self.at("while"):
            self.eat("while"); self.eat("(")
            c = self.expr()
            self.eat(")")
            return ("while", c, self.statement())
        if self.at("return"):
            self.eat("return")
            e = None if self.at(";") else self.expr()
            self.eat(";")
            return ("return", e)
        if self.peek()[0] == "id" and self.peek()[1] in TYPE_WORDS and not self.at("::", 1):
            return self.declaration()
        e = self.expr()
        if self.at("="):
            self.eat("=")
            r = self.expr()
            self.eat(";")
            return ("assign", e, r)
        if self.at("+") and self.at("=", 1):
            self.eat("+"); self.eat("=")
            r = self.expr()
            self.eat(";")
            return ("addassign", e, r)
        if self.at("while"):
            self.fail("while")
        self.eat(";")
        return ("expr", e)

    def declaration(self):
        words = []
        while (self.peek()[0] == "id" and self.peek()[1] in TYPE_WORDS) or self.at("*") or self.at("&"):
            words.append(self.peek()[1]); self.i += 1
        if self.peek()[0] != "id":
            self.fail("declaration without a name")
        name = self.peek()[1]; self.i += 1
        ty = " ".join(words)
        if self.at(";"):
            self.eat(";")
            return ("decl", ty, name, None)
        if self.at("="):
            self.eat("=")
            e = self.expr()
            self.eat(";")
            return ("decl", ty, name, e)
        if self.at("("):
            self.eat("(")
            e = self.expr()
            self.eat(")"); self.eat(";")
            return ("decl", ty, name, e)
        self.fail("declaration of unknown form")

    # ---- expressions
    def expr(self):
        c = self.binary(0)
        if self.at("?"):
            self.eat("?")
            a = self.expr()
            self.eat(":")
            b = self.expr()
            return ("cond", c, a, b)
        return c

    LEVELS = [["||"], ["&&"], ["==", "!="], ["<", ">", "<=", ">="], ["+", "-"]]

    def binary(self, lvl):
        if lvl == len(self.LEVELS):
            return self.unary()
        l = self.binary(lvl + 1)
        while self.peek()[0] == "op" and self.peek()[1] in self.LEVELS[lvl] and not (self.peek()[1] in "+-" and self.at("=", 1)):
            op = self.peek()[1]; self.i += 1
            r = self.binary(lvl + 1)
            l = ("bin", op, l, r)
        return l

    def unary(self):
        if self.at("!"):
            self.eat("!")
            return ("not", self.unary())
        if self.at("++"):
            self.eat("++")
            return ("preinc", self.unary())
        if self.at("*"):
            self.eat("*")
            return ("deref", self.unary())
        if self.at("(") and self.is_cast():
            self.eat("(")
            words = []
            while not self.at(")"):
                words.append(self.peek()[1]); self.i += 1
            self.eat(")")
            return ("cast", " ".join(words), self.unary())
        return self.postfix()

    def is_cast(self):
        j = 1
        seen = False
        while self.peek(j)[0] == "id" and self.peek(j)[1] in ("size_t", "unsigned", "int", "long"):
            j += 1; seen = True
        return seen and self.at(")", j)

    def postfix(self):
        k, v = self.peek()
        if k == "num":
            self.i += 1; e = ("num", int(v))
        elif k == "str":
            self.i += 1; e = ("str", v[1:-1])
        elif k == "chr":
            self.i += 1; e = ("chr", v[1:-1])
        elif self.at("("):
            self.eat("("); e = self.expr(); self.eat(")")
        elif self.at("new"):
            self.eat("new")
            ty = self.peek()[1]; self.i += 1
            self.eat("(")
            args = self.args()
            e = ("new", ty, args)
        elif k == "id":
            self.i += 1
            name = v
            while self.at("::"):
                self.eat("::")
                name += "::" + self.peek()[1]; self.i += 1
            e = ("id", name)
        else:
            self.fail("expression of unknown form")
        while True:
            if self.at("("):
                self.eat("(")
                e = ("call", e, self.args())
            elif self.at(".") or self.at("->"):
                self.i += 1
                m = self.peek()[1]; self.i += 1
                e = ("member", e, m)
            elif self.at("["):
                self.eat("["); ix = self.expr(); self.eat("]")
                e = ("index", e, ix)
            elif self.at("++"):
                self.eat("++")
                e = ("postinc", e)
            else:
                return e

    def args(self):
        out = []
        if self.at(")"):
            self.eat(")")
            return out
        while True:
            out.append(self.expr())
            if self.at(","):
                self.eat(",")
                continue
            self.eat(")")
            return out


# ---------------------------------------------------------------- emission

MEMBERS = {
    "needHelp_": "needHelp", "verbose_": "verbose", "veryVerbose_": "veryVerbose", "color_": "color",
    "runTestsAsSeperateProcess_": "separateProcess", "listTestGroupNames_": "listGroups",
    "listTestGroupAndCaseNames_": "listNames", "listTestLocations_": "listLocations", "runIgnored_": "runIgnored",
    "reversing_": "reversing", "crashOnFail_": "crashOnFail", "rethrowExceptions_": "rethrow", "shuffling_": "shuffling",
    "repeat_": "repeatCount", "shuffleSeed_": "shuffleSeed", "groupFilters_": "groupFilters", "nameFilters_": "nameFilters",
    "outputType_": "output", "packageName_": "packageName",
}
ENUMS = {"OUTPUT_ECLIPSE": "OutputType.eclipse", "OUTPUT_JUNIT": "OutputType.junit", "OUTPUT_TEAMCITY": "OutputType.teamcity"}


def c_bytes(body):
    if re.search(r"\\[^\\\"']", body):
        raise TranslateError("escape sequence in literal: " + body)
    b = body.replace('\\"', '"').replace("\\'", "'").replace("\\\\", "\\").encode("latin-1")
    return "[" + ", ".join(str(x) for x in b) + "]"


class Fn:
    """one function: signature facts + parsed body"""

    def __init__(self, name, ret, params, body):
        self.name, self.ret, self.params, self.body = name, ret, params, body
        self.ac = self.av = self.idx = None
        self.extra = []          # (name, lean type)
        for ty, pn in params:
            t = ty.replace(" ", "")
            if t == "int" and self.ac is None:
                self.ac = pn
            elif t in ("constchar*const*",):
                self.av = pn
            elif t == "int&":
                self.idx = pn
            elif t in ("constSimpleString&", "constchar*"):
                self.extra.append((pn, "Bytes"))
            elif t == "bool":
                self.extra.append((pn, "Bool"))
            else:
                raise TranslateError("%s: parameter of unknown type `%s %s`" % (name, ty, pn))
        if self.ac is None or self.av is None or self.idx is None:
            raise TranslateError("%s: not of the form (int ac, const char *const *av, int& i, ...)" % name)
        self.lean_ret = {"void": "Unit", "bool": "Bool", "SimpleString": "Bytes"}[ret]


class Emit:
    def __init__(self, fn, known, loop_mode=False):
        self.fn, self.known, self.tmp, self.loop_mode = fn, known, 0, loop_mode
        self.filters = set()      # locals holding a TestFilter
        self.colls = set()        # locals holding a SimpleStringCollection
        self.locals = set(n for n, _ in fn.extra)

    def err(self, msg):
        raise TranslateError("%s: %s" % (self.fn.name, msg))

    # expression -> (prelude lines, lean text)
    def ex(self, e, pre):
        k = e[0]
        if k == "num":
            return str(e[1])
        if k == "str":
            return "(%s : Bytes)" % c_bytes(e[1])
        if k == "chr":
            return "(%s : UInt8)" % c_bytes(e[1])[1:-1]
        if k == "id":
            n = e[1]
            if n == self.fn.idx:
                return "k"
            if n == self.fn.ac:
                return "rest.length"
            if n in MEMBERS:
                return "s.cfg." + MEMBERS[n]
            if n == "shufflingPreSeeded_":
                return "s.preSeeded"
            if n in ENUMS:
                return ENUMS[n]
            if n in ("true", "false"):
                return n
            if n in self.locals:
                return "v_" + n
            self.err("unknown identifier `%s`" % n)
        if k == "not":
            return "(!%s)" % self.ex(e[1], pre)
        if k == "cast":
            inner = e[2]
            while inner[0] == "paren":
                inner = inner[1]
            if e[1] == "size_t" and inner[0] == "call" and inner[1] == ("id", "SimpleString::AtoI") and len(inner[2]) == 1:
                return "(atoiSizeT %s)" % self.ex(inner[2][0], pre)
            if e[1] == "unsigned int" and inner[0] == "call" and inner[1] == ("id", "GetPlatformSpecificTimeInMillis") and not inner[2]:
                return "(env.time % 2 ^ 32)"
            self.err("cast of unknown form: (%s)" % e[1])
        if k == "bin":
            op, l, r = e[1], e[2], e[3]
            if op == "+" and l[0] == "index" and l[1] == ("id", self.fn.av):
                return "(%s.drop %s)" % (self.ex(l, pre), self.ex(r, pre))
            a, b = self.ex(l, pre), self.ex(r, pre)
            if op in ("<", ">", "<=", ">="):
                return "(decide (%s %s %s))" % (a, {"<": "<", ">": ">", "<=": "≤", ">=": "≥"}[op], b)
            if op in ("==", "!=", "||", "&&", "+", "-"):
                return "(%s %s %s)" % (a, op, b)
            self.err("operator " + op)
        if k == "index":
            base, ix = e[1], e[2]
            if base == ("id", self.fn.av) or (self.loop_mode and base == ("id", "av_")):
                if ix[0] == "preinc":
                    if ix[1] != ("id", self.fn.idx):
                        self.err("++ on something other than the index")
                    pre.append("let k := k + 1")
                    return "(rest.getD k [])"
                return "(rest.getD %s [])" % self.ex(ix, pre)
            if base[0] == "id" and base[1] in self.colls:
                return "(v_%s.getD %s [])" % (base[1], self.ex(ix, pre))
            self.err("indexing of something other than av / a collection")
        if k == "new":
            if e[1] != "TestFilter" or len(e[2]) != 1:
                self.err("new of unknown form")
            return "(⟨%s, false, false⟩ : Filter)" % self.ex(e[2][0], pre)
        if k == "call":
            f, args = e[1], e[2]
            if f[0] == "id":
                n = f[1]
                if n == "SimpleString::AtoU" and len(args) == 1:
                    return "(atou %s)" % self.ex(args[0], pre)
                if n in self.known:
                    return self.call_known(n, args, pre)
                self.err("call of unknown function `%s`" % n)
            if f[0] == "member":
                recv, m = f[1], f[2]
                if self.loop_mode and recv == ("id", "plugin") and m == "parseAllArguments":
                    self.check_std_args(args, "parseAllArguments", ("ac_", "av_"))
                    return "(env.plugin (rest.getD k []))"
                if recv[0] == "id" and recv[1] in self.filters and m == "add" and len(args) == 1:
                    return "(v_%s :: %s)" % (recv[1], self.ex(args[0], pre))
                r = self.ex(recv, pre)
                if m == "size" and not args:
                    return "%s.length" % r
                if m == "startsWith" and len(args) == 1:
                    return "(startsWith %s %s)" % (r, self.ex(args[0], pre))
                if m == "subString" and len(args) == 2:
                    return "(subString %s %s %s)" % (r, self.ex(args[0], pre), self.ex(args[1], pre))
                if m == "subString" and len(args) == 1:
                    return "(subStringFrom %s %s)" % (r, self.ex(args[0], pre))
                if m == "subStringFromTill" and len(args) == 2:
                    return "(subStringFromTill %s %s %s)" % (r, self.ex(args[0], pre), self.ex(args[1], pre))
                if m == "at" and len(args) == 1:
                    return "(%s.getD %s 0)" % (r, self.ex(args[0], pre))
                self.err("method `%s` with %d arguments" % (m, len(args)))
        if k == "preinc" or k == "postinc":
            self.err("++ inside an expression")
        self.err("expression kind " + k)

    def check_std_args(self, args, n, names=None):
        want = names or (self.fn.ac, self.fn.av)
        if len(args) < 3 or args[0] != ("id", want[0]) or args[1] != ("id", want[1]) or args[2] != ("id", self.fn.idx):
            self.err("call of %s does not pass (ac, av, i) through" % n)

    def call_known(self, n, args, pre):
        callee = self.known[n]
        self.check_std_args(args, n, ("ac_", "av_") if self.loop_mode else None)
        extra = args[3:]
        if len(extra) != len(callee.extra):
            self.err("call of %s with %d extra arguments" % (n, len(extra)))
        self.tmp += 1
        r = "r%d" % self.tmp
        pre.append("let %s := %s env s rest k %s" % (r, n, " ".join(self.ex(a, pre) for a in extra)))
        pre.append("let s := %s.st" % r)
        pre.append("let k := %s.k" % r)
        return "%s.ret" % r

    # statements with continuation `cont` (list of statements still to run)
    def stmts(self, items, ind):
        if not items:
            if self.fn.ret != "void":
                self.err("control reaches the end of a non-void function")
            return [ind + "⟨s, k, ()⟩"]
        st, rest = items[0], items[1:]
        kind = st[0]
        if kind == "block":
            return self.stmts(list(st[1]) + rest, ind)
        if kind == "return":
            pre = []
            val = "()" if st[1] is None else self.ex(st[1], pre)
            return [ind + p for p in pre] + [ind + "⟨s, k, %s⟩" % val]
        if kind == "if":
            pre = []
            c = self.ex(st[1], pre)
            saved = (set(self.filters), set(self.colls), set(self.locals))
            a = self.stmts([st[2]] + rest, ind + "  ")
            self.filters, self.colls, self.locals = (set(x) for x in saved)
            b = self.stmts(([st[3]] if st[3] is not None else []) + rest, ind + "  ")
            self.filters, self.colls, self.locals = (set(x) for x in saved)
            return [ind + p for p in pre] + [ind + "if %s then" % c] + a + [ind + "else"] + b
        pre = []
        if kind == "decl":
            ty, name, init = st[1], st[2], st[3]
            t = ty.replace(" ", "")
            if t == "SimpleStringCollection" and init is None:
                self.colls.add(name); self.locals.add(name)
                line = "let v_%s : List Bytes := []" % name
            elif init is None:
                self.err("declaration of `%s` without a value" % name)
            else:
                if t == "TestFilter*":
                    self.filters.add(name)
                val = self.ex(init, pre)
                self.locals.add(name)
                line = "let v_%s := %s" % (name, val)
        elif kind == "assign":
            lhs, rhs = st[1], st[2]
            val = self.ex(rhs, pre)
            if lhs[0] != "id":
                self.err("assignment to something other than a variable")
            n = lhs[1]
            if n in MEMBERS:
                line = "let s := { s with cfg := { s.cfg with %s := %s } }" % (MEMBERS[n], val)
            elif n == "shufflingPreSeeded_":
                line = "let s := { s with preSeeded := %s }" % val
            elif n in self.locals:
                line = "let v_%s := %s" % (n, val)
            else:
                self.err("assignment to unknown `%s`" % n)
        elif kind == "expr":
            e = st[1]
            if e[0] == "postinc" and e[1][0] == "id":
                n = e[1][1]
                if n == self.fn.idx:
                    line = "let k := k + 1"
                elif n in MEMBERS:
                    line = "let s := { s with cfg := { s.cfg with %s := s.cfg.%s + 1 } }" % (MEMBERS[n], MEMBERS[n])
                else:
                    self.err("++ on `%s`" % n)
            elif e[0] == "call" and e[1][0] == "member":
                recv, m, args = e[1][1], e[1][2], e[2]
                if recv[0] == "id" and recv[1] in self.filters and m in ("strictMatching", "invertMatching") and not args:
                    fld = "strict" if m == "strictMatching" else "invert"
                    line = "let v_%s : Filter := { v_%s with %s := true }" % (recv[1], recv[1], fld)
                elif m == "split" and len(args) == 2 and args[1][0] == "id" and args[1][1] in self.colls:
                    line = "let v_%s := splitCode %s %s" % (args[1][1], self.ex(recv, pre), self.ex(args[0], pre))
                else:
                    self.err("call statement of unknown form `.%s`" % m)
            elif e[0] == "call" and e[1][0] == "id" and e[1][1] in self.known:
                self.ex(e, pre)            # value dropped; state and index threaded by the prelude
                line = None
            else:
                self.err("expression statement of unknown form")
        else:
            self.err("statement kind " + kind)
        out = [ind + p for p in pre]
        if line:
            out.append(ind + line)
        return out + self.stmts(rest, ind)


def parse_params(text, name):
    params = []
    for p in text.split(","):
        p = p.strip()
        m = re.fullmatch(r"(.*?)(\w+)", p, re.S)
        if not m:
            raise TranslateError("%s: parameter `%s`" % (name, p))
        params.append((re.sub(r"\s+", " ", m.group(1)).strip(), m.group(2)))
    return params


def load_fn(src, name):
    m = re.search(r"(\w+)\s+CommandLineArguments::%s\s*\(([^)]*)\)\s*\{" % name, src)
    if not m:
        raise TranslateError("function not found: CommandLineArguments::" + name)
    body = function_body(src, r"\w+\s+CommandLineArguments::%s\s*\([^)]*\)\s*\{" % name)
    items = P(tokenize(body), name).block_items()
    return Fn(name, m.group(1), parse_params(m.group(2), name), items)


ORDER = ["getParameterField", "setRepeatCount", "setShuffle",
         "addGroupFilter", "addStrictGroupFilter", "addExcludeGroupFilter", "addExcludeStrictGroupFilter",
         "addNameFilter", "addStrictNameFilter", "addExcludeNameFilter", "addExcludeStrictNameFilter",
         "addGroupDotNameFilter", "addTestToRunBasedOnVerboseOutput", "setOutputType", "setPackageName"]


def emit_fn(fn, known):
    em = Emit(fn, known)
    head = "def %s (env : Env) (s : St) (rest : List Bytes) (k : Nat)%s : Out %s :=" % (
        fn.name, "".join(" (v_%s : %s)" % (n, t) for n, t in fn.extra), fn.lean_ret)
    return "\n".join([head] + em.stmts(fn.body, "  ")) + "\n"


def emit_parse_body(src, known):
    """the body of the `for` loop of parse(): `SimpleString argument = av_[i]; if … else …; if (correctParameters == false) return false;`
    `ret` = false: parse returns false here; true: the loop goes on with `i = i0 + k + 1`"""
    body = function_body(src, r"bool\s+CommandLineArguments::parse\s*\(\s*TestPlugin\s*\*\s*plugin\s*\)\s*\{")
    m = re.match(r"\s*bool\s+correctParameters\s*=\s*true\s*;\s*for\s*\(\s*int\s+i\s*=\s*1\s*;\s*i\s*<\s*ac_\s*;\s*i\+\+\s*\)\s*\{", body)
    if not m:
        raise TranslateError("parse(): loop frame changed")
    inner = function_body(body, r"for\s*\([^)]*\)\s*\{")
    if re.sub(r"\s+", "", body[body.index(inner) + len(inner):]) != "}returntrue;":
        raise TranslateError("parse(): text after the loop changed")
    items = P(tokenize(inner), "parse").block_items()
    fn = Fn.__new__(Fn)
    fn.name, fn.ret, fn.params, fn.body = "parseBody", "bool", [], items
    fn.ac, fn.av, fn.idx, fn.extra, fn.lean_ret = "ac_", "av_", "i", [], "Bool"
    em = Emit(fn, known, loop_mode=True)
    em.locals.add("correctParameters")
    # `correctParameters` is declared before the loop and is `true` whenever the body is entered
    # (the body returns as soon as it is false)
    lines = em.stmts(items + [("return", ("id", "true"))], "  ")
    head = "def parseBody (env : Env) (s : St) (rest : List Bytes) (k : Nat) : Out Bool :=\n  let v_correctParameters := true"
    text = "\n".join([head] + lines) + "\n"
    return text


def getters(src):
    """`T CommandLineArguments::name() const { return <member or comparison>; }`"""
    out = []
    for m in re.finditer(r"CommandLineArguments::(\w+)\s*\(\s*\)\s*const\s*\{\s*return\s+([^;]*);\s*\}", src):
        name, e = m.group(1), re.sub(r"\s+", "", m.group(2))
        if name in ("help", "usage"):
            continue
        if e in MEMBERS:
            out.append((name, MEMBERS[e], ""))
        elif re.fullmatch(r"outputType_==(\w+)", e) and e.split("==")[1] in ENUMS:
            out.append((name, "output", ENUMS[e.split("==")[1]].split(".")[1]))
        else:
            raise TranslateError("getter %s returns something the translator does not know: %s" % (name, e))
    return out


def ctor_inits(src):
    m = re.search(r"CommandLineArguments::CommandLineArguments\s*\(\s*int\s+ac\s*,[^)]*\)\s*:\s*(.*?)\{\s*\}", src, re.S)
    if not m:
        raise TranslateError("constructor of CommandLineArguments not found / not an initialiser list with an empty body")
    out = []
    for name, val in re.findall(r"(\w+)\s*\(\s*([^()]*)\s*\)", m.group(1)):
        out.append((name, val.strip()))
    return out


def initial_config(inits):
    d = dict(inits)
    out = []
    for m, f in MEMBERS.items():
        if m == "packageName_":
            if m in d:
                raise TranslateError("constructor: packageName_ is initialised explicitly")
            continue                      # default-constructed SimpleString: ""
        if m not in d:
            raise TranslateError("constructor: member %s is not initialised" % m)
        v = d[m]
        if v in ("true", "false") or re.fullmatch(r"\d+", v):
            lv = v
        elif v == "NULLPTR":
            lv = "[]"
        elif v in ENUMS:
            lv = ENUMS[v]
        else:
            raise TranslateError("constructor: initial value of %s not understood: %s" % (m, v))
        out.append("%s := %s" % (f, lv))
    if d.get("shufflingPreSeeded_") not in ("true", "false"):
        raise TranslateError("constructor: shufflingPreSeeded_ not initialised with a constant")
    return out


def created_outputs(rsrc):
    """CommandLineTestRunner::parseArguments, second part: which outputs are created for an accepted configuration"""
    body = function_body(rsrc, r"bool\s+CommandLineTestRunner::parseArguments\s*\(\s*TestPlugin\s*\*\s*plugin\s*\)\s*\{")
    sq = re.sub(r"\s+", "", body)
    first = 'if(!arguments_->parse(plugin)){output_=createConsoleOutput();output_->print((arguments_->needHelp())?arguments_->help():arguments_->usage());returnfalse;}'
    if not sq.startswith(first):
        raise TranslateError("CommandLineTestRunner::parseArguments: the rejection part changed")
    rest = sq[len(first):]
    if not rest.endswith("returntrue;"):
        raise TranslateError("CommandLineTestRunner::parseArguments: does not end with `return true;`")
    rest = rest[:-len("returntrue;")]
    G = {"isJUnitOutput": "(c.output == .junit)", "isTeamCityOutput": "(c.output == .teamcity)", "isEclipseOutput": "(c.output == .eclipse)",
         "isVerbose": "c.verbose", "isVeryVerbose": "c.veryVerbose", "isColor": "c.color"}

    def cond(t):
        parts = t.split("||")
        out = []
        for p in parts:
            m = re.fullmatch(r"arguments_->(\w+)\(\)", p)
            if not m or m.group(1) not in G:
                raise TranslateError("CommandLineTestRunner::parseArguments: condition of unknown form: " + t)
            out.append(G[m.group(1)])
        return " || ".join(out)

    def creation(t):
        """statement(s) -> list of events"""
        evs = []
        while t:
            m = re.match(r"output_=createJUnitOutput\(arguments_->getPackageName\(\)\);", t)
            if m:
                evs.append(".junit c.packageName"); t = t[m.end():]; continue
            m = re.match(r"output_=createTeamCityOutput\(\);", t)
            if m:
                evs.append(".teamcity"); t = t[m.end():]; continue
            m = re.match(r"output_=createConsoleOutput\(\);", t)
            if m:
                evs.append(".console"); t = t[m.end():]; continue
            m = re.match(r"output_=createCompositeOutput\(output_,createConsoleOutput\(\)\);", t)
            if m:
                evs.append(".console"); evs.append(".composite"); t = t[m.end():]; continue
            return None, t
        return evs, ""

    def go(t):
        """-> lean expression of type List OutEv"""
        if t.startswith("if("):
            depth, j = 0, 2
            while True:
                if t[j] == "(":
                    depth += 1
                elif t[j] == ")":
                    depth -= 1
                    if depth == 0:
                        break
                j += 1
            c = cond(t[3:j])
            t2 = t[j + 1:]
            if t2.startswith("{"):
                d, q = 0, 0
                while True:
                    if t2[q] == "{":
                        d += 1
                    elif t2[q] == "}":
                        d -= 1
                        if d == 0:
                            break
                    q += 1
                thenpart, after = t2[1:q], t2[q + 1:]
            else:
                q = t2.index(";") + 1
                thenpart, after = t2[:q], t2[q:]
            if after.startswith("else"):
                elsepart = after[4:]
                if elsepart.startswith("{") and elsepart.endswith("}"):
                    elsepart = elsepart[1:-1]
                return "(if %s then %s else %s)" % (c, go(thenpart), go(elsepart))
            return "((if %s then %s else []) ++ %s)" % (c, go(thenpart), go(after) if after else "[]")
        evs, left = creation(t)
        if evs is None:
            raise TranslateError("CommandLineTestRunner::parseArguments: statement of unknown form: " + left[:60])
        # a trailing `if` after plain creations
        return "[" + ", ".join(evs) + "]"

    def go_seq(t):
        # creations possibly followed by an if-statement (the composite case)
        m = re.match(r"((?:output_=create\w+\([^;]*\);)*)(if\(.*)?$", t)
        if m and m.group(1) and m.group(2):
            evs, _ = creation(m.group(1))
            if evs is None:
                raise TranslateError("CommandLineTestRunner::parseArguments: statement of unknown form: " + m.group(1)[:60])
            return "([%s] ++ %s)" % (", ".join(evs), go(m.group(2)))
        return go(t)

    # top level is an if / else-if / else chain whose branches are sequences
    def chain(t):
        if t.startswith("if("):
            depth, j = 0, 2
            while True:
                if t[j] == "(":
                    depth += 1
                elif t[j] == ")":
                    depth -= 1
                    if depth == 0:
                        break
                j += 1
            c = cond(t[3:j])
            t2 = t[j + 1:]
            if t2.startswith("{"):
                d, q = 0, 0
                while True:
                    if t2[q] == "{":
                        d += 1
                    elif t2[q] == "}":
                        d -= 1
                        if d == 0:
                            break
                    q += 1
                thenpart, after = t2[1:q], t2[q + 1:]
            else:
                q = t2.index(";") + 1
                thenpart, after = t2[:q], t2[q:]
            if not after.startswith("else"):
                raise TranslateError("CommandLineTestRunner::parseArguments: output selection is not an if/else chain")
            e = after[4:]
            if e.startswith("{") and e.endswith("}"):
                e = e[1:-1]
            return "(if %s then %s else %s)" % (c, go_seq(thenpart), chain(e))
        return go_seq(t)

    return chain(rest)


# ---------------------------------------------------------------- the runner: initializeTestRun / runAllTests as event lists

def verbosity_levels():
    hdr = strip_comments(read("include/CppUTest/TestOutput.h"))
    m = re.search(r"enum\s+VerbosityLevel\s*\{([^}]*)\}", hdr)
    if not m:
        raise TranslateError("TestOutput::VerbosityLevel not found")
    names = [x.strip() for x in m.group(1).split(",") if x.strip()]
    if any("=" in n for n in names):
        raise TranslateError("TestOutput::VerbosityLevel has explicit values")
    return {"TestOutput::" + n: i for i, n in enumerate(names)}


class RunnerEmit:
    """statement list -> Lean expression of type `List Ev` (the calls made, in order)"""

    def __init__(self, name, getter_map, levels):
        self.name, self.g, self.levels = name, getter_map, levels
        self.repeat_var = None          # local bound to arguments_->getRepeatCount()
        self.zero_vars = set()          # size_t locals initialised with 0
        self.loop_var = None
        self.accounting = []            # statements about failure counting (kept as text, not interpreted)
        self.ret = []

    def err(self, msg):
        raise TranslateError("%s: %s" % (self.name, msg))

    def arg_getter(self, e):
        """`arguments_->G()` -> lean"""
        if e[0] == "call" and e[1][0] == "member" and e[1][1] == ("id", "arguments_") and not e[2]:
            n = e[1][2]
            if n not in self.g:
                self.err("unknown getter " + n)
            fld, enum = self.g[n]
            return "(c.%s == .%s)" % (fld, enum) if enum else "c." + fld
        return None

    def cond(self, e):
        g = self.arg_getter(e)
        if g:
            return g
        if e[0] == "bin" and e[1] in ("||", "&&"):
            return "(%s %s %s)" % (self.cond(e[2]), e[1], self.cond(e[3]))
        if e[0] == "not":
            return "(!%s)" % self.cond(e[1])
        self.err("condition of unknown form")

    def value(self, e):
        g = self.arg_getter(e)
        if g:
            return g
        if e[0] == "id" and e[1] == self.repeat_var:
            return "c.repeatCount"
        if e[0] == "id" and e[1] == self.loop_var:
            return "loopCount"
        self.err("value of unknown form")

    def call_event(self, e):
        """expression statement -> event text, "INIT" for initializeTestRun(), or None"""
        if e[0] != "call":
            return None
        f, args = e[1], e[2]
        if f == ("id", "initializeTestRun") and not args:
            return "INIT"
        if f == ("id", "UtestShell::setCrashOnFail") and not args:
            return ".crashOnFail"
        if f == ("id", "UtestShell::setRethrowExceptions") and len(args) == 1:
            return ".rethrow %s" % self.value(args[0])
        if f[0] == "member" and f[1] in (("id", "registry_"), ("id", "output_")):
            obj, m = f[1][1], f[2]
            simple = {("registry_", "setRunTestsInSeperateProcess"): ".separateProcess", ("registry_", "setRunIgnored"): ".runIgnored",
                      ("registry_", "reverseTests"): ".reverse", ("output_", "color"): ".color"}
            if (obj, m) in simple and not args:
                return simple[(obj, m)]
            if obj == "registry_" and m in ("setGroupFilters", "setNameFilters") and len(args) == 1:
                want = "getGroupFilters" if m == "setGroupFilters" else "getNameFilters"
                if args[0] != ("call", ("member", ("id", "arguments_"), want), []):
                    self.err("%s is not given arguments_->%s()" % (m, want))
                return "." + m
            if obj == "registry_" and m in ("listTestGroupNames", "listTestGroupAndCaseNames", "listTestLocations", "runAllTests") \
                    and args == [("id", "tr")]:
                return {"listTestGroupNames": ".listGroups", "listTestGroupAndCaseNames": ".listNames",
                        "listTestLocations": ".listLocations", "runAllTests": ".runAll"}[m]
            if obj == "registry_" and m == "shuffleTests" and len(args) == 1:
                return ".shuffle %s" % self.value(args[0])
            if obj == "output_" and m == "verbose" and len(args) == 1 and args[0][0] == "id" and args[0][1] in self.levels:
                return ".verbose %d" % self.levels[args[0][1]]
            if obj == "output_" and m == "print" and len(args) == 1:
                if args[0][0] == "str":
                    return ".print %s" % lean_str_lit(args[0][1])
                return ".printNum %s" % self.value(args[0])
            if obj == "output_" and m == "printTestRun" and len(args) == 2:
                return ".printTestRun %s %s" % (self.value(args[0]), self.value(args[1]))
        return None

    def stmts(self, items, in_loop=False):
        if not items:
            return "[]"
        st, rest = items[0], items[1:]
        k = st[0]
        if k == "block":
            return self.stmts(list(st[1]) + rest, in_loop)
        if k == "return":
            if in_loop:
                self.err("return inside the loop")
            self.ret.append(st[1])
            return "[]"
        if k == "decl":
            ty, name, init = st[1].replace(" ", ""), st[2], st[3]
            if ty == "size_t" and init == ("num", 0):
                self.zero_vars.add(name)
            elif ty == "size_t" and init == ("call", ("member", ("id", "arguments_"), "getRepeatCount"), []):
                self.repeat_var = name
            elif ty == "TestResult" and name == "tr" and init == ("deref", ("id", "output_")):
                pass                      # TestResult tr(*output_)
            else:
                self.err("declaration of unknown form: %s %s" % (st[1], name))
            return self.stmts(rest, in_loop)
        if k == "if":
            # failure accounting inside the loop: kept as text
            if in_loop and st[1] == ("call", ("member", ("id", "tr"), "isFailure"), []):
                self.accounting.append("if(tr.isFailure())" + show(st[2]))
                if st[3] is not None:
                    self.err("else after if (tr.isFailure())")
                return self.stmts(rest, in_loop)
            c = self.cond(st[1])
            if not has_return(st[2]) and not has_return(st[3]):
                a = self.stmts([st[2]], in_loop)
                b = self.stmts([st[3]] if st[3] is not None else [], in_loop)
                return "((if %s then %s else %s) ++ %s)" % (c, a, b, self.stmts(rest, in_loop))
            a = self.stmts([st[2]] + rest, in_loop)
            b = self.stmts(([st[3]] if st[3] is not None else []) + rest, in_loop)
            return "(if %s then %s else %s)" % (c, a, b)
        if k == "addassign":
            if not in_loop:
                self.err("+= outside the loop")
            self.accounting.append(show(st))
            return self.stmts(rest, in_loop)
        if k == "while":
            if in_loop:
                self.err("nested loop")
            c = st[1]
            ok = (c[0] == "bin" and c[1] == "<" and c[2][0] == "postinc" and c[2][1][0] == "id" and c[2][1][1] in self.zero_vars
                  and c[3] == ("id", self.repeat_var) and self.repeat_var is not None)
            if not ok:
                self.err("loop condition is not `<counter starting at 0>++ < <repeat count>`")
            self.loop_var = c[2][1][1]
            body = self.stmts([st[2]], True)
            self.loop_var = None
            return "((List.range c.repeatCount).flatMap (fun j => let loopCount := j + 1; %s) ++ %s)" % (body, self.stmts(rest, in_loop))
        if k == "expr":
            ev = self.call_event(st[1])
            if ev == "INIT":
                return "(initializeTestRun c ++ %s)" % self.stmts(rest, in_loop)
            if ev:
                return "((%s) :: %s)" % (ev, self.stmts(rest, in_loop))
            self.err("statement of unknown form: " + show(st))
        self.err("statement kind " + k)


def has_return(st):
    if st is None:
        return False
    if st[0] == "return":
        return True
    if st[0] == "block":
        return any(has_return(x) for x in st[1])
    if st[0] == "if":
        return has_return(st[2]) or has_return(st[3])
    if st[0] == "while":
        return has_return(st[2])
    return False


def uniq(xs):
    out = []
    for x in xs:
        if x not in out:
            out.append(x)
    return out


def lean_str_lit(body):
    """C string literal body -> Lean string literal (only \\n, \\", \\\\ escapes are understood)"""
    if re.search(r"\\[^n\"\\]", body):
        raise TranslateError("escape sequence in printed text: " + body)
    return '"' + body + '"'


def show(node):
    """compact text of a parsed node (for the parts kept as text)"""
    if isinstance(node, tuple):
        return "(" + " ".join(show(x) for x in node) + ")"
    if isinstance(node, list):
        return "[" + " ".join(show(x) for x in node) + "]"
    return str(node)


def runner_events(src, rsrc):
    gm = {n: (f, e) for n, f, e in getters(src)}
    lv = verbosity_levels()
    out = ""
    body = function_body(rsrc, r"void\s+CommandLineTestRunner::initializeTestRun\s*\(\s*\)\s*\{")
    em = RunnerEmit("initializeTestRun", gm, lv)
    init = em.stmts(P(tokenize(body), "initializeTestRun").block_items())
    out += "/-- CommandLineTestRunner::initializeTestRun: the calls it makes, in order -/\n"
    out += "def initializeTestRun (c : Config) : List Ev :=\n  %s\n\n" % init
    body = function_body(rsrc, r"int\s+CommandLineTestRunner::runAllTests\s*\(\s*\)\s*\{")
    em = RunnerEmit("runAllTests", gm, lv)
    run = em.stmts(P(tokenize(body), "runAllTests").block_items())
    out += "/-- CommandLineTestRunner::runAllTests: the calls it makes, in order (the `while (loopCount++ < repeatCount)` loop as a map over `range repeatCount`) -/\n"
    out += "def runAllTests (c : Config) : List Ev :=\n  %s\n\n" % run
    out += "/-- the failure accounting of the loop body and the returned expressions, as parsed text -/\n"
    out += "def loopAccounting : List String := [%s]\n" % ", ".join('"%s"' % a for a in uniq(em.accounting))
    out += "def returnedExpressions : List String := [%s]\n\n" % ", ".join('"%s"' % r for r in uniq([show(r) for r in em.ret]))
    return out


EV_DECL = """inductive Ev
  | setGroupFilters | setNameFilters | verbose (lvl : Nat) | color | separateProcess | runIgnored | crashOnFail
  | rethrow (b : Bool) | listGroups | listNames | listLocations | reverse | print (s : String) | printNum (n : Nat)
  | shuffle (seed : Nat) | printTestRun (i n : Nat) | runAll
deriving DecidableEq, Repr

"""


def extract():
    src = strip_comments(read(SRC))
    known = {}
    text = HEADER % ("translate/extract_cmdline_fns.py", SRC + ", " + RUNNER)
    text += "import CppUModel.Spec.CommandLine\n"
    text += "set_option linter.unusedVariables false\n"
    text += "namespace Gen.ParseHandlers\nopen CommandLine Text\n\n"
    text += "/-- the members the translated functions write: the configuration and `shufflingPreSeeded_` -/\n"
    text += "structure St where\n  cfg : Config\n  preSeeded : Bool := false\nderiving DecidableEq, Repr\n\n"
    text += "/-- state afterwards, how far `i` was advanced, returned value -/\n"
    text += "structure Out (α : Type) where\n  st : St\n  k : Nat\n  ret : α\nderiving DecidableEq, Repr\n\n"
    for n in ORDER:
        fn = load_fn(src, n)
        text += "/-- CommandLineArguments::%s, statement by statement -/\n" % n
        text += emit_fn(fn, known) + "\n"
        known[n] = fn
    text += "/-- body of the `for` loop of CommandLineArguments::parse (chain + rejection test); `ret` = the loop goes on -/\n"
    text += emit_parse_body(src, known) + "\n"
    gs = getters(src)
    text += "/-- every `const` getter: (name, Config field it returns, enum value it compares the field with) -/\n"
    text += "def getters : List (String × String × String) := [\n"
    text += ",\n".join('  ("%s", "%s", "%s")' % g for g in gs) + "\n]\n\n"
    text += "/-- the configuration the constructor's initialiser list sets up -/\n"
    text += "def initialConfig : Config :=\n  { %s }\n\n" % ",\n    ".join(initial_config(ctor_inits(src)))
    text += "def initialPreSeeded : Bool := %s\n\n" % dict(ctor_inits(src)).get("shufflingPreSeeded_", "?")
    text += "/-- the constructor's member initialisers, in order -/\n"
    text += "def ctorInits : List (String × String) := [\n"
    text += ",\n".join('  ("%s", "%s")' % c for c in ctor_inits(src)) + "\n]\n\n"
    rsrc = strip_comments(read(RUNNER))
    text += "inductive OutEv | console | junit (pkg : Bytes) | teamcity | composite\nderiving DecidableEq, Repr\n\n"
    text += "/-- CommandLineTestRunner::parseArguments after a successful parse: the outputs created, in order -/\n"
    text += "def createdOutputs (c : Config) : List OutEv :=\n  %s\n\n" % created_outputs(rsrc)
    text += "/-- what the runner does to the registry, the output and the static switches -/\n" + EV_DECL
    text += runner_events(src, rsrc)
    text += "end Gen.ParseHandlers\n"
    return text


def run():
    text = extract()
    core.write_if_changed(os.path.join(core.LEAN, "CppUModel", "Gen", "ParseHandlers.lean"), text)
    return []


if __name__ == "__main__":
    print(extract())
