"""Regenerates lean/CppUModel/Gen/PluginCode.lean from the CURRENT source on every check run (C17).

Route: clang++-14 typed JSON AST of src/CppUTest/TestPlugin.cpp (every implicit conversion is an explicit node)
-> the small statement language of lean/CppUModel/Model/PluginsSyntax.lean, interpreted by Model/PluginsTable.lean.

Translated
  * `CppUTestStore`                        -> `storeCode`   (guard incl. its relation and bound, the two member stores, the index update)
  * `SetPointerPlugin::postTestAction`     -> `postCode`    (the loop: start, bound, direction; its body; the index reset)
  * `SetPointerPlugin::SetPointerPlugin`   -> `ctorCode`
  * `static cpputest_pair setlist[N]`      -> `setlistLen`  (from the declared array type of every `setlist` reference)
  * `TestPlugin::runAllPreTestAction` / `runAllPostTestAction` -> `preSteps` / `postSteps` (statement order, the `enabled_` guard);
    the overrides of `NullTestPlugin` must be empty (they end the recursion)
  * the `UT_PTR_SET` macro (token level)   -> `utPtrSetSteps`
Anything outside the subset raises TranslateError (handled by the check like a broken obligation)."""
import json, os, re, subprocess
from .common import TranslateError, HEADER, core, read

SRC = "src/CppUTest/TestPlugin.cpp"
HDR = "include/CppUTest/TestPlugin.h"
PASS = ("ParenExpr", "ExprWithCleanups", "ConstantExpr")
TRANSPARENT_CASTS = ("LValueToRValue", "NoOp", "IntegralCast", "BitCast")


def clang_ast(flt):
    src = os.path.join(core.REPO, SRC)
    cmd = ["clang++-14", "-std=gnu++17", "-fsyntax-only", "-w",
           "-I" + os.path.join(core.REPO, "include"), "-I" + os.path.join(core.VERIF, "harness", "config"),
           "-DHAVE_CONFIG_H", "-Xclang", "-ast-dump=json", "-Xclang", "-ast-dump-filter=" + flt, src]
    try:
        p = subprocess.run(cmd, stdout=subprocess.PIPE, stderr=subprocess.PIPE, text=True, timeout=300)
    except OSError as e:
        raise TranslateError("clang++-14 cannot be run: %s" % e)
    if p.returncode != 0:
        raise TranslateError("clang cannot parse %s: %s" % (SRC, p.stderr[-1500:]))
    docs, dec, i, s = [], json.JSONDecoder(), 0, p.stdout
    n = len(s)
    while True:
        while i < n and s[i].isspace():
            i += 1
        if i >= n:
            break
        o, i = dec.raw_decode(s, i)
        docs.append(o)
    return docs


def body_of(d):
    for c in d.get("inner", []):
        if c.get("kind") == "CompoundStmt":
            return c
    return None


def kids(n):
    return [c for c in n.get("inner", []) if c.get("kind")]


def where(node):
    r = node.get("range", {}).get("begin", {})
    line = r.get("line") or r.get("expansionLoc", {}).get("line") or r.get("spellingLoc", {}).get("line")
    return " (near line %s)" % line if line else ""


def strip(n):
    """drop parentheses and value-preserving casts"""
    while True:
        k = n.get("kind")
        if k in PASS or (k in ("ImplicitCastExpr", "CStyleCastExpr") and n.get("castKind") in TRANSPARENT_CASTS):
            n = kids(n)[0]
        else:
            return n


def find_value(n):
    if isinstance(n, dict):
        if n.get("kind") in ("ConstantExpr", "IntegerLiteral") and "value" in n:
            return int(n["value"])
        for c in n.get("inner", []):
            v = find_value(c)
            if v is not None:
                return v
    return None


class Tr:
    def __init__(self, enum_consts):
        self.enum = enum_consts
        self.param = None
        self.loopvar = None
        self.lens = set()

    def refname(self, n):
        return (n.get("referencedDecl") or {}).get("name")

    # ---- int expressions
    def iexp(self, n):
        n = strip(n)
        k = n.get("kind")
        if k == "IntegerLiteral":
            return ".lit %d" % int(n["value"])
        if k == "DeclRefExpr":
            name = self.refname(n)
            if name == "pointerTableIndex":
                return ".idx"
            if self.loopvar and name == self.loopvar:
                return ".loopVar"
            if (n.get("referencedDecl") or {}).get("kind") == "EnumConstantDecl" and name in self.enum:
                return ".lit %d" % self.enum[name]
            raise TranslateError("integer expression refers to `%s`%s" % (name, where(n)))
        if k == "BinaryOperator" and n.get("opcode") in ("+", "-"):
            a, b = kids(n)
            return "(.%s (%s) (%s))" % ("add" if n["opcode"] == "+" else "sub", self.iexp(a), self.iexp(b))
        if k == "UnaryOperator" and n.get("opcode") == "-" and strip(kids(n)[0]).get("kind") == "IntegerLiteral":
            return ".lit (%d)" % -int(strip(kids(n)[0])["value"])
        raise TranslateError("cannot translate integer expression %s%s" % (k, where(n)))

    def element(self, n):
        """`setlist[e].member` -> (member, index expression)"""
        if n.get("kind") != "MemberExpr":
            return None
        base = strip(kids(n)[0])
        if base.get("kind") != "ArraySubscriptExpr":
            return None
        arr, ix = kids(base)
        arr = arr
        while arr.get("kind") == "ImplicitCastExpr" and arr.get("castKind") == "ArrayToPointerDecay":
            arr = kids(arr)[0]
        if arr.get("kind") != "DeclRefExpr" or self.refname(arr) != "setlist":
            raise TranslateError("array access to something other than setlist%s" % where(n))
        m = re.match(r"cpputest_pair\s*\[(\d+)\]$", arr.get("type", {}).get("qualType", ""))
        if not m:
            raise TranslateError("setlist is no longer an array of cpputest_pair: %s" % arr.get("type"))
        self.lens.add(int(m.group(1)))
        return n.get("name"), self.iexp(ix)

    # ---- locations (void**)
    def pexp(self, n):
        n = strip(n)
        k = n.get("kind")
        if k == "DeclRefExpr" and self.param and self.refname(n) == self.param:
            return ".param"
        el = self.element(n)
        if el and el[0] == "orig":
            return "(.origAt (%s))" % el[1]
        raise TranslateError("cannot translate location expression %s%s" % (k, where(n)))

    # ---- values (void*)
    def vexp(self, n):
        n = strip(n)
        k = n.get("kind")
        if k == "UnaryOperator" and n.get("opcode") == "*":
            return "(.deref %s)" % self.pexp(kids(n)[0])
        el = self.element(n)
        if el and el[0] == "orig_value":
            return "(.origValueAt (%s))" % el[1]
        raise TranslateError("cannot translate value expression %s%s" % (k, where(n)))

    def cond(self, n):
        n = strip(n)
        rel = {">=": ".ge", ">": ".gt", "<=": ".le", "<": ".lt", "==": ".eq", "!=": ".ne"}
        if n.get("kind") != "BinaryOperator" or n.get("opcode") not in rel:
            raise TranslateError("cannot translate condition %s%s" % (n.get("kind"), where(n)))
        a, b = kids(n)
        return "⟨%s, %s, %s⟩" % (rel[n["opcode"]], self.iexp(a), self.iexp(b)), n["opcode"], a, b

    def is_fail(self, n):
        """the expansion of FAIL("…"): UtestShell::getCurrent()->fail(text, file, line)"""
        k = n.get("kind")
        if k in ("CompoundStmt", "DoStmt"):
            inner = kids(n)
            if k == "DoStmt":
                inner = inner[:1]
            return len(inner) == 1 and self.is_fail(inner[0])
        if k == "CXXMemberCallExpr":
            callee = kids(n)[0]
            return callee.get("kind") == "MemberExpr" and callee.get("name") == "fail"
        return False

    def simple(self, n):
        k = n.get("kind")
        if k == "IfStmt":
            parts = kids(n)
            if len(parts) != 2 or not self.is_fail(parts[1]):
                raise TranslateError("an `if` that is not `if (c) { FAIL(...); }`%s" % where(n))
            return ".failIf %s" % self.cond(parts[0])[0]
        if k == "BinaryOperator" and n.get("opcode") == "=":
            lhs, rhs = kids(n)
            l = strip(lhs) if lhs.get("kind") in PASS else lhs
            if l.get("kind") == "DeclRefExpr" and self.refname(l) == "pointerTableIndex":
                return ".setIdx (%s)" % self.iexp(rhs)
            if l.get("kind") == "UnaryOperator" and l.get("opcode") == "*":
                return ".storeThrough %s %s" % (self.pexp(kids(l)[0]), self.vexp(rhs))
            el = self.element(l)
            if el and el[0] == "orig_value":
                return ".setOrigValue (%s) %s" % (el[1], self.vexp(rhs))
            if el and el[0] == "orig":
                return ".setOrig (%s) %s" % (el[1], self.pexp(rhs))
            raise TranslateError("assignment to an unknown left-hand side%s" % where(n))
        if k == "UnaryOperator" and n.get("opcode") in ("++", "--"):
            t = strip(kids(n)[0])
            if t.get("kind") == "DeclRefExpr" and self.refname(t) == "pointerTableIndex":
                return ".setIdx (.%s .idx (.lit 1))" % ("add" if n["opcode"] == "++" else "sub")
        if k == "CompoundAssignOperator" and n.get("opcode") in ("+=", "-="):
            lhs, rhs = kids(n)
            if strip(lhs).get("kind") == "DeclRefExpr" and self.refname(strip(lhs)) == "pointerTableIndex":
                return ".setIdx (.%s .idx (%s))" % ("add" if n["opcode"] == "+=" else "sub", self.iexp(rhs))
        raise TranslateError("cannot translate statement %s%s" % (k, where(n)))

    def stmts(self, n):
        if n.get("kind") == "CompoundStmt":
            out = []
            for c in kids(n):
                out += self.stmts(c)
            return out
        if n.get("kind") == "NullStmt":
            return []
        if n.get("kind") == "ForStmt":
            return [self.loop(n)]
        return [".simple (%s)" % self.simple(n)]

    def loop(self, n):
        parts = n.get("inner", [])
        if len(parts) != 5 or parts[1].get("kind"):
            raise TranslateError("unexpected shape of the for statement%s" % where(n))
        init, _, cond, inc, body = parts
        if init.get("kind") != "DeclStmt" or len(kids(init)) != 1 or kids(init)[0].get("kind") != "VarDecl":
            raise TranslateError("the loop does not declare its variable%s" % where(n))
        var = kids(init)[0]
        if var.get("type", {}).get("qualType") != "int" or not kids(var):
            raise TranslateError("the loop variable is not an initialised int%s" % where(n))
        start = self.iexp(kids(var)[0])
        self.loopvar = var["name"]
        _, op, a, b = self.cond(cond)
        if self.iexp(a) != ".loopVar":
            raise TranslateError("the loop condition does not test the loop variable on its left%s" % where(n))
        bnd = strip(b)
        inc_s = strip(inc)
        if inc_s.get("kind") != "UnaryOperator" or inc_s.get("opcode") not in ("++", "--") or \
                self.iexp(kids(inc_s)[0]) != ".loopVar":
            raise TranslateError("the loop step is not i++ / i--%s" % where(n))
        body_l = []
        for s in (kids(body) if body.get("kind") == "CompoundStmt" else [body]):
            body_l.append(self.simple(s))
        if any(x.startswith(".setIdx") or x.startswith(".failIf") for x in body_l):
            raise TranslateError("the loop body changes pointerTableIndex or fails%s" % where(n))
        self.loopvar = None
        bound = self.iexp(bnd)          # literal or pointerTableIndex (the body cannot change either)
        if ".loopVar" in bound:
            raise TranslateError("loop bound mentions the loop variable")
        body_txt = "[" + ", ".join(body_l) + "]"
        if inc_s["opcode"] == "--" and op in (">=", ">"):
            lo = bound if op == ">=" else "(.add (%s) (.lit 1))" % bound
            return ".forDown (%s) (%s) %s" % (start, lo, body_txt)
        if inc_s["opcode"] == "++" and op in ("<", "<="):
            hi = bound if op == "<" else "(.add (%s) (.lit 1))" % bound
            return ".forUp (%s) (%s) %s" % (start, hi, body_txt)
        raise TranslateError("loop direction and condition do not fit (%s with %s)%s" % (inc_s["opcode"], op, where(n)))


def definition(docs, name, kind=None, parent=None, not_parent=None):
    found = [d for d in docs if d.get("name") == name and body_of(d) is not None and (kind is None or d.get("kind") == kind)]
    if parent is not None:
        found = [d for d in found if d.get("parentDeclContextId") == parent]
    if not_parent is not None:
        found = [d for d in found if d.get("parentDeclContextId") != not_parent]
    if len(found) != 1:
        raise TranslateError("%d definitions of %s found" % (len(found), name))
    return found[0]


def walk_steps(d, action, walker):
    out = []
    for s in kids(body_of(d)):
        k = s.get("kind")
        call, guarded = s, False
        if k == "IfStmt":
            parts = kids(s)
            c = strip(parts[0])
            if len(parts) != 2 or c.get("kind") != "MemberExpr" or c.get("name") != "enabled_" or \
                    kids(c)[0].get("kind") != "CXXThisExpr":
                raise TranslateError("%s: a guard that is not `if (enabled_)`%s" % (walker, where(s)))
            call, guarded = parts[1], True
            if call.get("kind") == "CompoundStmt" and len(kids(call)) == 1:
                call = kids(call)[0]
        if call.get("kind") != "CXXMemberCallExpr":
            raise TranslateError("%s: unexpected statement %s%s" % (walker, call.get("kind"), where(s)))
        callee = kids(call)[0]
        obj = strip(kids(callee)[0])
        args = [strip(a) for a in kids(call)[1:]]
        if [a.get("referencedDecl", {}).get("name") for a in args] != ["test", "result"]:
            raise TranslateError("%s: a call that does not pass (test, result) on%s" % (walker, where(s)))
        if callee.get("name") == action and obj.get("kind") == "CXXThisExpr":
            out.append(".ownIfEnabled" if guarded else ".own")
        elif callee.get("name") == walker and obj.get("kind") == "MemberExpr" and obj.get("name") == "next_" \
                and kids(obj)[0].get("kind") == "CXXThisExpr" and not guarded:
            out.append(".next")
        else:
            raise TranslateError("%s: cannot translate the call of %s%s" % (walker, callee.get("name"), where(s)))
    return out


def macro_steps():
    m = re.search(r"#define\s+UT_PTR_SET\(\s*a\s*,\s*b\s*\)(.*?)\n\s*\n", read(HDR), re.S)
    if not m:
        raise TranslateError("macro UT_PTR_SET(a, b) not found")
    text = re.sub(r"\s+", "", m.group(1).replace("\\", ""))
    mm = re.match(r"^do\{(.*)\}while\(0\)$", text)
    if not mm:
        raise TranslateError("UT_PTR_SET is no longer a do { … } while (0) block: " + text)
    steps = []
    for st in [x for x in mm.group(1).split(";") if x]:
        if st == "CppUTestStore((void**)&(a))":
            steps.append(".callStore")
        elif st in ("(a)=b", "(a)=(b)", "a=b"):
            steps.append(".assign")
        else:
            raise TranslateError("UT_PTR_SET: cannot translate statement `%s`" % st)
    return steps


def extract():
    docs_sp = clang_ast("Plugin")
    enum = {}
    def scan(n):
        if n.get("kind") == "EnumConstantDecl":
            v = find_value(n)
            if v is not None:
                enum[n["name"]] = v
        for c in n.get("inner", []):
            scan(c)
    for d in docs_sp:
        scan(d)
    if "MAX_SET" not in enum:
        raise TranslateError("SetPointerPlugin::MAX_SET not found in the AST")
    tr = Tr(enum)
    store = definition(clang_ast("CppUTestStore"), "CppUTestStore", "FunctionDecl")
    params = [c for c in kids(store) if c.get("kind") == "ParmVarDecl"]
    if len(params) != 1 or params[0].get("type", {}).get("qualType") != "void **":
        raise TranslateError("CppUTestStore no longer takes one void**")
    tr.param = params[0].get("name")
    store_code = tr.stmts(body_of(store))
    tr.param = None
    post_code = tr.stmts(body_of(definition(docs_sp, "postTestAction", "CXXMethodDecl")))
    ctor = definition(docs_sp, "SetPointerPlugin", "CXXConstructorDecl")
    ctor_code = tr.stmts(body_of(ctor))
    if len(tr.lens) != 1:
        raise TranslateError("setlist referenced with array types %s" % sorted(tr.lens))
    null_id = None
    for d in docs_sp:
        if d.get("kind") == "CXXRecordDecl" and d.get("name") == "NullTestPlugin" and d.get("completeDefinition"):
            null_id = d.get("id")
    if not null_id:
        raise TranslateError("class NullTestPlugin not found")
    walks = docs_sp
    pre = walk_steps(definition(walks, "runAllPreTestAction", not_parent=null_id), "preTestAction", "runAllPreTestAction")
    post = walk_steps(definition(walks, "runAllPostTestAction", not_parent=null_id), "postTestAction", "runAllPostTestAction")
    for nm in ("runAllPreTestAction", "runAllPostTestAction"):
        if kids(body_of(definition(walks, nm, parent=null_id))):
            raise TranslateError("NullTestPlugin::%s is no longer empty (it ends the recursion over the chain)" % nm)
    macro = macro_steps()

    def lst(items, indent="  "):
        return "[\n" + ",\n".join(indent + x for x in items) + "]"

    text = HEADER % ("translate/extract_plugincode.py", SRC + ", " + HDR)
    text += "import CppUModel.Model.PluginsSyntax\nnamespace Gen.PluginCode\nopen Plugins.Code\n\n"
    text += "/-- number of elements of `static cpputest_pair setlist[…]` (from the declared array type) -/\n"
    text += "def setlistLen : Nat := %d\n\n" % sorted(tr.lens)[0]
    text += "/-- `void CppUTestStore(void** function)` -/\ndef storeCode : List TStmt := %s\n\n" % lst(store_code)
    text += "/-- `SetPointerPlugin::postTestAction` -/\ndef postCode : List TStmt := %s\n\n" % lst(post_code)
    text += "/-- body of the `SetPointerPlugin` constructor -/\ndef ctorCode : List TStmt := %s\n\n" % lst(ctor_code)
    text += "/-- `UT_PTR_SET(a, b)` -/\ndef utPtrSetSteps : List MacroStep := [%s]\n\n" % ", ".join(macro)
    text += "/-- `TestPlugin::runAllPreTestAction` -/\ndef preSteps : List WalkStep := [%s]\n\n" % ", ".join(pre)
    text += "/-- `TestPlugin::runAllPostTestAction` -/\ndef postSteps : List WalkStep := [%s]\n\n" % ", ".join(post)
    text += "end Gen.PluginCode\n"
    return text


def run():
    text = extract()
    core.write_if_changed(os.path.join(core.LEAN, "CppUModel", "Gen", "PluginCode.lean"), text)
    return []
