"""cxx2lean for C03: regenerates lean/CppUModel/Gen/AssertFns.lean from clang's TYPED JSON AST of the CURRENT
src/CppUTest/Utest.cpp on every check run (every implicit conversion is an explicit node there).

Translated (executable Lean definitions, not texts):
  * `doubles_equal`  -> `Gen.AssertFns.doubles_equal` over the class model `D F` (the finite arithmetic stays a parameter):
        PlatformSpecificIsNan(x) = D.isNan x, PlatformSpecificIsInf(x) = D.isInf x, PlatformSpecificFabs(x) = D.abs o x,
        a - b = D.sub o a b, a <= b = D.le o a b, x > 0 = D.gt0 o x
  * every `UtestShell::assert*` body and `UtestShell::fail` -> `runAssert 0 [stmts]`, the statement list in source order:
        getTestResult()->countCheck()   -> .count
        if (c) return;                  -> .retIf c
        if (c) failWith(F(this, ...)[, testTerminator]);  -> .failIf c
        failWith(...);                  -> .failAlways
    integer parameters are `BitVec w` (LP64), conversions are the IntegralCast nodes clang inserted
    (signed source = signExtend, unsigned source = setWidth), `const char*` / block pointers are `Option Bytes`
    (none = NULL), compared pointers are `BitVec 64`; the callees StrCmp / StrNCmp / MemCmp /
    SimpleString(p).equalsNoCase / contains / containsNoCase / doubles_equal map to the primitives `Asserts.P.*` of
    Model/Asserts.lean (their loops are C13's subject).
  * the macro layer (second half of this file, `probe_macros`): a probe translation unit instantiates every integer check
    macro of UtestMacros.h / TestHarness_c.h at every operand type (pair) the harness drives; the macro's expansion is read
    back from the typed AST (callee, casts, usual arithmetic conversions, `& 0xff`, relational operator at the common type)
    and emitted as `Gen.AssertFns.M_<macro>_<te>_<ta> : BitVec we -> BitVec wa -> Outcome`.

Anything outside the subset raises TranslateError (handled by the check like a broken obligation)."""
import json, os, subprocess, tempfile
from .common import TranslateError, HEADER, core

SRC = "src/CppUTest/Utest.cpp"
CSRC = "src/CppUTest/TestHarness_c.cpp"

ASSERTS = ["assertTrue", "fail", "assertCstrEqual", "assertCstrNEqual", "assertCstrNoCaseEqual", "assertCstrContains",
           "assertCstrNoCaseContains", "assertLongsEqual", "assertUnsignedLongsEqual", "assertLongLongsEqual",
           "assertUnsignedLongLongsEqual", "assertSignedBytesEqual", "assertPointersEqual",
           "assertFunctionPointersEqual", "assertDoublesEqual", "assertBinaryEqual", "assertBitsEqual", "assertEquals",
           "assertCompare"]
# parameters that only feed the failure text / location / the way the test is left
NOISE_PARAMS = {"text", "fileName", "lineNumber", "file", "line", "testTerminator", "checkString", "conditionString",
                "comparisonString"}
INT_TYPES = {"signed char": (8, True), "char": (8, True), "unsigned char": (8, False), "short": (16, True),
             "unsigned short": (16, False), "int": (32, True), "unsigned int": (32, False), "long": (64, True),
             "unsigned long": (64, False), "long long": (64, True), "unsigned long long": (64, False)}
PASS = ("ParenExpr", "ExprWithCleanups", "MaterializeTemporaryExpr", "CXXBindTemporaryExpr", "ConstantExpr")
PASS_CASTS = ("LValueToRValue", "NoOp", "FunctionToPointerDecay")


def clang_docs(path, filt, extra=()):
    cmd = ["clang++-14", "-std=gnu++17", "-fsyntax-only", "-w", "-I" + os.path.join(core.REPO, "include"),
           "-I" + os.path.join(core.VERIF, "harness", "config"), "-DHAVE_CONFIG_H"] + list(extra) + \
          ["-Xclang", "-ast-dump=json", "-Xclang", "-ast-dump-filter=" + filt, path]
    try:
        p = subprocess.run(cmd, stdout=subprocess.PIPE, stderr=subprocess.PIPE, text=True, timeout=300)
    except OSError as e:
        raise TranslateError("clang++-14 cannot be run: %s" % e)
    if p.returncode != 0:
        raise TranslateError("clang cannot parse %s: %s" % (path, p.stderr[-1200:]))
    docs, dec, i, s = [], json.JSONDecoder(), 0, p.stdout
    n = len(s)
    while True:
        while i < n and s[i].isspace():
            i += 1
        if i >= n:
            break
        o, i = dec.raw_decode(s, i)
        docs.append(o)
    return docs


def body_of(d):
    for c in d.get("inner", []):
        if c.get("kind") == "CompoundStmt":
            return c
    return None


def ctype(node):
    t = node.get("type", {})
    q = t.get("desugaredQualType", t.get("qualType", "")).strip()
    if q.startswith("const ") and not any(c in q for c in "*(&"):
        q = q[6:]
    return q.strip()


def where(node):
    r = node.get("range", {}).get("begin", {})
    line = r.get("line") or r.get("expansionLoc", {}).get("line") or r.get("spellingLoc", {}).get("line")
    return " (near line %s)" % line if line else ""


def kids(node):
    return [c for c in node.get("inner", []) if c.get("kind")]


class Tr:
    """expression translator.  A value is (lean text, sort); sorts:
       ("bool",) ("bv", w, signed) ("int",) ("dbl",) ("opt",) ("sstr",) ("null",) ("lit", n) ("dzero",)"""

    def __init__(self, fname, env):
        self.fname, self.env = fname, env

    def err(self, msg, node):
        raise TranslateError("%s: %s%s" % (self.fname, msg, where(node)))

    def lit_to(self, v, sort, node):
        """an integer literal used at another operand's sort"""
        if v[1][0] != "lit":
            return v
        n = v[1][1]
        if sort[0] == "bv":
            return ("(%d#%d)" % (n % (1 << sort[1]), sort[1]), sort)
        if sort[0] == "int":
            return ("(%d : Int)" % n, sort)
        if sort[0] == "lit":
            return v
        self.err("integer literal compared with a value of sort %s" % (sort,), node)

    def cast_int(self, v, node):
        """IntegralCast to the node's type"""
        t = ctype(node)
        if v[1][0] == "bool":
            if t in INT_TYPES:
                return v            # bool -> int promotion in front of ==, != : kept as Bool (0/1 compare like the Bools)
            self.err("bool converted to %s" % t, node)
        if t == "bool":
            return self.to_bool(v, node)
        if t not in INT_TYPES:
            self.err("integral cast to unsupported type %s" % t, node)
        w, s = INT_TYPES[t]
        if v[1][0] == "lit":
            return ("(%d#%d)" % (v[1][1] % (1 << w), w), ("bv", w, s))
        if v[1][0] != "bv":
            self.err("integral cast of a value of sort %s" % (v[1],), node)
        sw, ss = v[1][1], v[1][2]
        if sw == w:
            return (v[0], ("bv", w, s))
        return ("(%s.%s %d)" % (v[0], "signExtend" if ss else "setWidth", w), ("bv", w, s))

    def to_bool(self, v, node):
        if v[1][0] == "bool":
            return v
        if v[1][0] == "bv":
            return ("(%s != 0#%d)" % (v[0], v[1][1]), ("bool",))
        if v[1][0] == "lit":
            return ("true" if v[1][1] else "false", ("bool",))
        self.err("conversion to bool of sort %s" % (v[1],), node)

    def expr(self, n):
        k = n.get("kind")
        if k in PASS:
            return self.expr(kids(n)[0])
        if k in ("ImplicitCastExpr", "CStyleCastExpr", "CXXFunctionalCastExpr", "CXXStaticCastExpr"):
            ck = n.get("castKind")
            inner = kids(n)[0]
            if ck in PASS_CASTS:
                return self.expr(inner)
            if ck == "IntegralCast":
                return self.cast_int(self.expr(inner), n)
            if ck == "IntegralToBoolean":
                return self.to_bool(self.expr(inner), n)
            if ck == "IntegralToFloating":
                v = self.expr(inner)
                if v[1] == ("lit", 0):
                    return ("", ("dzero",))
                self.err("integer to floating conversion of something other than the literal 0", n)
            if ck == "NullToPointer":
                return ("", ("null",))
            if ck == "BitCast":          # pointer casts keep the address
                v = self.expr(inner)
                if v[1][0] in ("opt", "null") or v[1] == ("bv", 64, False):
                    return v
                self.err("bit cast of sort %s" % (v[1],), n)
            if ck == "ConstructorConversion":
                return self.expr(inner)
            self.err("cast kind %s not in the subset" % ck, n)
        if k == "DeclRefExpr":
            name = n.get("referencedDecl", {}).get("name")
            if name in self.env:
                return self.env[name]
            self.err("reference to `%s` (not an operand parameter / local)" % name, n)
        if k == "IntegerLiteral":
            return ("", ("lit", int(n["value"])))
        if k == "CXXBoolLiteralExpr":
            return ("true" if n.get("value") else "false", ("bool",))
        if k in ("CXXNullPtrLiteralExpr", "GNUNullExpr"):
            return ("", ("null",))
        if k == "UnaryExprOrTypeTraitExpr" and n.get("name") == "sizeof":
            if kids(n):
                v = self.expr(kids(n)[0])          # unevaluated operand: only its type matters
                if v[1][0] == "bv":
                    return ("", ("lit", v[1][1] // 8))
            self.err("sizeof of something other than an integer operand", n)
        if k == "UnaryOperator":
            op = n.get("opcode")
            v = self.expr(kids(n)[0])
            if op == "!":
                return ("(!%s)" % self.to_bool(v, n)[0], ("bool",))
            self.err("unary operator %s not in the subset" % op, n)
        if k == "BinaryOperator":
            return self.binop(n)
        if k == "CallExpr":
            return self.call(n)
        if k == "CXXMemberCallExpr":
            return self.member_call(n)
        if k == "CXXConstructExpr":
            if ctype(n).replace("const ", "") == "SimpleString" and len(kids(n)) == 1:
                v = self.expr(kids(n)[0])
                if v[1][0] == "opt":
                    return ("(P.SimpleString %s)" % v[0], ("sstr",))
                if v[1][0] == "sstr":
                    return v
            self.err("construction of %s not in the subset" % ctype(n), n)
        self.err("expression kind %s not in the subset" % k, n)

    def binop(self, n):
        op = n.get("opcode")
        a, b = [self.expr(c) for c in kids(n)]
        if op in ("||", "&&"):
            return ("(%s %s %s)" % (self.to_bool(a, n)[0], op, self.to_bool(b, n)[0]), ("bool",))
        if op in ("==", "!="):
            for x, y in ((a, b), (b, a)):
                if y[1][0] == "null":
                    if x[1][0] == "opt":
                        return ("(%s.%s)" % (x[0], "isNone" if op == "==" else "isSome"), ("bool",))
                    if x[1] == ("bv", 64, False):
                        return ("(%s %s 0#64)" % (x[0], op), ("bool",))
                    self.err("NULL compared with sort %s" % (x[1],), n)
            if a[1][0] == "lit" and b[1][0] == "lit":      # two int literals (CHECK_EQUAL_ZERO compares 0 with itself)
                r = (a[1][1] == b[1][1]) == (op == "==")
                return ("true" if r else "false", ("bool",))
            a, b = self.lit_to(a, b[1], n), self.lit_to(b, a[1], n)
            if a[1] != b[1] or a[1][0] not in ("bv", "bool", "int"):
                self.err("`%s` on sorts %s / %s" % (op, a[1], b[1]), n)
            return ("(%s %s %s)" % (a[0], op, b[0]), ("bool",))
        if op in ("<", "<=", ">", ">="):
            if a[1][0] == "dbl" and b[1][0] == "dzero" and op == ">":
                return ("(D.gt0 o %s)" % a[0], ("bool",))
            if a[1][0] == "dbl" and b[1][0] == "dbl":
                if op == "<=":
                    return ("(D.le o %s %s)" % (a[0], b[0]), ("bool",))
                if op == ">=":
                    return ("(D.le o %s %s)" % (b[0], a[0]), ("bool",))
                self.err("`%s` on doubles is not in the class model" % op, n)
            a, b = self.lit_to(a, b[1], n), self.lit_to(b, a[1], n)
            if a[1][0] == "bv" and a[1] == b[1]:
                f = {"<": "lt", "<=": "le", ">": "lt", ">=": "le"}[op]
                f = ("s" if a[1][2] else "u") + f
                x, y = (a[0], b[0]) if op in ("<", "<=") else (b[0], a[0])
                return ("(BitVec.%s %s %s)" % (f, x, y), ("bool",))
            self.err("`%s` on sorts %s / %s" % (op, a[1], b[1]), n)
        if op == "-" and a[1][0] == "dbl" and b[1][0] == "dbl":
            return ("(D.sub o %s %s)" % (a[0], b[0]), ("dbl",))
        if op in ("&", "|", "^"):
            a, b = self.lit_to(a, b[1], n), self.lit_to(b, a[1], n)
            if a[1][0] == "bv" and a[1] == b[1]:
                return ("(%s %s %s)" % (a[0], {"&": "&&&", "|": "|||", "^": "^^^"}[op], b[0]), a[1])
            self.err("`%s` on sorts %s / %s" % (op, a[1], b[1]), n)
        self.err("binary operator %s not in the subset" % op, n)

    def callee_name(self, n):
        c = kids(n)[0]
        while c.get("kind") in PASS or c.get("kind") == "ImplicitCastExpr":
            c = kids(c)[0]
        if c.get("kind") == "DeclRefExpr":
            return c.get("referencedDecl", {}).get("name")
        self.err("call through something other than a named function / function pointer", n)

    def call(self, n):
        name = self.callee_name(n)
        args = [self.expr(c) for c in kids(n)[1:]]
        sorts = [a[1][0] for a in args]
        if name in ("PlatformSpecificIsNan", "PlatformSpecificIsInf") and sorts == ["dbl"]:
            return ("(D.%s %s)" % ("isNan" if name.endswith("Nan") else "isInf", args[0][0]), ("bool",))
        if name == "PlatformSpecificFabs" and sorts == ["dbl"]:
            return ("(D.abs o %s)" % args[0][0], ("dbl",))
        if name == "doubles_equal" and sorts == ["dbl", "dbl", "dbl"]:
            return ("(doubles_equal o %s %s %s)" % tuple(a[0] for a in args), ("bool",))
        if name == "StrCmp" and sorts == ["opt", "opt"]:
            return ("(P.StrCmp %s %s)" % (args[0][0], args[1][0]), ("int",))
        if name in ("StrNCmp", "MemCmp") and sorts == ["opt", "opt", "bv"] and args[2][1] == ("bv", 64, False):
            return ("(P.%s %s %s %s)" % (name, args[0][0], args[1][0], args[2][0]), ("int",))
        self.err("call of %s(%s) not in the subset" % (name, ", ".join(sorts)), n)

    def member_call(self, n):
        m = kids(n)[0]
        if m.get("kind") != "MemberExpr":
            self.err("member call without a member expression", n)
        name = m.get("name")
        if name in ("equalsNoCase", "contains", "containsNoCase"):
            obj = self.expr(kids(m)[0])
            args = [self.expr(c) for c in kids(n)[1:]]
            if obj[1][0] == "sstr" and len(args) == 1 and args[0][1][0] == "sstr":
                return ("(P.%s %s %s)" % (name, obj[0], args[0][0]), ("bool",))
        self.err("member call %s not in the subset" % name, n)


def strip_stmt(n):
    while n.get("kind") in ("ExprWithCleanups",) or (n.get("kind") == "CompoundStmt" and len(kids(n)) == 1):
        n = kids(n)[0]
    return n


def is_count_check(n):
    n = strip_stmt(n)
    if n.get("kind") != "CXXMemberCallExpr" or len(kids(n)) != 1:
        return False
    m = kids(n)[0]
    if m.get("kind") != "MemberExpr" or m.get("name") != "countCheck":
        return False
    o = kids(m)[0]
    if o.get("kind") != "CXXMemberCallExpr":
        return False
    g = kids(o)[0]
    return g.get("kind") == "MemberExpr" and g.get("name") == "getTestResult" and kids(g)[0].get("kind") == "CXXThisExpr"


def is_fail_with(fname, n, has_term):
    n = strip_stmt(n)
    if n.get("kind") != "CXXMemberCallExpr":
        return False
    m = kids(n)[0]
    if m.get("kind") != "MemberExpr" or m.get("name") != "failWith" or kids(m)[0].get("kind") != "CXXThisExpr":
        return False
    args = kids(n)[1:]
    if len(args) == 2:
        t = args[1]
        while t.get("kind") in PASS or t.get("kind") == "ImplicitCastExpr":
            t = kids(t)[0]
        if t.get("kind") != "DeclRefExpr" or t.get("referencedDecl", {}).get("name") != "testTerminator":
            raise TranslateError("%s: failWith is given a terminator other than the parameter testTerminator%s" % (fname, where(n)))
    elif len(args) != 1 or has_term:
        raise TranslateError("%s: failWith does not pass the function's terminator on%s" % (fname, where(n)))
    return True


def param_sorts(fname, d):
    """operand parameters of an assert function -> (lean binder list, env, has a terminator parameter)"""
    body_txt = json.dumps(body_of(d))
    binders, env, has_term = [], {}, False
    for p in d.get("inner", []):
        if p.get("kind") != "ParmVarDecl":
            continue
        name, t = p.get("name"), ctype(p)
        if name == "testTerminator":
            has_term = True
        if name in NOISE_PARAMS or (fname == "assertEquals" and name in ("expected", "actual")):
            continue
        if t == "bool":
            env[name] = (name, ("bool",)); binders.append("(%s : Bool)" % name)
        elif t in INT_TYPES:
            w, s = INT_TYPES[t]
            env[name] = (name, ("bv", w, s)); binders.append("(%s : BitVec %d)" % (name, w))
        elif t == "double":
            env[name] = (name, ("dbl",)); binders.append("(%s : D F)" % name)
        elif t == "const char *":
            env[name] = (name, ("opt",)); binders.append("(%s : Option Bytes)" % name)
        elif t == "const void *":
            # a block (dereferenced by a primitive) when the function also takes a length, an address otherwise
            if any(q.get("kind") == "ParmVarDecl" and q.get("name") in ("length", "size") for q in d.get("inner", [])):
                env[name] = (name, ("opt",)); binders.append("(%s : Option Bytes)" % name)
            else:
                env[name] = (name, ("bv", 64, False)); binders.append("(%s : BitVec 64)" % name)
        elif t == "void (*)()":
            env[name] = (name, ("bv", 64, False)); binders.append("(%s : BitVec 64)" % name)
        else:
            raise TranslateError("%s: parameter %s of unsupported type %s" % (fname, name, t))
    return binders, env, has_term


def translate_assert(fname, d):
    binders, env, has_term = param_sorts(fname, d)
    tr = Tr(fname, env)
    stmts = []
    for s in kids(body_of(d)):
        s0 = strip_stmt(s)
        if is_count_check(s0):
            stmts.append(".count")
        elif s0.get("kind") == "IfStmt":
            parts = kids(s0)
            if len(parts) != 2 or s0.get("hasElse"):
                raise TranslateError("%s: if statement with an else branch / initialiser%s" % (fname, where(s0)))
            c = tr.to_bool(tr.expr(parts[0]), parts[0])[0]
            th = strip_stmt(parts[1])
            if th.get("kind") == "ReturnStmt" and not kids(th):
                stmts.append(".retIf %s" % c)
            elif is_fail_with(fname, th, has_term):
                stmts.append(".failIf %s" % c)
            else:
                raise TranslateError("%s: the branch of an if is neither `return;` nor one failWith call%s" % (fname, where(th)))
        elif is_fail_with(fname, s0, has_term):
            stmts.append(".failAlways")
        elif s0.get("kind") == "ReturnStmt" and not kids(s0):
            stmts.append(".retIf true")
        else:
            raise TranslateError("%s: statement kind %s not in the subset%s" % (fname, s0.get("kind"), where(s0)))
    uses_d = any(": D F)" in b for b in binders)
    head = "def %s %s%s : Outcome :=\n  runAssert 0 [\n    " % (fname, "{F : Type} (o : FinOps F) " if uses_d else "", " ".join(binders))
    return head + ",\n    ".join(stmts) + "]\n"


def translate_doubles_equal(d):
    ps = [(p.get("name"), ctype(p)) for p in d.get("inner", []) if p.get("kind") == "ParmVarDecl"]
    if [t for _, t in ps] != ["double", "double", "double"]:
        raise TranslateError("doubles_equal does not take three doubles")
    env = dict((n, (n, ("dbl",))) for n, _ in ps)
    tr = Tr("doubles_equal", env)
    out, closed = "", False
    for s in kids(body_of(d)):
        s0 = strip_stmt(s)
        if closed:
            raise TranslateError("doubles_equal: statement after the final return" + where(s0))
        if s0.get("kind") == "IfStmt":
            parts = kids(s0)
            if len(parts) != 2 or s0.get("hasElse"):
                raise TranslateError("doubles_equal: if with an else branch" + where(s0))
            th = strip_stmt(parts[1])
            if th.get("kind") != "ReturnStmt" or not kids(th):
                raise TranslateError("doubles_equal: the branch of an if is not `return e;`" + where(th))
            c = tr.to_bool(tr.expr(parts[0]), parts[0])[0]
            out += "  if %s then %s\n  else\n" % (c, tr.to_bool(tr.expr(kids(th)[0]), th)[0])
        elif s0.get("kind") == "ReturnStmt" and kids(s0):
            out += "  %s\n" % tr.to_bool(tr.expr(kids(s0)[0]), s0)[0]
            closed = True
        elif s0.get("kind") == "DeclStmt":            # `double x = e;` / `bool b = e;`
            for v in kids(s0):
                if v.get("kind") != "VarDecl" or not kids(v) or ctype(v) not in ("double", "bool"):
                    raise TranslateError("doubles_equal: local declaration outside the subset" + where(v))
                val = tr.expr(kids(v)[0])
                srt = ("dbl",) if ctype(v) == "double" else ("bool",)
                if val[1] != srt:
                    raise TranslateError("doubles_equal: initialiser of sort %s for a %s local%s" % (val[1], ctype(v), where(v)))
                env[v["name"]] = (v["name"], srt)
                out += "  let %s := %s\n" % (v["name"], val[0])
        else:
            raise TranslateError("doubles_equal: statement kind %s not in the subset%s" % (s0.get("kind"), where(s0)))
    if not closed:
        raise TranslateError("doubles_equal does not end in a return statement")
    names = [n for n, _ in ps]
    return "def doubles_equal {F : Type} (o : FinOps F) (%s : D F) : Bool :=\n%s" % (" ".join(names), out)



# ---------------------------------------------------------------------------------------------------------------------
# the macro layer: probes

TYPES = [("i8", "signed char", 8, True), ("u8", "unsigned char", 8, False), ("i16", "short", 16, True),
         ("u16", "unsigned short", 16, False), ("i32", "int", 32, True), ("u32", "unsigned int", 32, False),
         ("i64", "long", 64, True), ("u64", "unsigned long", 64, False)]
TY = dict((t[0], t) for t in TYPES)
SAME_MACROS = ["LONGS_EQUAL", "UNSIGNED_LONGS_EQUAL", "LONGLONGS_EQUAL", "UNSIGNED_LONGLONGS_EQUAL", "BYTES_EQUAL",
               "SIGNED_BYTES_EQUAL", "CHECK_EQUAL_C_BOOL", "CHECK_EQUAL_C_INT", "CHECK_EQUAL_C_UINT", "CHECK_EQUAL_C_LONG",
               "CHECK_EQUAL_C_ULONG", "CHECK_EQUAL_C_LONGLONG", "CHECK_EQUAL_C_ULONGLONG", "CHECK_EQUAL_C_CHAR",
               "CHECK_EQUAL_C_UBYTE", "CHECK_EQUAL_C_SBYTE"]
ONE_MACROS = ["CHECK", "CHECK_TRUE", "CHECK_FALSE", "CHECK_C", "CHECK_EQUAL_ZERO"]
COMPOUND_MACROS = ["CHECK", "CHECK_TRUE", "CHECK_FALSE"]
COMPOUND_OPS = [("or", "||"), ("and", "&&"), ("eq", "=="), ("lt", "<")]
RELOPS = [("lt", "<"), ("le", "<="), ("gt", ">"), ("ge", ">="), ("eq", "=="), ("ne", "!=")]
MASK_TYPES = ["i32", "u8", "u64"]
C_ENTRIES = ["CHECK_EQUAL_C_BOOL_LOCATION", "CHECK_EQUAL_C_INT_LOCATION", "CHECK_EQUAL_C_UINT_LOCATION",
             "CHECK_EQUAL_C_LONG_LOCATION", "CHECK_EQUAL_C_ULONG_LOCATION", "CHECK_EQUAL_C_LONGLONG_LOCATION",
             "CHECK_EQUAL_C_ULONGLONG_LOCATION", "CHECK_EQUAL_C_REAL_LOCATION", "CHECK_EQUAL_C_CHAR_LOCATION",
             "CHECK_EQUAL_C_UBYTE_LOCATION", "CHECK_EQUAL_C_SBYTE_LOCATION", "CHECK_EQUAL_C_STRING_LOCATION",
             "CHECK_EQUAL_C_POINTER_LOCATION", "CHECK_EQUAL_C_MEMCMP_LOCATION", "CHECK_EQUAL_C_BITS_LOCATION",
             "FAIL_TEXT_C_LOCATION", "FAIL_C_LOCATION", "CHECK_C_LOCATION"]


def probe_list():
    """(lean name, [(param, type tag)], C statement)"""
    out = []
    for m in SAME_MACROS:
        for t in TYPES:
            out.append(("M_%s_%s" % (m, t[0]), [("e", t[0]), ("a", t[0])], "%s(e, a);" % m))
    for m in SAME_MACROS + ["CHECK_EQUAL"]:            # the _TEXT forms, at one operand type
        out.append(("M_%s_TEXT_i32" % m, [("e", "i32"), ("a", "i32")], '%s_TEXT(e, a, "text");' % m))
    for m in ONE_MACROS:
        for t in TYPES:
            out.append(("M_%s_%s" % (m, t[0]), [("a", t[0])], "%s(a);" % m))
        out.append(("M_%s_TEXT_i32" % m, [("a", "i32")], '%s_TEXT(a, "text");' % m))
    for te in TYPES:
        for ta in TYPES:
            out.append(("M_CHECK_EQUAL_%s_%s" % (te[0], ta[0]), [("e", te[0]), ("a", ta[0])], "CHECK_EQUAL(e, a);"))
            for on, oc in RELOPS:
                if te[0] == ta[0] or on in ("lt", "ge"):
                    out.append(("M_CHECK_COMPARE_%s_%s_%s" % (on, te[0], ta[0]), [("e", te[0]), ("a", ta[0])],
                                "CHECK_COMPARE(e, %s, a);" % oc))
    out.append(("M_CHECK_COMPARE_TEXT_lt_i32_i32", [("e", "i32"), ("a", "i32")], 'CHECK_COMPARE_TEXT(e, <, a, "text");'))
    for tu in TYPES:
        for t in TYPES:
            out.append(("M_ENUMS_EQUAL_TYPE_%s_%s" % (tu[0], t[0]), [("e", "E" + t[0]), ("a", "E" + t[0])],
                        "ENUMS_EQUAL_TYPE(%s, e, a);" % tu[1]))
    for t in TYPES:
        out.append(("M_ENUMS_EQUAL_INT_%s" % t[0], [("e", "E" + t[0]), ("a", "E" + t[0])], "ENUMS_EQUAL_INT(e, a);"))
    out.append(("M_ENUMS_EQUAL_INT_TEXT_i32", [("e", "Ei32"), ("a", "Ei32")], 'ENUMS_EQUAL_INT_TEXT(e, a, "text");'))
    out.append(("M_ENUMS_EQUAL_TYPE_TEXT_u16_i32", [("e", "Ei32"), ("a", "Ei32")], 'ENUMS_EQUAL_TYPE_TEXT(unsigned short, e, a, "text");'))
    for m, cm in (("BITS_EQUAL", "BITS_EQUAL"), ("CHECK_EQUAL_C_BITS", "CHECK_EQUAL_C_BITS")):
        for t in TYPES:
            for tm in MASK_TYPES:
                out.append(("M_%s_%s_%s" % (m, t[0], tm), [("e", t[0]), ("a", t[0]), ("m", tm)], "%s(e, a, m);" % cm))
        out.append(("M_%s_TEXT_i32_i32" % m, [("e", "i32"), ("a", "i32"), ("m", "i32")], '%s_TEXT(e, a, m, "text");' % cm))
    # the boolean macros on a COMPOUND condition (top-level operator binds weaker than unary ! and than a cast): the expansion
    # must apply its own operators to the whole argument - a missing pair of parentheses around the macro parameter shows here
    for m in COMPOUND_MACROS:
        for on, oc in COMPOUND_OPS:
            out.append(("M_%s_%s_i32" % (m, on), [("e", "i32"), ("a", "i32")], "%s(e %s a);" % (m, oc)))
        out.append(("M_%s_TEXT_or_i32" % m, [("e", "i32"), ("a", "i32")], '%s_TEXT(e || a, "text");' % m))
    return out + OTHER_PROBES


OTHER_TAGS = {"str": ("const char *", ("opt",), "Option Bytes"), "blk": ("const unsigned char *", ("opt",), "Option Bytes"),
              "ptr": ("const void *", ("bv", 64, False), "BitVec 64"), "fn": ("void (*%s)()", ("bv", 64, False), "BitVec 64"),
              "dbl": ("double", ("dbl",), "D F"), "sz": ("size_t", ("bv", 64, False), "BitVec 64")}
# the macros on strings, blocks, pointers, doubles and the ones without operands: (lean name, params, statement)
OTHER_PROBES = [
    ("M_STRCMP_EQUAL", [("e", "str"), ("a", "str")], "STRCMP_EQUAL(e, a);"),
    ("M_STRCMP_EQUAL_TEXT", [("e", "str"), ("a", "str")], 'STRCMP_EQUAL_TEXT(e, a, "text");'),
    ("M_STRNCMP_EQUAL", [("e", "str"), ("a", "str"), ("n", "sz")], "STRNCMP_EQUAL(e, a, n);"),
    ("M_STRNCMP_EQUAL_TEXT", [("e", "str"), ("a", "str"), ("n", "sz")], 'STRNCMP_EQUAL_TEXT(e, a, n, "text");'),
    ("M_STRCMP_NOCASE_EQUAL", [("e", "str"), ("a", "str")], "STRCMP_NOCASE_EQUAL(e, a);"),
    ("M_STRCMP_NOCASE_EQUAL_TEXT", [("e", "str"), ("a", "str")], 'STRCMP_NOCASE_EQUAL_TEXT(e, a, "text");'),
    ("M_STRCMP_CONTAINS", [("e", "str"), ("a", "str")], "STRCMP_CONTAINS(e, a);"),
    ("M_STRCMP_CONTAINS_TEXT", [("e", "str"), ("a", "str")], 'STRCMP_CONTAINS_TEXT(e, a, "text");'),
    ("M_STRCMP_NOCASE_CONTAINS", [("e", "str"), ("a", "str")], "STRCMP_NOCASE_CONTAINS(e, a);"),
    ("M_STRCMP_NOCASE_CONTAINS_TEXT", [("e", "str"), ("a", "str")], 'STRCMP_NOCASE_CONTAINS_TEXT(e, a, "text");'),
    ("M_CHECK_EQUAL_C_STRING", [("e", "str"), ("a", "str")], "CHECK_EQUAL_C_STRING(e, a);"),
    ("M_CHECK_EQUAL_C_STRING_TEXT", [("e", "str"), ("a", "str")], 'CHECK_EQUAL_C_STRING_TEXT(e, a, "text");'),
    ("M_MEMCMP_EQUAL", [("e", "blk"), ("a", "blk"), ("n", "sz")], "MEMCMP_EQUAL(e, a, n);"),
    ("M_MEMCMP_EQUAL_TEXT", [("e", "blk"), ("a", "blk"), ("n", "sz")], 'MEMCMP_EQUAL_TEXT(e, a, n, "text");'),
    ("M_CHECK_EQUAL_C_MEMCMP", [("e", "blk"), ("a", "blk"), ("n", "sz")], "CHECK_EQUAL_C_MEMCMP(e, a, n);"),
    ("M_CHECK_EQUAL_C_MEMCMP_TEXT", [("e", "blk"), ("a", "blk"), ("n", "sz")], 'CHECK_EQUAL_C_MEMCMP_TEXT(e, a, n, "text");'),
    ("M_POINTERS_EQUAL", [("e", "ptr"), ("a", "ptr")], "POINTERS_EQUAL(e, a);"),
    ("M_POINTERS_EQUAL_TEXT", [("e", "ptr"), ("a", "ptr")], 'POINTERS_EQUAL_TEXT(e, a, "text");'),
    ("M_FUNCTIONPOINTERS_EQUAL", [("e", "fn"), ("a", "fn")], "FUNCTIONPOINTERS_EQUAL(e, a);"),
    ("M_FUNCTIONPOINTERS_EQUAL_TEXT", [("e", "fn"), ("a", "fn")], 'FUNCTIONPOINTERS_EQUAL_TEXT(e, a, "text");'),
    ("M_CHECK_EQUAL_C_POINTER", [("e", "ptr"), ("a", "ptr")], "CHECK_EQUAL_C_POINTER(e, a);"),
    ("M_CHECK_EQUAL_C_POINTER_TEXT", [("e", "ptr"), ("a", "ptr")], 'CHECK_EQUAL_C_POINTER_TEXT(e, a, "text");'),
    ("M_DOUBLES_EQUAL", [("e", "dbl"), ("a", "dbl"), ("t", "dbl")], "DOUBLES_EQUAL(e, a, t);"),
    ("M_DOUBLES_EQUAL_TEXT", [("e", "dbl"), ("a", "dbl"), ("t", "dbl")], 'DOUBLES_EQUAL_TEXT(e, a, t, "text");'),
    ("M_CHECK_EQUAL_C_REAL", [("e", "dbl"), ("a", "dbl"), ("t", "dbl")], "CHECK_EQUAL_C_REAL(e, a, t);"),
    ("M_CHECK_EQUAL_C_REAL_TEXT", [("e", "dbl"), ("a", "dbl"), ("t", "dbl")], 'CHECK_EQUAL_C_REAL_TEXT(e, a, t, "text");'),
    ("M_FAIL", [], 'FAIL("text");'),
    ("M_FAIL_TEST", [], 'FAIL_TEST("text");'),
    ("M_FAIL_C", [], "FAIL_C();"),
    ("M_FAIL_TEXT_C", [], 'FAIL_TEXT_C("text");'),
]


def ctype_of_tag(tag):
    if tag in OTHER_TAGS:
        return OTHER_TAGS[tag][0]
    return "En_" + tag[1:] if tag.startswith("E") else TY[tag][1]


def sort_of_tag(tag):
    if tag in OTHER_TAGS:
        return OTHER_TAGS[tag][1]
    t = TY[tag[1:]] if tag.startswith("E") else TY[tag]
    return ("bv", t[2], t[3])


def lean_type_of_tag(tag):
    return OTHER_TAGS[tag][2] if tag in OTHER_TAGS else "BitVec %d" % sort_of_tag(tag)[1]


def c_param(tag, name):
    t = ctype_of_tag(tag)
    return t % name if "%s" in t else "%s %s" % (t, name)


def probe_source(probes):
    t = '#include "CppUTest/TestHarness.h"\n#include "CppUTest/TestHarness_c.h"\n'
    for ty in TYPES:
        t += "enum En_%s : %s { En_%s_zero = 0 };\n" % (ty[0], ty[1], ty[0])
    for name, params, stmt in probes:
        t += "void probe__%s(%s) { %s }\n" % (name, ", ".join(c_param(tg, p) for p, tg in params), stmt)
    return t


def mentions_check(n, names):
    """does the subtree call an assert function / countCheck / a C entry point"""
    if n.get("kind") == "MemberExpr" and n.get("name") in names:
        return True
    if n.get("kind") == "DeclRefExpr" and n.get("referencedDecl", {}).get("name") in names:
        return True
    return any(mentions_check(c, names) for c in n.get("inner", []) if isinstance(c, dict))


class MacroTr:
    def __init__(self, name, env, fn_arity, c_arity):
        self.name, self.env = name, dict(env)
        self.fn_arity, self.c_arity = fn_arity, c_arity          # name -> (operand count, needs the double ops)
        self.check_names = set(fn_arity) | set(c_arity) | {"countCheck", "exitTest", "failWith", "addFailure"}

    def err(self, msg, node):
        raise TranslateError("%s: %s%s" % (self.name, msg, where(node)))

    def is_current(self, n):
        while n.get("kind") in PASS or n.get("kind") == "ImplicitCastExpr":
            n = kids(n)[0]
        if n.get("kind") != "CallExpr" or len(kids(n)) != 1:
            return False
        c = kids(n)[0]
        while c.get("kind") in PASS or c.get("kind") == "ImplicitCastExpr":
            c = kids(c)[0]
        return c.get("kind") == "DeclRefExpr" and c.get("referencedDecl", {}).get("name") == "getCurrent"

    def call_stmt(self, n):
        """an expression statement -> Outcome text or None (no check inside)"""
        e = n
        while e.get("kind") in PASS:
            e = kids(e)[0]
        tr = Tr(self.name, self.env)
        if e.get("kind") == "CXXMemberCallExpr":
            m = kids(e)[0]
            if m.get("kind") == "MemberExpr" and self.is_current(kids(m)[0]):
                f = m.get("name")
                if f == "countCheck" and len(kids(e)) == 1:
                    return "countOnly"
                if f in self.fn_arity:
                    k, dbl = self.fn_arity[f]
                    args = kids(e)[1:1 + k]
                    if len(args) < k:
                        self.err("too few arguments for %s" % f, e)
                    vals = [self.arg(tr, a, srt) for a, srt in zip(args, self.fn_sorts[f])]
                    return "(Gen.AssertFns.%s %s%s)" % (f, "o " if dbl else "", " ".join(vals))
        if e.get("kind") == "CallExpr":
            f = tr.callee_name(e)
            if f in self.c_arity:
                k, dbl = self.c_arity[f]
                args = kids(e)[1:1 + k]
                vals = [self.arg(tr, a, srt) for a, srt in zip(args, self.c_sorts[f])]
                return "(C.%s %s%s)" % (f, "o " if dbl else "", " ".join(vals))
        if mentions_check(n, self.check_names):
            self.err("a statement mentions a check function in a form outside the subset (%s)" % e.get("kind"), n)
        return None

    def arg(self, tr, node, sort):
        v = tr.expr(node)
        if sort[0] == "bool":
            return tr.to_bool(v, node)[0]
        v = tr.lit_to(v, sort, node)
        if v[1] != sort:
            self.err("argument of sort %s where %s is declared" % (v[1], sort), node)
        return v[0]

    def seq(self, stmts):
        if not stmts:
            return "nothing"
        s, rest = stmts[0], stmts[1:]
        k = s.get("kind")
        if k == "DeclStmt":
            out = ""
            for v in kids(s):
                if v.get("kind") != "VarDecl":
                    self.err("declaration of something other than a variable", v)
                t = ctype(v)
                if t == "bool" or t in INT_TYPES:
                    if not kids(v):
                        self.err("scalar local without initialiser", v)
                    tr = Tr(self.name, self.env)
                    val = tr.expr(kids(v)[0])
                    srt = ("bool",) if t == "bool" else ("bv",) + INT_TYPES[t]
                    val = (tr.to_bool(val, v) if t == "bool" else tr.lit_to(val, srt, v))
                    if val[1] != srt:
                        self.err("initialiser of sort %s for a local of type %s" % (val[1], t), v)
                    self.env[v["name"]] = (v["name"], srt)
                    out += "let %s := %s\n    " % (v["name"], val[0])
                elif mentions_check(v, self.check_names):
                    self.err("a declaration calls a check function", v)
            return out + self.seq(rest)
        first = self.stmt(s)
        if not rest:
            return first
        tail = self.seq(rest)
        if first == "nothing":
            return tail
        if tail == "nothing":
            return first
        return "(seqO %s %s)" % (first, tail)

    def stmt(self, s):
        k = s.get("kind")
        if k == "CompoundStmt":
            saved = dict(self.env)
            r = self.seq(kids(s))
            self.env = saved
            return r if "let " not in r else "(%s)" % r
        if k == "DoStmt":
            body, cond = kids(s)
            c = cond
            while c.get("kind") in PASS or c.get("kind") == "ImplicitCastExpr":
                c = kids(c)[0]
            if c.get("kind") != "IntegerLiteral" or int(c.get("value")) != 0:
                self.err("do ... while with a condition other than 0", s)
            return self.stmt(body)
        if k == "IfStmt":
            parts = kids(s)
            if len(parts) not in (2, 3):
                self.err("if statement with an initialiser", s)
            tr = Tr(self.name, self.env)
            c = tr.to_bool(tr.expr(parts[0]), parts[0])[0]
            a = self.stmt(parts[1])
            b = self.stmt(parts[2]) if len(parts) == 3 else "nothing"
            return "(if %s then %s else %s)" % (c, a, b)
        if k == "NullStmt":
            return "nothing"
        r = self.call_stmt(s)
        return r if r is not None else "nothing"


def assert_signatures(docs):
    """name -> [sorts of the operand parameters] for the translated assert functions"""
    sig = {}
    for d in docs:
        if body_of(d) is not None and d.get("name") in ASSERTS:
            _, env, _ = param_sorts(d["name"], d)
            order = [p["name"] for p in d.get("inner", []) if p.get("kind") == "ParmVarDecl" and p.get("name") in env]
            sig[d["name"]] = [env[n][1] for n in order]
    return sig


def translate_c_entry(name, d, mt):
    binders, env, _ = param_sorts(name, d)
    mt.name, mt.env = name, dict(env)
    stmts = kids(body_of(d))
    if len(stmts) != 1:
        raise TranslateError("%s: the body is not one statement" % name)
    body = mt.stmt(stmts[0])
    if body == "nothing":
        raise TranslateError("%s: the body calls no check function" % name)
    # the C entry points leave the test by longjmp: they must pass the terminator without exceptions
    if "getCurrentTestTerminatorWithoutExceptions" not in json.dumps(stmts[0]):
        raise TranslateError("%s does not pass the terminator without exceptions" % name)
    uses_d = any(": D F)" in b for b in binders)
    order = [p["name"] for p in d.get("inner", []) if p.get("kind") == "ParmVarDecl" and p.get("name") in env]
    return ("def %s %s%s : Outcome :=\n    %s\n" % (name, "{F : Type} (o : FinOps F) " if uses_d else "", " ".join(binders), body),
            [env[n][1] for n in order], uses_d)


def macros(assert_docs):
    sig = assert_signatures(assert_docs)
    fn_arity = dict((f, (len(s), any(x == ("dbl",) for x in s))) for f, s in sig.items())
    mt = MacroTr("", {}, fn_arity, {})
    mt.fn_sorts, mt.c_sorts = sig, {}
    out, problems = [], []
    cdocs = clang_docs(os.path.join(core.REPO, CSRC), "_LOCATION")
    cdefs = {}
    for d in cdocs:
        if d.get("kind") == "FunctionDecl" and body_of(d) is not None:
            cdefs.setdefault(d.get("name"), []).append(d)
    out.append("namespace C\n")
    c_arity, c_sorts = {}, {}
    for c in C_ENTRIES:
        try:
            if len(cdefs.get(c, [])) != 1:
                raise TranslateError("%s: expected exactly one definition in %s" % (c, CSRC))
            text, sorts, dbl = translate_c_entry(c, cdefs[c][0], mt)
            out.append(text)
            c_arity[c], c_sorts[c] = (len(sorts), dbl), sorts
        except TranslateError as e:
            problems.append(str(e))
            out.append("-- NOT TRANSLATED: %s\n" % str(e).replace("\n", " "))
    extra = sorted(n for n in cdefs if n not in C_ENTRIES)
    if extra:
        problems.append("TestHarness_c.cpp has check entry points the model does not know: " + ", ".join(extra))
    out.append("end C\n")
    probes = probe_list()
    with tempfile.TemporaryDirectory() as tmp:
        path = os.path.join(tmp, "c03_probe.cpp")
        with open(path, "w") as f:
            f.write(probe_source(probes))
        pdocs = clang_docs(path, "probe__")
    by_name = dict((d.get("name"), d) for d in pdocs if d.get("kind") == "FunctionDecl" and body_of(d) is not None)
    mt.c_arity, mt.c_sorts = c_arity, c_sorts
    mt.check_names = set(fn_arity) | set(c_arity) | {"countCheck", "exitTest", "failWith", "addFailure"}
    for name, params, _ in probes:
        try:
            d = by_name.get("probe__" + name)
            if d is None:
                raise TranslateError("probe %s did not come back from clang" % name)
            mt.name = name
            mt.env = dict((p, (p, sort_of_tag(tg))) for p, tg in params)
            body = mt.stmt(body_of(d))
            binders = " ".join("(%s : %s)" % (p, lean_type_of_tag(tg)) for p, tg in params)
            if any(tg == "dbl" for _, tg in params):
                binders = "{F : Type} (o : FinOps F) " + binders
            out.append("def %s %s : Outcome :=\n    %s\n" % (name, binders, body))
        except TranslateError as e:
            if len(problems) < 12:
                problems.append(str(e))
            out.append("-- NOT TRANSLATED: %s\n" % str(e).replace("\n", " "))
    return out, problems


def functions():
    """-> (lean texts, AST documents, problems).  A function that cannot be translated is LEFT OUT of the generated file
    (so the obligations that mention it no longer check) and reported; the file never keeps text from another tree."""
    src = os.path.join(core.REPO, SRC)
    docs = clang_docs(src, "doubles_equal") + clang_docs(src, "UtestShell::assert") + clang_docs(src, "UtestShell::fail")
    defs, problems = {}, []
    for d in docs:
        if body_of(d) is not None and d.get("kind") in ("FunctionDecl", "CXXMethodDecl"):
            defs.setdefault(d.get("name"), []).append(d)
    out = []
    try:
        if len(defs.get("doubles_equal", [])) != 1:
            raise TranslateError("doubles_equal: expected exactly one definition")
        out.append(translate_doubles_equal(defs["doubles_equal"][0]))
    except TranslateError as e:
        problems.append(str(e))
        out.append("-- NOT TRANSLATED: %s\n" % str(e).replace("\n", " "))
    for a in ASSERTS:
        try:
            if len(defs.get(a, [])) != 1:
                raise TranslateError("UtestShell::%s: expected exactly one definition, found %d" % (a, len(defs.get(a, []))))
            out.append(translate_assert(a, defs[a][0]))
        except TranslateError as e:
            problems.append(str(e))
            out.append("-- NOT TRANSLATED: %s\n" % str(e).replace("\n", " "))
    extra = sorted(n for n in defs if n.startswith("assert") and n not in ASSERTS)
    if extra:
        problems.append("UtestShell has assert functions the model does not know: " + ", ".join(extra))
    return out, docs, problems


def extract():
    """-> (text of Gen/AssertFns.lean, text of Gen/AssertMacros.lean, problems)"""
    t = HEADER % ("translate/extract_asserts_ast.py", SRC + " (clang typed AST)")
    t += "import CppUModel.Model.Asserts\nset_option linter.unusedVariables false\nnamespace Gen.AssertFns\nopen Asserts Text\n\n"
    problems, docs = [], []
    try:
        fns, docs, problems = functions()
        t += "\n".join(fns)
    except TranslateError as e:              # clang could not read the file at all
        problems.append(str(e))
        t += "-- NOT TRANSLATED: %s\n" % str(e).replace("\n", " ")
    t += "\nend Gen.AssertFns\n"
    m = HEADER % ("translate/extract_asserts_ast.py", "include/CppUTest/UtestMacros.h, include/CppUTest/TestHarness_c.h, " + CSRC +
                  " (clang typed AST of a probe translation unit)")
    m += "import CppUModel.Gen.AssertFns\nset_option linter.unusedVariables false\nnamespace Gen.AssertMacros\nopen Asserts Text\n\n"
    try:
        ms, mproblems = macros(docs)
        problems += mproblems
        m += "\n".join(ms)
    except TranslateError as e:
        problems.append(str(e))
        m += "-- NOT TRANSLATED: %s\n" % str(e).replace("\n", " ")
    m += "\nend Gen.AssertMacros\n"
    return t, m, problems


def run():
    text, mtext, problems = extract()
    core.write_if_changed(os.path.join(core.LEAN, "CppUModel", "Gen", "AssertFns.lean"), text)
    core.write_if_changed(os.path.join(core.LEAN, "CppUModel", "Gen", "AssertMacros.lean"), mtext)
    return ["cannot translate the current source: " + p for p in problems]


if __name__ == "__main__":
    a, b, c = extract()
    print(a)
    print(b)
    print(c)
