"""Regenerates lean/CppUModel/Gen/AllocLayoutConstants.lean (C05) from
  src/CppUTest/MemoryLeakDetector.cpp, include/CppUTest/MemoryLeakDetector.h,
  src/CppUTest/TestHarness_c.cpp, src/CppUTest/MemoryLeakWarningPlugin.cpp.

What is regenerated
  * memory_corruption_buffer_size (both branches of the #ifdef), GuardBytes, sizeof(void*)
  * sizeof(MemoryLeakDetectorNode) and the field offsets, computed from the struct's fields under LP64
  * calculateVoidPointerAlignedSize (both #ifdef branches), sizeOfMemoryWithCorruptionInfo, the node offset of
    getNodeFromMemoryPointer, the request expressions of allocate/reallocateMemoryWithAccountingInformation,
    the overflow guards of allocMemory / reallocMemory, the calloc overflow test and its request / memset sizes:
    every one a loop-free size_t expression, translated to a `BitVec 64` Lean function by a small C expression
    parser (a rewrite of the expression changes the generated function, and the theorems are about these functions)
  * the operator new table: which mem_leak_operator_new* variants end in UT_THROW_BAD_ALLOC_WHEN_NULL
Everything around the expressions (statement order of allocMemory, reallocMemory incl. the re-tracking branch,
storeLeakInformation, the guard byte loop, strdup_alloc, cpputest_strdup/strndup/calloc, the operator new bodies) is
shape-checked against templates; a difference raises TranslateError (handled like a broken obligation)."""
import os, re
from .common import *

DET = "src/CppUTest/MemoryLeakDetector.cpp"
HDR = "include/CppUTest/MemoryLeakDetector.h"
THC = "src/CppUTest/TestHarness_c.cpp"
MLW = "src/CppUTest/MemoryLeakWarningPlugin.cpp"
TMA = "src/CppUTest/TestMemoryAllocator.cpp"
OUT = os.path.join(core.LEAN, "CppUModel", "Gen", "AllocLayoutConstants.lean")

# --------------------------------------------------------------------------- C expression -> Lean (BitVec 64 / Bool)

TOK = re.compile(r"\s*(sizeof|\d+[uUlL]*|0[xX][0-9a-fA-F]+[uUlL]*|[A-Za-z_]\w*|<<|>>|<=|>=|==|!=|&&|\|\||[-+*/%<>()&|^~!,?:])")


def tokenize(s):
    out, i = [], 0
    s = s.strip()
    while i < len(s):
        m = TOK.match(s, i)
        if not m:
            raise TranslateError("cannot tokenize expression at: " + s[i:i + 20])
        out.append(m.group(1))
        i = m.end()
    return out


BIN = [  # lowest precedence first; (ops, kind of operands, kind of result)
    (("||",), "bool", "bool"), (("&&",), "bool", "bool"),
    (("|",), "bv", "bv"), (("^",), "bv", "bv"), (("&",), "bv", "bv"),
    (("==", "!="), "bv", "bool"), (("<", ">", "<=", ">="), "bv", "bool"),
    (("<<", ">>"), "bv", "bv"), (("+", "-"), "bv", "bv"), (("*", "/", "%"), "bv", "bv"),
]
LEAN_BIN = {"+": "+", "-": "-", "*": "*", "/": "/", "%": "%", "&": "&&&", "|": "|||", "^": "^^^", "<<": "<<<", ">>": ">>>"}


class Parser:
    """restricted C integer expressions over size_t: every value is a BitVec 64, comparisons are Bool"""

    def __init__(self, text, idents, calls, sizeofs):
        self.t, self.i = tokenize(text), 0
        self.idents, self.calls, self.sizeofs = idents, calls, sizeofs
        self.text = text

    def peek(self):
        return self.t[self.i] if self.i < len(self.t) else None

    def eat(self, tok=None):
        cur = self.peek()
        if cur is None or (tok is not None and cur != tok):
            raise TranslateError("expression `%s`: expected %r, found %r" % (self.text, tok, cur))
        self.i += 1
        return cur

    def ternary(self):
        """cond ? a : b  (right associative, lowest precedence); an integer condition means `!= 0`"""
        c, ck = self.binary(0)
        if self.peek() != "?":
            return c, ck
        self.eat("?")
        a, ak = self.ternary()
        self.eat(":")
        b, bk = self.ternary()
        if ak != bk:
            raise TranslateError("expression `%s`: branches of ?: differ in kind" % self.text)
        cond = c if ck == "bool" else "(%s != 0#64)" % c
        return "(if %s then %s else %s)" % (cond, a, b), ak

    def parse(self, want):
        e, k = self.ternary()
        if self.peek() is not None:
            raise TranslateError("expression `%s`: trailing %r" % (self.text, self.peek()))
        if k != want:
            raise TranslateError("expression `%s` has kind %s, %s expected" % (self.text, k, want))
        return e

    def binary(self, level):
        if level == len(BIN):
            return self.unary()
        ops, opk, resk = BIN[level]
        lhs, lk = self.binary(level + 1)
        while self.peek() in ops:
            op = self.eat()
            rhs, rk = self.binary(level + 1)
            if lk != opk or rk != opk:
                raise TranslateError("expression `%s`: operator %s applied to %s/%s" % (self.text, op, lk, rk))
            if op in LEAN_BIN:
                lhs = "(%s %s %s)" % (lhs, LEAN_BIN[op], rhs)
            elif op == "<":
                lhs = "(BitVec.ult %s %s)" % (lhs, rhs)
            elif op == ">":
                lhs = "(BitVec.ult %s %s)" % (rhs, lhs)
            elif op == "<=":
                lhs = "(BitVec.ule %s %s)" % (lhs, rhs)
            elif op == ">=":
                lhs = "(BitVec.ule %s %s)" % (rhs, lhs)
            elif op == "==":
                lhs = "(%s == %s)" % (lhs, rhs)
            elif op == "!=":
                lhs = "(%s != %s)" % (lhs, rhs)
            elif op == "&&":
                lhs = "(%s && %s)" % (lhs, rhs)
            elif op == "||":
                lhs = "(%s || %s)" % (lhs, rhs)
            lk = resk
        return lhs, lk

    def unary(self):
        cur = self.peek()
        if cur == "!":
            self.eat()
            e, k = self.unary()
            if k != "bool":
                raise TranslateError("expression `%s`: ! applied to a non-boolean" % self.text)
            return "(!%s)" % e, "bool"
        if cur == "~":
            self.eat()
            e, k = self.unary()
            return "(~~~%s)" % e, "bv"
        if cur == "(" and self.i + 2 < len(self.t) and self.t[self.i + 1] == "size_t" and self.t[self.i + 2] == ")":
            self.i += 3
            if self.peek() == "-":                      # (size_t) -N : the only place a unary minus is accepted
                self.eat()
                n = self.eat()
                if not re.fullmatch(r"\d+", n):
                    raise TranslateError("expression `%s`: (size_t) - applied to a non-literal" % self.text)
                return "(-(%s#64))" % n, "bv"
            e, k = self.unary()
            if k != "bv":
                raise TranslateError("expression `%s`: (size_t) applied to a boolean" % self.text)
            return e, "bv"
        return self.primary()

    def primary(self):
        cur = self.eat()
        if cur == "(":
            e, k = self.ternary()
            self.eat(")")
            return e, k
        if cur == "sizeof":
            self.eat("(")
            name = ""
            while self.peek() != ")":
                name += self.eat()
            self.eat(")")
            if name not in self.sizeofs:
                raise TranslateError("expression `%s`: sizeof(%s) not known" % (self.text, name))
            return self.sizeofs[name], "bv"
        m = re.fullmatch(r"(\d+|0[xX][0-9a-fA-F]+)[uUlL]*", cur)
        if m:
            return "%d#64" % int(m.group(1), 0), "bv"
        if re.fullmatch(r"[A-Za-z_]\w*", cur):
            if self.peek() == "(":
                if cur not in self.calls:
                    raise TranslateError("expression `%s`: call of %s not translatable" % (self.text, cur))
                self.eat("(")
                args = []
                while self.peek() != ")":
                    a, k = self.binary(0)
                    if k != "bv":
                        raise TranslateError("expression `%s`: boolean argument" % self.text)
                    args.append(a)
                    if self.peek() == ",":
                        self.eat()
                self.eat(")")
                if len(args) != 1:
                    raise TranslateError("expression `%s`: %s takes one argument here" % (self.text, cur))
                return "(%s %s)" % (cur, " ".join(args)), "bv"
            if cur not in self.idents:
                raise TranslateError("expression `%s`: identifier %s is not a size_t parameter/constant of this function" % (self.text, cur))
            return cur, "bv"
        raise TranslateError("expression `%s`: unexpected token %r" % (self.text, cur))


def expr(text, idents, calls=(), kind="bv"):
    sizeofs = {"void*": "8#64", "MemoryLeakDetectorNode": "sizeofNode"}
    return Parser(text, set(idents), set(calls), sizeofs).parse(kind)


# --------------------------------------------------------------------------- shape matching

def squeeze(s):
    return re.sub(r"\s+", "", s)


def match_shape(body, template, what):
    """`template` is whitespace-free text with holes written «NAME»; returns {NAME: text}"""
    pat, pos = "", 0
    for m in re.finditer(r"«(\w+)»", template):
        pat += re.escape(template[pos:m.start()]) + "(?P<%s>.+?)" % m.group(1)
        pos = m.end()
    pat += re.escape(template[pos:])
    got = squeeze(body)
    mm = re.fullmatch(pat, got)
    if not mm:
        raise TranslateError("%s changed shape: %s" % (what, got[:400]))
    return mm.groupdict()


# --------------------------------------------------------------------------- statement lists

def _balanced(text, i):
    """text[i] == '{': index just behind the matching '}'"""
    depth, j = 0, i
    while j < len(text):
        if text[j] == "{":
            depth += 1
        elif text[j] == "}":
            depth -= 1
            if depth == 0:
                return j + 1
        j += 1
    raise TranslateError("unbalanced braces")


def parse_statements(body, pats, names, what):
    """Splits the whitespace-free body into the statements of `pats`, in the order the SOURCE has them.
    A pattern is (constructor, regex template, sub-patterns or None); `{x}` in a template is the name a local got
    where it was declared (named group `x` of an earlier statement), so renaming a local changes nothing.  Returns
    (list of constructors, captures).  A statement no pattern understands raises TranslateError."""
    text = squeeze(body)
    names = dict(names)
    out, caps, i = [], {}, 0
    while i < len(text):
        for ctor, tmpl, sub in pats:
            try:
                rx = tmpl.format(**names)
            except KeyError:
                continue            # uses a local that is not declared (yet)
            m = re.compile(rx).match(text, i)
            if not m:
                continue
            for k, v in m.groupdict().items():
                if k == "G":
                    if "G" in caps:
                        raise TranslateError("%s: two overflow guards" % what)
                    caps["G"] = v
                else:
                    names[k] = re.escape(v)
            j = m.end()
            if sub is not None:     # the regex ends with the opening brace of a block
                end = _balanced(text, j - 1)
                inner, _ = parse_statements(text[j:end - 1], sub, names, what + "/" + ctor)
                if "BODY:" + ctor in caps:
                    raise TranslateError("%s: block %s occurs twice" % (what, ctor))
                caps["BODY:" + ctor] = inner
                j = end
            out.append(ctor)
            i = j
            break
        else:
            raise TranslateError("%s: statement not understood: %s" % (what, text[i:i + 160]))
    return out, caps


P_FORCESEP = ("forceSepIfNoCheck", r"#ifdefCPPUTEST_DISABLE_MEM_CORRUPTION_CHECKallocatNodesSeperately=true;#endif", None)
P_IFNEWNULL = ("ifNewNullReturnNull", r"if\({mem}==NULLPTR\)returnNULLPTR;", None)
P_CREATENODE = ("createNode", r"MemoryLeakDetectorNode\*(?P<node>\w+)=createMemoryLeakAccountingInformation\(allocator,size,{mem},allocatNodesSeperately\);", None)
P_STORE = ("store", r"storeLeakInformation\({node},{mem},size,allocator,file,line\);", None)
P_RETNODE = ("returnNodeMemory", r"return{node}->memory_;", None)
P_GUARD = ("guardReturnNull", r"if\((?P<G>[^;{{}}]+)\)returnNULLPTR;", None)

ALLOC_PATS = [
    P_FORCESEP,
    ("allocData", r"char\*(?P<mem>\w+)=allocateMemoryWithAccountingInformation\(allocator,size,file,line,allocatNodesSeperately\);", None),
    P_IFNEWNULL, P_CREATENODE,
    ("ifNodeNullFreeReturnNull", r"if\({node}==NULLPTR\)\{{allocator->free_memory\({mem},size,file,line\);returnNULLPTR;\}}", None),
    P_STORE, P_RETNODE, P_GUARD,
]
INNER_PATS = [
    ("platformRealloc", r"char\*(?P<mem>\w+)=reallocateMemoryWithAccountingInformation\(allocator,memory,size,file,line,allocatNodesSeperately\);", None),
    P_IFNEWNULL, P_CREATENODE, P_STORE, P_RETNODE,
]
STORE_PATS = [
    ("initNew", r"node->init\(new_memory,allocationSequenceNumber_\+\+,size,allocator,current_period_,current_allocation_stage_,file,line\);", None),
    ("writeGuard", r"addMemoryCorruptionInformation\(node->memory_\+node->size_\);", None),
    ("addNode", r"memoryTable_\.addNewNode\(node\);", None),
]
TAKEOLD_PATS = [
    ("removeOld", r"MemoryLeakDetectorNode\*(?P<rnode>\w+)=memoryTable_\.removeNode\(memory\);", None),
    ("ifRemovedNullReportReturnNull", r"if\({rnode}==NULLPTR\)\{{outputBuffer_\.reportDeallocateNonAllocatedMemoryFailure\(file,line,allocator,reporter_\);returnNULLPTR;\}}", None),
    ("copyOld", r"{old}=\*{rnode};", None),
    ("checkCorruption", r"checkForCorruption\({rnode},file,line,allocator,allocatNodesSeperately\);", None),
]
RETRACK_PATS = [
    ("createNodeOld", r"MemoryLeakDetectorNode\*(?P<onode>\w+)=createMemoryLeakAccountingInformation\({old}\.allocator_,{old}\.size_,memory,allocatNodesSeperately\);", None),
    ("initOld", r"{onode}->init\(memory,{old}\.number_,{old}\.size_,{old}\.allocator_,{old}\.period_,{old}\.allocation_stage_,{old}\.file_,{old}\.line_\);", None),
    ("addNode", r"memoryTable_\.addNewNode\({onode}\);", None),
]
ALIVE_PATS = [
    ("readSize", r"size_t(?P<sz>\w+)={rnode}->size_;", None),
    ("checkCorruption", r"checkForCorruption\({rnode},file,line,allocator,allocatNodesSeperately\);", None),
    ("freeData", r"allocator->free_memory\(\(char\*\)memory,{sz},file,line\);", None),
]
DEALLOC_PATS = [
    ("ifNullReturn", r"if\(memory==NULLPTR\)return;", None),
    ("removeOld", r"MemoryLeakDetectorNode\*(?P<rnode>\w+)=memoryTable_\.removeNode\(\(char\*\)memory\);", None),
    ("ifRemovedNullReportReturn", r"if\({rnode}==NULLPTR\)\{{outputBuffer_\.reportDeallocateNonAllocatedMemoryFailure\(file,line,allocator,reporter_\);return;\}}", None),
    P_FORCESEP,
    ("ifAllocatorAlive", r"if\(!allocator->hasBeenDestroyed\(\)\)\{{", ALIVE_PATS),
]
REALLOC_PATS = [
    P_FORCESEP,
    ("declOldNode", r"MemoryLeakDetectorNode(?P<old>\w+);", None),
    ("ifMemoryTakeOld", r"if\(memory\)\{{", TAKEOLD_PATS),
    ("callReallocInner", r"char\*(?P<new>\w+)=reallocateMemoryAndLeakInformation\(allocator,memory,size,file,line,allocatNodesSeperately\);", None),
    ("ifFailedRetrack", r"if\({new}==NULLPTR&&memory\)\{{", RETRACK_PATS),
    ("returnNew", r"return{new};", None),
    P_GUARD,
]


# --------------------------------------------------------------------------- global operator new / delete overloads

def operator_forwarders(mlw):
    """every global `operator new/delete` overload of MemoryLeakWarningPlugin.cpp: (signature, array, delete, fptr, args)"""
    out = []
    rx = re.compile(r"(void\s*\*|void)\s+operator\s+(new|delete)\s*(\[\s*\])?\s*\(([^)]*)\)\s*(?:UT_THROW\s*\([^)]*\)|UT_NOTHROW)?\s*\{([^{}]*)\}")
    for m in rx.finditer(mlw):
        ret, kind, arr, params, body = m.groups()
        ptypes = []
        for prm in params.split(","):
            prm = prm.strip()
            mm = re.fullmatch(r"(.*?[\s\*&])(\w+)", prm)
            ty = mm.group(1) if mm and mm.group(2) not in ("size_t", "int") and not prm.endswith(("*", "&")) else prm
            ptypes.append(re.sub(r"\s+", " ", ty).strip().replace(" *", "*").replace(" &", "&"))
        pnames = [re.fullmatch(r".*?(\w+)", p.strip()).group(1) if re.fullmatch(r".*[\s\*&](\w+)", p.strip()) else "" for p in params.split(",")]
        b = squeeze(body)
        mb = re.fullmatch(r"(return)?(\w+)\((.*)\);", b)
        if not mb or (kind == "new") != bool(mb.group(1)):
            raise TranslateError("operator %s%s(%s) changed shape: %s" % (kind, "[]" if arr else "", params, b))
        if (kind == "new") != (squeeze(ret) == "void*"):
            raise TranslateError("operator %s: return type" % kind)
        args = mb.group(3)
        for nm in pnames:
            pass
        sig = "%s%s(%s)" % (kind, "[]" if arr else "", ",".join(ptypes))
        # the arguments, with parameter names replaced by their position
        a2 = args
        for k, nm in enumerate(pnames):
            if nm:
                a2 = re.sub(r"\b%s\b" % re.escape(nm), "$%d" % k, a2)
        out.append((sig, bool(arr), kind == "delete", mb.group(2), a2))
    if not out:
        raise TranslateError("no global operator new/delete overloads found")
    return out


def c_forwarders(thc, mlw):
    """the one-line C entry points: (function, callee, arguments with `$k` for the k-th parameter)"""
    out = []
    for src, fn in ((thc, "cpputest_malloc"), (thc, "cpputest_strdup"), (thc, "cpputest_strndup"), (thc, "cpputest_calloc"),
                    (thc, "cpputest_realloc"), (thc, "cpputest_free"), (thc, "cpputest_realloc_location"), (thc, "cpputest_free_location"),
                    (mlw, "cpputest_malloc_location_with_leak_detection"), (mlw, "cpputest_realloc_location_with_leak_detection"),
                    (mlw, "cpputest_free_location_with_leak_detection")):
        m = re.search(r"\b%s\s*\(([^)]*)\)\s*\{" % fn, src)
        if not m:
            raise TranslateError("function not found: " + fn)
        pnames = [re.fullmatch(r".*?(\w+)", q.strip()).group(1) for q in m.group(1).split(",") if q.strip()]
        b = squeeze(function_body(src, r"\b%s\s*\(([^)]*)\)\s*\{" % fn))
        mb = re.fullmatch(r"(?:return)?(\w+)\((.*)\);", b)
        if not mb:
            raise TranslateError("%s changed shape: %s" % (fn, b))
        args = mb.group(2)
        for k, nm in enumerate(pnames):
            args = re.sub(r"(?<![\w\"<])%s(?![\w>])" % re.escape(nm), "$%d" % k, args)
        out.append((fn, mb.group(1), args.replace('"', "'")))
    return out


ONE_LINERS = [  # (name in the table, file key, header regex)
    ("MemoryLeakDetector::allocMemory/3", "det", r"char\*\s*MemoryLeakDetector::allocMemory\s*\(\s*TestMemoryAllocator\*\s*allocator\s*,\s*size_t\s+size\s*,\s*bool\s+allocatNodesSeperately\s*\)\s*\{"),
    ("MemoryLeakDetector::deallocMemory/3", "det", r"void\s+MemoryLeakDetector::deallocMemory\s*\(\s*TestMemoryAllocator\*\s*allocator\s*,\s*void\*\s*memory\s*,\s*bool\s+allocatNodesSeperately\s*\)\s*\{"),
    ("checkedMalloc", "tma", r"static\s+char\*\s*checkedMalloc\s*\(\s*size_t\s+size\s*\)\s*\{"),
    ("TestMemoryAllocator::alloc_memory", "tma", r"char\*\s*\bTestMemoryAllocator::alloc_memory\s*\(\s*size_t\s+size\s*,[^)]*\)\s*\{"),
    ("TestMemoryAllocator::free_memory", "tma", r"void\s+\bTestMemoryAllocator::free_memory\s*\(\s*char\*\s*memory\s*,[^)]*\)\s*\{"),
    ("TestMemoryAllocator::allocMemoryLeakNode", "tma", r"char\*\s*\bTestMemoryAllocator::allocMemoryLeakNode\s*\(\s*size_t\s+size\s*\)\s*\{"),
    ("TestMemoryAllocator::freeMemoryLeakNode", "tma", r"void\s+\bTestMemoryAllocator::freeMemoryLeakNode\s*\(\s*char\*\s*memory\s*\)\s*\{"),
    ("NullUnknownAllocator::alloc_memory", "tma", r"char\*\s*NullUnknownAllocator::alloc_memory\s*\([^)]*\)\s*\{"),
    ("NullUnknownAllocator::free_memory", "tma", r"void\s+NullUnknownAllocator::free_memory\s*\([^)]*\)\s*\{"),
    ("CrashOnAllocationAllocator::alloc_memory", "tma", r"char\*\s*CrashOnAllocationAllocator::alloc_memory\s*\(\s*size_t\s+size\s*,\s*const\s+char\*\s*file\s*,\s*size_t\s+line\s*\)\s*\{"),
]


def one_liners(srcs):
    """small bodies the model takes for granted (what an allocator answers, the short overloads): their exact text"""
    out = []
    for name, key, rx in ONE_LINERS:
        b = squeeze(function_body(srcs[key], rx))
        if len(b) > 300 or "\\" in b:
            raise TranslateError("%s is no longer a small body: %s" % (name, b[:200]))
        out.append((name, b.replace('"', "'")))
    return out


THREADSAFE_PAIRS = ["mem_leak_malloc", "mem_leak_free", "mem_leak_realloc", "mem_leak_operator_new", "mem_leak_operator_new_nothrow",
                    "mem_leak_operator_new_debug", "mem_leak_operator_new_array", "mem_leak_operator_new_array_nothrow",
                    "mem_leak_operator_new_array_debug", "mem_leak_operator_delete", "mem_leak_operator_delete_array"]


def threadsafe_bodies(mlw):
    """(function, its threadsafe_ twin has the very same body behind `MemLeakScopedMutex lock;`)"""
    out = []
    for fn in THREADSAFE_PAIRS:
        plain = squeeze(function_body(mlw, r"static\s+void\s*\*?\s*%s\s*\([^)]*\)[^{;]*\{" % fn))
        twin = squeeze(function_body(mlw, r"static\s+void\s*\*?\s*threadsafe_%s\s*\([^)]*\)[^{;]*\{" % fn))
        out.append((fn, twin == "MemLeakScopedMutexlock;" + plain))
    return out


def threadsafe_overloads(mlw):
    body = function_body(mlw, r"void\s+MemoryLeakWarningPlugin::turnOnThreadSafeNewDeleteOverloads\s*\(\s*\)\s*\{")
    b = squeeze(body)
    m = re.fullmatch(r"#ifCPPUTEST_USE_MEM_LEAK_DETECTION((?:\w+=\w+;)+)#endif", b)
    if not m:
        raise TranslateError("turnOnThreadSafeNewDeleteOverloads changed shape: " + b[:300])
    return [tuple(x.split("=")) for x in m.group(1).split(";") if x]


def default_overloads(mlw):
    body = function_body(mlw, r"void\s+MemoryLeakWarningPlugin::turnOnDefaultNotThreadSafeNewDeleteOverloads\s*\(\s*\)\s*\{")
    b = squeeze(body)
    m = re.fullmatch(r"#ifCPPUTEST_USE_MEM_LEAK_DETECTION((?:\w+=\w+;)+)#endif", b)
    if not m:
        raise TranslateError("turnOnDefaultNotThreadSafeNewDeleteOverloads changed shape: " + b[:300])
    return [tuple(x.split("=")) for x in m.group(1).split(";") if x]


# --------------------------------------------------------------------------- struct layout (LP64)

LP64 = [  # (regex on the declaration without the name, size, alignment)
    (r".*\*$", 8, 8), (r"size_t$", 8, 8), (r"unsigned$", 4, 4), (r"unsignedint$", 4, 4), (r"int$", 4, 4),
    (r"MemLeakPeriod$", 4, 4), (r"unsignedchar$", 1, 1), (r"char$", 1, 1), (r"bool$", 1, 1),
    (r"unsignedlong$", 8, 8), (r"long$", 8, 8), (r"unsignedshort$", 2, 2), (r"short$", 2, 2),
]


FIELD_TYPES = {}        # field name -> declared type (spaces squeezed out), filled by node_layout


def node_layout(hdr):
    m = re.search(r"struct\s+MemoryLeakDetectorNode\s*\{", hdr)
    if not m:
        raise TranslateError("struct MemoryLeakDetectorNode not found")
    depth, j = 0, m.end() - 1
    while True:
        if hdr[j] == "{":
            depth += 1
        elif hdr[j] == "}":
            depth -= 1
            if depth == 0:
                break
        j += 1
    body = hdr[m.end():j]
    # drop member function bodies (the constructor)
    out, depth = "", 0
    for ch in body:
        if ch == "{":
            depth += 1
            continue
        if ch == "}":
            depth -= 1
            out += ";"
            continue
        if depth == 0:
            out += ch
    fields = []
    for decl in out.split(";"):
        d = re.sub(r"\b(public|private|protected)\s*:", " ", decl).strip()
        if not d or "(" in d or d.startswith("friend") or d.startswith("virtual"):
            if d.startswith("virtual"):
                raise TranslateError("MemoryLeakDetectorNode became polymorphic")
            continue
        mm = re.fullmatch(r"(.*?)(\w+)", d, re.S)
        if not mm:
            raise TranslateError("cannot read field: " + d)
        ty = squeeze(mm.group(1).replace("const", ""))
        FIELD_TYPES[mm.group(2)] = ty
        for rx, size, al in LP64:
            if re.fullmatch(rx, ty):
                fields.append((mm.group(2), size, al))
                break
        else:
            raise TranslateError("field of unknown size: " + d)
    off, maxal, layout = 0, 1, []
    for name, size, al in fields:
        off = (off + al - 1) // al * al
        layout.append((name, off, size))
        off += size
        maxal = max(maxal, al)
    total = (off + maxal - 1) // maxal * maxal
    return layout, total


# --------------------------------------------------------------------------- extraction

def extract():
    det = strip_comments(read(DET))
    hdr = strip_comments(read(HDR))
    thc = strip_comments(read(THC))
    mlw = strip_comments(read(MLW))
    tma = strip_comments(read(TMA))

    m = re.search(r"#ifdef\s+CPPUTEST_DISABLE_MEM_CORRUPTION_CHECK\s+memory_corruption_buffer_size\s*=\s*(\d+)\s*"
                  r"#else\s+memory_corruption_buffer_size\s*=\s*(\d+)\s*#endif", hdr)
    if not m:
        raise TranslateError("memory_corruption_buffer_size enum changed shape")
    guard_nocheck, guard_check = int(m.group(1)), int(m.group(2))

    m = re.search(r"static\s+const\s+char\s+GuardBytes\s*\[\s*\]\s*=\s*\{([^}]*)\}\s*;", det)
    if not m:
        raise TranslateError("GuardBytes not found")
    gb = []
    for item in m.group(1).split(","):
        item = item.strip()
        mm = re.fullmatch(r"'(.)'", item)
        if mm:
            gb.append(ord(mm.group(1)))
        elif re.fullmatch(r"\d+|0[xX][0-9a-fA-F]+", item):
            gb.append(int(item, 0) & 255)
        else:
            raise TranslateError("GuardBytes element not understood: " + item)

    layout, node_size = node_layout(hdr)

    # calculateVoidPointerAlignedSize: both preprocessor branches
    body = function_body(det, r"static\s+size_t\s+calculateVoidPointerAlignedSize\s*\(\s*size_t\s+size\s*\)\s*\{")
    h = match_shape(body, "#ifndefCPPUTEST_DISABLE_MEM_CORRUPTION_CHECKreturn«A»;#elsereturn«B»;#endif",
                    "calculateVoidPointerAlignedSize")
    align_check = expr(h["A"], ["size"])
    align_nocheck = expr(h["B"], ["size"])

    body = function_body(det, r"size_t\s+MemoryLeakDetector::sizeOfMemoryWithCorruptionInfo\s*\(\s*size_t\s+size\s*\)\s*\{")
    h = match_shape(body, "return«A»;", "sizeOfMemoryWithCorruptionInfo")
    swci = expr(h["A"], ["size", "memory_corruption_buffer_size"], ["calculateVoidPointerAlignedSize"])

    body = function_body(det, r"MemoryLeakDetector::getNodeFromMemoryPointer\s*\(\s*char\*\s*memory\s*,\s*size_t\s+memory_size\s*\)\s*\{")
    h = match_shape(body, "return(MemoryLeakDetectorNode*)(void*)(memory+«A»);", "getNodeFromMemoryPointer")
    node_off = expr(h["A"], ["memory_size"], ["sizeOfMemoryWithCorruptionInfo"])

    body = function_body(det, r"char\*\s*MemoryLeakDetector::allocateMemoryWithAccountingInformation\s*\([^)]*\)\s*\{")
    h = match_shape(body, "if(allocatNodesSeperately)returnallocator->alloc_memory(«A»,file,line);"
                          "elsereturnallocator->alloc_memory(«B»,file,line);", "allocateMemoryWithAccountingInformation")
    areq_sep = expr(h["A"], ["size"], ["sizeOfMemoryWithCorruptionInfo"])
    areq_inl = expr(h["B"], ["size"], ["sizeOfMemoryWithCorruptionInfo"])

    body = function_body(det, r"char\*\s*MemoryLeakDetector::reallocateMemoryWithAccountingInformation\s*\([^)]*\)\s*\{")
    h = match_shape(body, "if(allocatNodesSeperately)return(char*)PlatformSpecificRealloc(memory,«A»);"
                          "elsereturn(char*)PlatformSpecificRealloc(memory,«B»);", "reallocateMemoryWithAccountingInformation")
    rreq_sep = expr(h["A"], ["size"], ["sizeOfMemoryWithCorruptionInfo"])
    rreq_inl = expr(h["B"], ["size"], ["sizeOfMemoryWithCorruptionInfo"])

    body = function_body(det, r"MemoryLeakDetectorNode\*\s*MemoryLeakDetector::createMemoryLeakAccountingInformation\s*\([^)]*\)\s*\{")
    match_shape(body, "if(allocatNodesSeperately)return(MemoryLeakDetectorNode*)(void*)allocator->allocMemoryLeakNode(sizeof(MemoryLeakDetectorNode));"
                      "elsereturngetNodeFromMemoryPointer(memory,size);", "createMemoryLeakAccountingInformation")

    body = function_body(det, r"void\s+MemoryLeakDetector::storeLeakInformation\s*\(\s*MemoryLeakDetectorNode\s*\*\s*node\s*,\s*char\s*\*\s*new_memory\s*,"
                              r"\s*size_t\s+size\s*,\s*TestMemoryAllocator\s*\*\s*allocator\s*,\s*const\s+char\s*\*\s*file\s*,\s*size_t\s+line\s*\)\s*\{")
    store_code, _ = parse_statements(body, STORE_PATS, {}, "storeLeakInformation")

    body = function_body(det, r"void\s+MemoryLeakDetector::addMemoryCorruptionInformation\s*\(\s*char\*\s*memory\s*\)\s*\{")
    match_shape(body, "for(size_ti=0;i<memory_corruption_buffer_size;i++)memory[i]=GuardBytes[i%sizeof(GuardBytes)];",
                "addMemoryCorruptionInformation")

    PARAMS6 = (r"\(\s*TestMemoryAllocator\s*\*\s*allocator\s*,\s*char\s*\*\s*memory\s*,\s*size_t\s+size\s*,\s*const\s+char\s*\*\s*file\s*,"
               r"\s*size_t\s+line\s*,\s*bool\s+allocatNodesSeperately\s*\)\s*\{")
    body = function_body(det, r"char\*\s*MemoryLeakDetector::reallocateMemoryAndLeakInformation\s*" + PARAMS6)
    inner_code, _ = parse_statements(body, INNER_PATS, {}, "reallocateMemoryAndLeakInformation")

    body = function_body(det, r"char\*\s*MemoryLeakDetector::allocMemory\s*\(\s*TestMemoryAllocator\*\s*allocator\s*,\s*size_t\s+size\s*,\s*const\s+char\*\s*file\s*,"
                              r"\s*size_t\s+line\s*,\s*bool\s+allocatNodesSeperately\s*\)\s*\{")
    alloc_code, h = parse_statements(body, ALLOC_PATS, {}, "allocMemory")
    # no guard statement in the source: the regenerated guard never rejects (the theorems about it then fail)
    aguard = expr(h["G"], ["size"], ["sizeOfMemoryWithCorruptionInfo"], kind="bool") if "G" in h else "false"

    body = function_body(det, r"char\*\s*MemoryLeakDetector::reallocMemory\s*" + PARAMS6)
    realloc_code, h = parse_statements(body, REALLOC_PATS, {}, "reallocMemory")
    rguard = expr(h["G"], ["size"], ["sizeOfMemoryWithCorruptionInfo"], kind="bool") if "G" in h else "false"
    takeold_code, retrack_code = h.get("BODY:ifMemoryTakeOld", []), h.get("BODY:ifFailedRetrack", [])

    # ---- the pointer handed to the caller is the pointer the platform returned (offset 0), and it is the pointer
    #      handed back to free_memory: node->init stores `memory`, allocMemory returns node->memory_, deallocMemory
    #      passes `memory` on; invalidateMemory poisons node->size_ bytes from `memory`
    body = function_body(det, r"void\s+MemoryLeakDetectorNode::init\s*\([^)]*\)\s*\{")
    match_shape(body, "number_=number;memory_=memory;size_=size;allocator_=allocator;period_=period;"
                      "allocation_stage_=allocation_stage;file_=file;line_=line;", "MemoryLeakDetectorNode::init")
    body = function_body(det, r"void\s+MemoryLeakDetector::deallocMemory\s*\(\s*TestMemoryAllocator\*\s*allocator\s*,\s*void\*\s*memory\s*,\s*const\s+char\*\s*file\s*,"
                              r"\s*size_t\s+line\s*,\s*bool\s+allocatNodesSeperately\s*\)\s*\{")
    dealloc_code, h = parse_statements(body, DEALLOC_PATS, {}, "deallocMemory")
    alive_code = h.get("BODY:ifAllocatorAlive", [])
    body = function_body(det, r"void\s+MemoryLeakDetector::checkForCorruption\s*\([^)]*\)\s*\{")
    match_shape(body, "if(!matchingAllocation(node->allocator_->actualAllocator(),allocator->actualAllocator()))"
                      "outputBuffer_.reportAllocationDeallocationMismatchFailure(node,file,line,allocator->actualAllocator(),reporter_);"
                      "elseif(!validMemoryCorruptionInformation(node->memory_+node->size_))"
                      "outputBuffer_.reportMemoryCorruptionFailure(node,file,line,allocator->actualAllocator(),reporter_);"
                      "elseif(allocateNodesSeperately)allocator->freeMemoryLeakNode((char*)node);", "checkForCorruption")
    body = function_body(det, r"void\s+MemoryLeakDetector::invalidateMemory\s*\(\s*char\*\s*memory\s*\)\s*\{")
    h = match_shape(body, "#ifndefCPPUTEST_DISABLE_HEAP_POISONMemoryLeakDetectorNode*node=memoryTable_.retrieveNode(memory);"
                          "if(node)PlatformSpecificMemset(memory,«P»,node->size_);#endif", "invalidateMemory")
    if not re.fullmatch(r"0[xX][0-9a-fA-F]+|\d+", h["P"]):
        raise TranslateError("poison byte not a literal: " + h["P"])
    poison = int(h["P"], 0) & 255
    for fn, getter, tail in (("mem_leak_free", "getCurrentMallocAllocator()", ",file,line,true"),
                             ("mem_leak_operator_delete", "getCurrentNewAllocator()", ""),
                             ("mem_leak_operator_delete_array", "getCurrentNewArrayAllocator()", "")):
        body = squeeze(function_body(mlw, r"static\s+void\s+%s\s*\([^)]*\)[^{;]*\{" % fn))
        arg = "buffer" if fn == "mem_leak_free" else "mem"
        want = ("MemoryLeakWarningPlugin::getGlobalDetector()->invalidateMemory((char*)%s);"
                "MemoryLeakWarningPlugin::getGlobalDetector()->deallocMemory(%s,(char*)%s%s);" % (arg, getter, arg, tail))
        if body != want:
            raise TranslateError("%s changed shape: %s" % (fn, body))

    # ---- C wrappers
    body = function_body(thc, r"void\*\s*cpputest_calloc_location\s*\([^)]*\)\s*\{")
    h = match_shape(body, "if(«T»)returnNULLPTR;void*mem=cpputest_malloc_location(«R»,file,line);"
                          "if(mem)PlatformSpecificMemset(mem,0,«M»);returnmem;", "cpputest_calloc_location")
    ctest = expr(h["T"], ["num", "size"], kind="bool")
    creq = expr(h["R"], ["num", "size"])
    cset = expr(h["M"], ["num", "size"])

    body = function_body(thc, r"static\s+char\*\s*strdup_alloc\s*\([^)]*\)\s*\{")
    match_shape(body, "char*result=(char*)cpputest_malloc_location(size,file,line);if(result==NULLPTR)returnNULLPTR;"
                      "PlatformSpecificMemCpy(result,str,size);result[size-1]='\\0';returnresult;", "strdup_alloc")
    body = function_body(thc, r"static\s+size_t\s+test_harness_c_strlen\s*\([^)]*\)\s*\{")
    match_shape(body, "size_tn=0;while(*str++)n++;returnn;", "test_harness_c_strlen")
    def length_expr(fn, idents):
        """`size_t length = E0; length = E1; ... return strdup_alloc(str, length, file, line);` -> one expression in
        `len` (= test_harness_c_strlen(str)) and the parameters, by substituting the assignments in order"""
        body = squeeze(function_body(thc, r"char\*\s*%s\s*\([^)]*\)\s*\{" % fn))
        m = re.fullmatch(r"size_tlength=(?P<first>[^;]+);(?P<rest>(?:length=[^;]+;)*)returnstrdup_alloc\(str,length,file,line\);", body)
        if not m:
            raise TranslateError("%s changed shape: %s" % (fn, body))
        steps = [m.group("first")] + [x[len("length="):] for x in m.group("rest").split(";") if x]
        cur = None
        for i, st in enumerate(steps):
            st = st.replace("test_harness_c_strlen(str)", "len")
            if "(" in st and re.search(r"[A-Za-z_]\w*\(", st.replace("sizeof(", "")):
                raise TranslateError("%s: call in length computation: %s" % (fn, st))
            e = expr(st, idents + (["length"] if i else []))
            if cur is not None:
                e = re.sub(r"\blength\b", lambda _m: cur, e)
            cur = e
        return cur
    strdup_len = length_expr("cpputest_strdup_location", ["len"])
    strndup_len = length_expr("cpputest_strndup_location", ["len", "n"])
    body = function_body(thc, r"void\*\s*cpputest_malloc_location\s*\([^)]*\)\s*\{")
    match_shape(body, "countdown();malloc_count++;returncpputest_malloc_location_with_leak_detection(size,file,line);",
                "cpputest_malloc_location")

    # ---- malloc/realloc/free through the detector: separate nodes
    for fn, want in (("mem_leak_malloc", "returnMemoryLeakWarningPlugin::getGlobalDetector()->allocMemory(getCurrentMallocAllocator(),size,file,line,true);"),
                     ("mem_leak_realloc", "returnMemoryLeakWarningPlugin::getGlobalDetector()->reallocMemory(getCurrentMallocAllocator(),(char*)memory,size,file,line,true);")):
        body = function_body(mlw, r"static\s+void\*\s*%s\s*\([^)]*\)\s*\{" % fn)
        match_shape(body, want, fn)

    # ---- operator new table
    m = re.search(r"#if\s+CPPUTEST_HAVE_EXCEPTIONS\s+#define\s+UT_THROW_BAD_ALLOC_WHEN_NULL\(memory\)\s+(.*?)\n\s*#else", mlw, re.S)
    if not m or squeeze(m.group(1)) != "if((memory)==NULLPTR)throwCPPUTEST_BAD_ALLOC()":
        raise TranslateError("UT_THROW_BAD_ALLOC_WHEN_NULL changed shape")
    variants = []
    for name, array, debug, nothrow in (("mem_leak_operator_new", 0, 0, 0), ("mem_leak_operator_new_nothrow", 0, 0, 1),
                                        ("mem_leak_operator_new_debug", 0, 1, 0), ("mem_leak_operator_new_array", 1, 0, 0),
                                        ("mem_leak_operator_new_array_nothrow", 1, 0, 1), ("mem_leak_operator_new_array_debug", 1, 1, 0)):
        body = squeeze(function_body(mlw, r"static\s+void\*\s*%s\s*\([^)]*\)[^{;]*\{" % name))
        getter = "getCurrentNewArrayAllocator()" if array else "getCurrentNewAllocator()"
        args = "%s,size%s" % (getter, ",file,line" if debug else "")
        call = "MemoryLeakWarningPlugin::getGlobalDetector()->allocMemory(%s)" % args
        if body == "void*memory=%s;UT_THROW_BAD_ALLOC_WHEN_NULL(memory);returnmemory;" % call:
            throws = True
        elif body == "return%s;" % call:
            throws = False
        else:
            raise TranslateError("%s changed shape: %s" % (name, body))
        variants.append((name, bool(array), throws, bool(nothrow)))

    L = []
    L.append(HEADER % ("translate/extract_alloclayout.py", DET + ", " + HDR + ", " + THC + ", " + MLW))
    L.append("set_option linter.unusedVariables false")
    L.append("namespace Gen.AllocLayout\n")
    L.append("/-- `memory_corruption_buffer_size`, default build -/")
    L.append("def corruptionBufferSizeCheck : Nat := %d" % guard_check)
    L.append("/-- `memory_corruption_buffer_size` with CPPUTEST_DISABLE_MEM_CORRUPTION_CHECK -/")
    L.append("def corruptionBufferSizeNoCheck : Nat := %d" % guard_nocheck)
    L.append("/-- the byte `invalidateMemory` fills released user bytes with -/")
    L.append("def poisonByte : UInt8 := %d" % poison)
    L.append("/-- `GuardBytes` -/")
    L.append("def guardBytes : List UInt8 := [%s]" % ", ".join(str(b) for b in gb))
    L.append("/-- `sizeof(MemoryLeakDetectorNode)` from the struct's fields, LP64 -/")
    L.append("def sizeofNode : Nat := %d" % node_size)
    if "size_" not in FIELD_TYPES:
        raise TranslateError("MemoryLeakDetectorNode has no field size_")
    size_ty = FIELD_TYPES["size_"]
    size_bytes = [f[2] for f in layout if f[0] == "size_"][0]
    L.append("/-- declared type of `MemoryLeakDetectorNode::size_` (what `size_ = size` in `init` keeps of a `size_t`) -/")
    L.append('def nodeSizeFieldType : String := "%s"' % size_ty)
    L.append("/-- width in bits of that field, LP64 -/")
    L.append("def nodeSizeFieldBits : Nat := %d" % (8 * size_bytes))
    L.append("/-- field, offset, size -/")
    L.append("def nodeFields : List (String × Nat × Nat) := [%s]" % ", ".join('("%s", %d, %d)' % f for f in layout))
    L.append("")
    L.append("/-- `calculateVoidPointerAlignedSize`, `#ifndef CPPUTEST_DISABLE_MEM_CORRUPTION_CHECK` branch -/")
    L.append("def calculateVoidPointerAlignedSizeCheck (size : BitVec 64) : BitVec 64 :=\n  %s" % align_check)
    L.append("/-- `calculateVoidPointerAlignedSize`, `#else` branch -/")
    L.append("def calculateVoidPointerAlignedSizeNoCheck (size : BitVec 64) : BitVec 64 :=\n  %s" % align_nocheck)
    L.append("/-- `MemoryLeakDetector::sizeOfMemoryWithCorruptionInfo` -/")
    L.append("def sizeOfMemoryWithCorruptionInfo (calculateVoidPointerAlignedSize : BitVec 64 → BitVec 64)\n"
             "    (memory_corruption_buffer_size size : BitVec 64) : BitVec 64 :=\n  %s" % swci)
    L.append("/-- offset added to `memory` in `getNodeFromMemoryPointer` -/")
    L.append("def nodeOffset (sizeOfMemoryWithCorruptionInfo : BitVec 64 → BitVec 64) (memory_size : BitVec 64) : BitVec 64 :=\n  %s" % node_off)
    for nm, e, doc in (("allocRequestSeparate", areq_sep, "size given to `alloc_memory`, separate nodes"),
                       ("allocRequestInline", areq_inl, "size given to `alloc_memory`, inline node"),
                       ("reallocRequestSeparate", rreq_sep, "size given to `PlatformSpecificRealloc`, separate nodes"),
                       ("reallocRequestInline", rreq_inl, "size given to `PlatformSpecificRealloc`, inline node")):
        L.append("/-- %s -/" % doc)
        L.append("def %s (sizeOfMemoryWithCorruptionInfo : BitVec 64 → BitVec 64) (sizeofNode size : BitVec 64) : BitVec 64 :=\n  %s" % (nm, e))
    L.append("/-- condition of the `return NULLPTR` overflow guard at the top of `allocMemory` -/")
    L.append("def allocOverflowGuard (sizeOfMemoryWithCorruptionInfo : BitVec 64 → BitVec 64) (sizeofNode size : BitVec 64) : Bool :=\n  %s" % aguard)
    L.append("/-- condition of the `return NULLPTR` overflow guard at the top of `reallocMemory` -/")
    L.append("def reallocOverflowGuard (sizeOfMemoryWithCorruptionInfo : BitVec 64 → BitVec 64) (sizeofNode size : BitVec 64) : Bool :=\n  %s" % rguard)
    L.append("")
    L.append("/-- `cpputest_calloc_location`: condition of `return NULLPTR` -/")
    L.append("def callocOverflowTest (num size : BitVec 64) : Bool :=\n  %s" % ctest)
    L.append("/-- `cpputest_calloc_location`: size given to `cpputest_malloc_location` -/")
    L.append("def callocRequest (num size : BitVec 64) : BitVec 64 :=\n  %s" % creq)
    L.append("/-- `cpputest_calloc_location`: length given to the zeroing memset -/")
    L.append("def callocMemset (num size : BitVec 64) : BitVec 64 :=\n  %s" % cset)
    L.append("/-- `cpputest_strdup_location`: the `length` handed to `strdup_alloc`, `len` = `test_harness_c_strlen(str)` -/")
    L.append("def strdupLength (len : BitVec 64) : BitVec 64 :=\n  %s" % strdup_len)
    L.append("/-- `cpputest_strndup_location`: the `length` handed to `strdup_alloc` (assignments substituted in order) -/")
    L.append("def strndupLength (len n : BitVec 64) : BitVec 64 :=\n  %s" % strndup_len)
    L.append("")
    L.append("/-- operator new variants: name, array form, ends in UT_THROW_BAD_ALLOC_WHEN_NULL, is a nothrow overload -/")
    L.append("def newVariants : List (String × Bool × Bool × Bool) := [\n%s]" % ",\n".join(
        '  ("%s", %s, %s, %s)' % (n, str(a).lower(), str(t).lower(), str(nt).lower()) for n, a, t, nt in variants))
    L.append("\nend Gen.AllocLayout")
    code = code_text([("allocMemoryCode", "`MemoryLeakDetector::allocMemory(allocator, size, file, line, allocatNodesSeperately)`", alloc_code),
                      ("storeCode", "`MemoryLeakDetector::storeLeakInformation`", store_code),
                      ("reallocInnerCode", "`MemoryLeakDetector::reallocateMemoryAndLeakInformation`", inner_code),
                      ("reallocMemoryCode", "`MemoryLeakDetector::reallocMemory`", realloc_code),
                      ("reallocTakeOldCode", "body of `if (memory) { … }` in `reallocMemory`", takeold_code),
                      ("reallocRetrackCode", "body of `if (new_memory == NULLPTR && memory) { … }` in `reallocMemory`", retrack_code),
                      ("deallocMemoryCode", "`MemoryLeakDetector::deallocMemory(allocator, memory, file, line, allocatNodesSeperately)`", dealloc_code),
                      ("deallocAliveCode", "body of `if (!allocator->hasBeenDestroyed()) { … }` in `deallocMemory`", alive_code)],
                     operator_forwarders(mlw), default_overloads(mlw), c_forwarders(thc, mlw),
                     one_liners({"det": det, "tma": tma}), threadsafe_bodies(mlw), threadsafe_overloads(mlw))
    return "\n".join(L) + "\n", code


OUT_CODE = os.path.join(core.LEAN, "CppUModel", "Gen", "AllocLayoutCode.lean")


def code_text(lists, fwd, ovl, cfw, onel, tsb, tso):
    L = [HEADER % ("translate/extract_alloclayout.py", DET + ", " + MLW + ", " + THC + ", " + TMA) + "import CppUModel.Model.AllocLayoutSyntax",
         "namespace Gen.AllocLayoutCode", "open AllocLayout", ""]
    for name, doc, steps in lists:
        L.append("/-- %s -/" % doc)
        L.append("def %s : List AStep := [%s]\n" % (name, ", ".join("." + x for x in steps)))
    L.append("/-- the global `operator new` / `operator delete` overloads: signature, array form, delete, the function pointer called, "
             "the arguments passed (`$k` = k-th parameter) -/")
    L.append("def forwarders : List Forwarder := [\n%s]\n" % ",\n".join(
        '  ⟨"%s", %s, %s, "%s", "%s"⟩' % (sig, str(a).lower(), str(d).lower(), f, args) for sig, a, d, f, args in fwd))
    L.append("/-- `turnOnDefaultNotThreadSafeNewDeleteOverloads`: function pointer := function -/")
    L.append("def defaultOverloads : List (String × String) := [\n%s]\n" % ",\n".join('  ("%s", "%s")' % p for p in ovl))
    L.append("/-- the one-line C entry points: function, callee, arguments (`$k` = k-th parameter) -/")
    L.append("def cForwarders : List (String × String × String) := [\n%s]\n" % ",\n".join('  ("%s", "%s", "%s")' % t for t in cfw))
    L.append("/-- every tracked entry point and whether its `threadsafe_` twin is `MemLeakScopedMutex lock;` followed by the very same body -/")
    L.append("def threadsafeTwins : List (String × Bool) := [\n%s]\n" % ",\n".join('  ("%s", %s)' % (n, str(b).lower()) for n, b in tsb))
    L.append("/-- `turnOnThreadSafeNewDeleteOverloads`: function pointer := function -/")
    L.append("def threadsafeOverloads : List (String × String) := [\n%s]\n" % ",\n".join('  ("%s", "%s")' % q for q in tso))
    L.append("/-- small bodies taken for granted by the model (what an allocator answers, the short overloads): exact text, whitespace removed -/")
    L.append("def oneLiners : List (String × String) := [\n%s]\n" % ",\n".join('  ("%s", "%s")' % t for t in onel))
    L.append("end Gen.AllocLayoutCode")
    return "\n".join(L) + "\n"


def run():
    text, code = extract()
    core.write_if_changed(OUT, text)
    core.write_if_changed(OUT_CODE, code)
    return []


if __name__ == "__main__":
    print("\n".join(extract()))
