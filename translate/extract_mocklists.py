"""Regenerates lean/CppUModel/Gen/MockLists.lean from src/CppUTestExt/MockExpectedCallsList.cpp and
src/CppUTestExt/MockExpectedCall.cpp: every list primitive of MockExpectedCallsList that the matching
algorithm and the failure texts use (the pruning loops onlyKeep*, the first-match searches, the `has*`
queries, the for-each setters, the sum) and the loop-free predicates / state changes of
MockCheckedExpectedCall (isFulfilled, canMatchActualCalls, isMatchingActualCall(AndFinalized), relatesTo,
relatesToObject, hasInputParameter, hasOutputParameter, callWasMade, the scalar part of
resetActualCallMatchingState) are translated from their token structure into Lean definitions over the
model's expectation record (`Mock.Exp`: a list node whose expectation pointer has been set to NULL and pruned is
`cand = false`).  Props/C08.lean proves each generated definition equal to the hand-written model
function the theorems are about, so an edit of one of these functions in the source breaks an obligation.

Anything that does not have the shape understood here is a TranslateError (reported like a broken obligation)."""
import os, re
from .common import *

LIST = "src/CppUTestExt/MockExpectedCallsList.cpp"
CALL = "src/CppUTestExt/MockExpectedCall.cpp"
HDR = "include/CppUTestExt/MockCheckedExpectedCall.h"

LOOP = r"for\(MockExpectedCallsListNode\*p=head_;p;p=p->next_\)"
LOOPL = r"for\(MockExpectedCallsListNode\*p=list\.head_;p;p=p->next_\)"


def squeeze(t):
    return re.sub(r"\s+", "", t)


def body(src, cls, fn):
    return squeeze(function_body(src, r"\b%s::%s\s*\(" % (cls, fn)))


# ---- expressions -----------------------------------------------------------------------------------------

NAT = {"actualCalls_": "e.actual", "expectedCalls_": "e.expected", "callOrder": "order",
       "initialExpectedCallOrder_": "e.lo", "finalExpectedCallOrder_": "e.hi", "NO_EXPECTED_CALL_ORDER": "0"}
BOOL = {"ignoreOtherParameters_": "e.iop", "isActualCallMatchFinalized_": "e.finalized",
        "wasPassedToObject_": "e.passedObj", "isSpecificObjectExpected_": "e.obj.isSome",
        "isMatchingActualCall()": "(isMatchingActualCall e)",
        "areParametersMatchingActualCall()": "e.paramsMatching",
        "objectPtr_==objectPtr": "(e.obj == some o)", "functionName==getName()": "(n == e.name)",
        "true": "true", "false": "false"}
TOK = re.compile(r"objectPtr_==objectPtr|functionName==getName\(\)|[A-Za-z_][A-Za-z_0-9]*(?:\(\))?|&&|\|\||==|!=|<=|>=|[!()<>]")


def tokens(s, what):
    out, i = [], 0
    while i < len(s):
        m = TOK.match(s, i)
        if not m:
            raise TranslateError("%s: cannot read expression %r at %r" % (what, s, s[i:i + 20]))
        out.append(m.group(0))
        i = m.end()
    return out


class P:
    """boolean expressions: || > && > ! > comparison of counters > atom"""
    def __init__(self, toks, what):
        self.t, self.i, self.what = toks, 0, what

    def peek(self):
        return self.t[self.i] if self.i < len(self.t) else None

    def eat(self, x=None):
        tok = self.peek()
        if tok is None or (x is not None and tok != x):
            raise TranslateError("%s: expected %r, found %r" % (self.what, x, tok))
        self.i += 1
        return tok

    def or_(self):
        l = self.and_()
        while self.peek() == "||":
            self.eat()
            l = "(%s || %s)" % (l, self.and_())
        return l

    def and_(self):
        l = self.not_()
        while self.peek() == "&&":
            self.eat()
            l = "(%s && %s)" % (l, self.not_())
        return l

    def not_(self):
        if self.peek() == "!":
            self.eat()
            return "(!%s)" % self.not_()
        return self.cmp()

    def cmp(self):
        tok = self.peek()
        if tok == "(":
            self.eat()
            x = self.or_()
            self.eat(")")
            return x
        self.eat()
        if tok in NAT:
            op = self.eat()
            r = self.eat()
            if r not in NAT:
                raise TranslateError("%s: counter compared with %r" % (self.what, r))
            a, b = NAT[tok], NAT[r]
            rel = {"==": "%s = %s", "!=": "%s ≠ %s", "<": "%s < %s", ">": "%s > %s", "<=": "%s ≤ %s", ">=": "%s ≥ %s"}
            if op not in rel:
                raise TranslateError("%s: unknown comparison %r" % (self.what, op))
            return "decide (" + rel[op] % (a, b) + ")"
        if tok in BOOL:
            return BOOL[tok]
        raise TranslateError("%s: unknown operand %r" % (self.what, tok))


def expr(s, what):
    p = P(tokens(s, what), what)
    x = p.or_()
    if p.peek() is not None:
        raise TranslateError("%s: trailing tokens in %r" % (what, s))
    return x


# ---- predicates of the expectation used in the list loops -------------------------------------------------

# C++ call on p->expectedCall_  ->  (Lean term over `e`, extra binders of the generated function)
PRED = {
    "relatesTo(name)": ("(relatesTo e n)", "(n : String)"),
    "isMatchingActualCallAndFinalized()": ("(isMatchingActualCallAndFinalized e)", ""),
    "isMatchingActualCall()": ("(isMatchingActualCall e)", ""),
    "hasInputParameter(parameter)": ("(hasInputParameter e n v)", "(n : String) (v : Val)"),
    "hasOutputParameter(parameter)": ("(hasOutputParameter e n)", "(n : String)"),
    "relatesToObject(objectPtr)": ("(relatesToObject e o)", "(o : Nat)"),
    "isOutOfOrder()": ("e.outOfOrder", ""),
    "hasInputParameterWithName(name)": ("(e.hasInputNamed n)", "(n : String)"),
    "hasOutputParameterWithName(name)": ("(e.hasOutputNamed n)", "(n : String)"),
    "isFulfilled()": ("(isFulfilled e)", ""),
    "canMatchActualCalls()": ("(canMatchActualCalls e)", ""),
    "areParametersMatchingActualCall()": ("e.paramsMatching", ""),
}


def pred(text, what):
    neg = text.startswith("!")
    t = text[1:] if neg else text
    if not t.startswith("p->expectedCall_->"):
        raise TranslateError("%s: condition is not a query of the node's expectation: %r" % (what, text))
    t = t[len("p->expectedCall_->"):]
    if t not in PRED:
        raise TranslateError("%s: unknown query %r" % (what, t))
    term, binders = PRED[t]
    return ("(!%s)" % term if neg else term), binders


RESET = "p->expectedCall_->resetActualCallMatchingState();"
NULL = "p->expectedCall_=NULLPTR;"


def keep_fn(src, fn, form):
    """onlyKeep*: `for (nodes) if (COND) { [reset;] node = NULL; } prune;`  — COND is the condition to DROP"""
    b = body(src, "MockExpectedCallsList", fn)
    m = re.match(r"^%sif\((.*?)\)\{?((?:%s)?)%s\}?pruneEmptyNodeFromList\(\);$" % (LOOP, re.escape(RESET), re.escape(NULL)), b)
    if not m:
        raise TranslateError("MockExpectedCallsList::%s is no longer a drop-if loop followed by pruneEmptyNodeFromList(): %s" % (fn, b))
    cond, binders = pred(m.group(1), fn)
    reset = bool(m.group(2))
    if form == "cand":
        drop = "{ (resetActualCallMatchingState e) with cand := false }" if reset else "{ e with cand := false }"
        return "def %s %s (es : List Exp) : List Exp :=\n  es.map (fun e => if e.cand && %s then %s else e)\n" % (fn, binders, cond, drop)
    if reset:
        raise TranslateError("MockExpectedCallsList::%s now resets the expectations it drops (it works on the copy a failure text is built from)" % fn)
    return "def %s %s (es : List Exp) : List Exp :=\n  es.filter (fun e => !%s)\n" % (fn, binders, cond)


def any_fn(src, fn, form):
    b = body(src, "MockExpectedCallsList", fn)
    m = re.match(r"^%s\{?if\((.*?)\)\{?returntrue;\}?\}?returnfalse;$" % LOOP, b)
    if not m:
        raise TranslateError("MockExpectedCallsList::%s is no longer an exists-loop: %s" % (fn, b))
    cond, binders = pred(m.group(1), fn)
    guard = "e.cand && " if form == "cand" else ""
    return "def %s %s (es : List Exp) : Bool :=\n  es.any (fun e => %s%s)\n" % (fn, binders, guard, cond)


def first_fn(src, fn, remove):
    b = body(src, "MockExpectedCallsList", fn)
    if remove:
        pat = (r"^%s\{if\((.*?)\)\{MockCheckedExpectedCall\*matchingCall=p->expectedCall_;%spruneEmptyNodeFromList\(\);"
               r"returnmatchingCall;\}\}returnNULLPTR;$" % (LOOP, re.escape(NULL)))
    else:
        pat = r"^%s\{if\((.*?)\)\{returnp->expectedCall_;\}\}returnNULLPTR;$" % LOOP
    m = re.match(pat, b)
    if not m:
        raise TranslateError("MockExpectedCallsList::%s is no longer a first-match loop: %s" % (fn, b))
    cond, binders = pred(m.group(1), fn)
    out = "def %s_result (es : List Exp) : Option Exp :=\n  es.find? (fun e => e.cand && %s)\n" % (fn, cond)
    if remove:
        out += "def %s_list (es : List Exp) : List Exp :=\n  modifyFirst (fun e => e.cand && %s) Exp.take es\n" % (fn, cond)
    return out


EACH = {
    "resetActualCallMatchingState": ("resetActualCallMatchingState()", "", "(resetActualCallMatchingState e)"),
    "wasPassedToObject": ("wasPassedToObject()", "", "{ e with passedObj := true }"),
    "parameterWasPassed": ("inputParameterWasPassed(parameterName)", "(n : String)", "e.passInput n"),
    "outputParameterWasPassed": ("outputParameterWasPassed(parameterName)", "(n : String)", "e.passOutput n"),
}


def each_fn(src, fn):
    call, binders, term = EACH[fn]
    b = body(src, "MockExpectedCallsList", fn)
    if b != squeeze("for(MockExpectedCallsListNode*p=head_;p;p=p->next_)p->expectedCall_->%s;" % call):
        raise TranslateError("MockExpectedCallsList::%s is no longer `for every node: expectation->%s`: %s" % (fn, call, b))
    return "def %s_all %s (es : List Exp) : List Exp :=\n  es.map (fun e => if e.cand then %s else e)\n" % (fn, binders, term)


def add_fn(src, fn):
    """add*(list): append the expectations of `list` that satisfy the condition"""
    b = body(src, "MockExpectedCallsList", fn)
    m = re.match(r"^%s(?:if\((.*?)\))?addExpectedCall\(p->expectedCall_\);$" % LOOPL, b)
    if not m:
        raise TranslateError("MockExpectedCallsList::%s is no longer a conditional append loop: %s" % (fn, b))
    if m.group(1) is None:
        return "def %s (es : List Exp) : List Exp := es\n" % fn, None
    cond, binders = pred(m.group(1), fn)
    return cond, binders


def return_expr(src, fn, what=None):
    b = body(src, "MockCheckedExpectedCall", fn)
    m = re.match(r"^return(.*);$", b)
    if not m or ";" in m.group(1):
        raise TranslateError("MockCheckedExpectedCall::%s is no longer a single return statement: %s" % (fn, b))
    return expr(m.group(1), fn)


def lookup_fn(src, fn, listname, test, lean_some):
    b = body(src, "MockCheckedExpectedCall", fn)
    m = re.match(r"^MockNamedValue\*p=%s->getValueByName\(parameter\.getName\(\)\);return\(p\)\?p->%s\(parameter\):(.*);$"
                 % (listname, test), b)
    if not m:
        raise TranslateError("MockCheckedExpectedCall::%s changed shape: %s" % (fn, b))
    return lean_some, expr(m.group(1), fn)


SUP = "src/CppUTestExt/MockSupport.cpp"
ARITH = re.compile(r"expectedCallOrder_|amount|\d+|[+\-()]")


def arith(s, what):
    """`expectedCallOrder_ + amount`-style expressions over the two counters and literals (+ and - only)"""
    out, i = [], 0
    while i < len(s):
        m = ARITH.match(s, i)
        if not m:
            raise TranslateError("%s: cannot read arithmetic %r" % (what, s))
        out.append({"expectedCallOrder_": "expectedOrder", "amount": "amount"}.get(m.group(0), m.group(0)))
        i = m.end()
    return " ".join(out)


def support_section():
    sup = strip_comments(read(SUP))
    call = strip_comments(read(CALL))
    t = "\n/-! ## MockSupport: declaring an expectation, numbering and routing an actual call, the end-of-test check -/\n\n"
    b = body(sup, "MockSupport", "expectNCalls")
    m = re.match(r"^if\(!enabled_\)returnMockIgnoredExpectedCall::instance\(\);countCheck\(\);"
                 r"MockCheckedExpectedCall\*(\w+)=newMockCheckedExpectedCall\(amount\);"
                 r"\1->withName\(appendScopeToName\(functionName\)\);"
                 r"if\(strictOrdering_\)\{\1->withCallOrder\(([^,;]*),([^,;]*)\);expectedCallOrder_\+=([^;]*);\}"
                 r"expectations_\.addExpectedCall\(\1\);return\*\1;$", b)
    if not m:
        raise TranslateError("MockSupport::expectNCalls changed shape: " + b)
    t += "/-- `withCallOrder(initial, final)` arguments and the advance of `expectedCallOrder_` under `strictOrder()` -/\n"
    t += "def expectNCalls_initialOrder (expectedOrder amount : Nat) : Nat := %s\n" % arith(m.group(2), "expectNCalls")
    t += "def expectNCalls_finalOrder (expectedOrder amount : Nat) : Nat := %s\n" % arith(m.group(3), "expectNCalls")
    t += "def expectNCalls_nextOrder (expectedOrder amount : Nat) : Nat := expectedOrder + (%s)\n" % arith(m.group(4), "expectNCalls")
    b = body(call, "MockCheckedExpectedCall", "withCallOrder")
    if b != "initialExpectedCallOrder_=initialCallOrder;finalExpectedCallOrder_=finalCallOrder;return*this;":
        raise TranslateError("MockCheckedExpectedCall::withCallOrder changed shape: " + b)
    if not re.search(r"MockCheckedExpectedCall::withCallOrder\s*\(\s*unsigned\s+int\s+initialCallOrder\s*,\s*unsigned\s+int\s+finalCallOrder\s*\)", call):
        raise TranslateError("MockCheckedExpectedCall::withCallOrder: parameter order changed")
    b = body(sup, "MockSupport", "expectOneCall")
    m1 = re.match(r"^returnexpectNCalls\((\d+),functionName\);$", b)
    b = body(sup, "MockSupport", "expectNoCall")
    m0 = re.match(r"^expectNCalls\((\d+),functionName\);$", b)
    if not m1 or not m0:
        raise TranslateError("MockSupport::expectOneCall / expectNoCall changed shape")
    t += "def expectOneCall_amount : Nat := %s\ndef expectNoCall_amount : Nat := %s\n" % (m1.group(1), m0.group(1))

    b = body(sup, "MockSupport", "createActualCall")
    m = re.match(r"^lastActualFunctionCall_=newMockCheckedActualCall\((\+\+actualCallOrder_|actualCallOrder_\+\+),activeReporter_,expectations_\);"
                 r"returnlastActualFunctionCall_;$", b)
    if not m:
        raise TranslateError("MockSupport::createActualCall changed shape: " + b)
    pre = m.group(1).startswith("++")
    t += "/-- the order number `createActualCall` gives the new call, and the counter afterwards -/\n"
    t += "def createActualCall_order (actualOrder : Nat) : Nat := %s\n" % ("actualOrder + 1" if pre else "actualOrder")
    t += "def createActualCall_counter (actualOrder : Nat) : Nat := actualOrder + 1\n"

    b = body(sup, "MockSupport", "callIsIgnored")
    m = re.match(r"^return(.*);$", b)
    if not m:
        raise TranslateError("MockSupport::callIsIgnored changed shape: " + b)
    x = m.group(1)
    toks = {"ignoreOtherCalls_": "ioc", "expectations_.hasExpectationWithName(functionName)": "known"}
    y = x
    for k, v in toks.items():
        y = y.replace(k, " %s " % v)
    if not re.fullmatch(r"[\s!&|()]*(?:(?:ioc|known)[\s!&|()]*)+", y):
        raise TranslateError("MockSupport::callIsIgnored: unknown operands in " + x)
    t += "def callIsIgnored (ioc known : Bool) : Bool := %s\n" % re.sub(r"\s+", " ", y.replace("&&", " && ").replace("||", " || ")).strip()

    b = body(sup, "MockSupport", "actualCall")
    steps = [
        (r"constSimpleStringscopeFunctionName=appendScopeToName\(functionName\);", "scopeName"),
        (r"if\(lastActualFunctionCall_\)\{lastActualFunctionCall_->checkExpectations\(\);deletelastActualFunctionCall_;lastActualFunctionCall_=NULLPTR;\}", "finishPrevious"),
        (r"if\(!enabled_\)returnMockIgnoredActualCall::instance\(\);", "disabled"),
        (r"if\(tracing_\)returnMockActualCallTrace::instance\(\)\.withName\(scopeFunctionName\);", "tracing"),
        (r"if\(callIsIgnored\(scopeFunctionName\)\)\{returnMockIgnoredActualCall::instance\(\);\}", "ignored"),
        (r"MockCheckedActualCall\*call=createActualCall\(\);call->withName\(scopeFunctionName\);return\*call;", "checked"),
    ]
    order, rest = [], b
    while rest:
        for pat, name in steps:
            m = re.match(pat, rest)
            if m:
                order.append(name)
                rest = rest[m.end():]
                break
        else:
            raise TranslateError("MockSupport::actualCall: statement not understood at: " + rest[:160])
    t += "/-- the statements of `actualCall`, in source order -/\n"
    t += "def actualCall_steps : List String := [%s]\n" % ", ".join('"%s"' % o for o in order)

    b = body(sup, "MockSupport", "checkExpectations")
    steps = [
        (r"checkExpectationsOfLastActualCall\(\);", "finishCalls"),
        (r"if\(wasLastActualCallFulfilled\(\)&&expectedCallsLeft\(\)\)failTestWithExpectedCallsNotFulfilled\(\);", "unfulfilled"),
        (r"if\(hasCallsOutOfOrder\(\)\)failTestWithOutOfOrderCalls\(\);", "outOfOrder"),
    ]
    order, rest = [], b
    while rest:
        for pat, name in steps:
            m = re.match(pat, rest)
            if m:
                order.append(name)
                rest = rest[m.end():]
                break
        else:
            raise TranslateError("MockSupport::checkExpectations: statement not understood at: " + rest[:160])
    t += "/-- the statements of `checkExpectations`, in source order -/\n"
    t += "def checkExpectations_steps : List String := [%s]\n" % ", ".join('"%s"' % o for o in order)
    return t


def extract():
    lst = strip_comments(read(LIST))
    call = strip_comments(read(CALL))
    hdr = strip_comments(read(HDR))
    m = re.search(r"enum\s*\{\s*NO_EXPECTED_CALL_ORDER\s*=\s*(\d+)\s*\}", hdr)
    if not m or m.group(1) != "0":
        raise TranslateError("NO_EXPECTED_CALL_ORDER is no longer the enumerator 0")

    t = HEADER % ("translate/extract_mocklists.py", LIST + ", " + CALL + ", src/CppUTestExt/MockSupport.cpp")
    t += "import CppUModel.Model.Mock\nnamespace Gen.MockLists\nopen Mock\n\n"
    t += "/-! ## MockCheckedExpectedCall: loop-free queries and state changes -/\n\n"
    t += "def isFulfilled (e : Exp) : Bool := %s\n" % return_expr(call, "isFulfilled")
    t += "def canMatchActualCalls (e : Exp) : Bool := %s\n" % return_expr(call, "canMatchActualCalls")
    t += "def isMatchingActualCall (e : Exp) : Bool := %s\n" % return_expr(call, "isMatchingActualCall")
    t += "def isMatchingActualCallAndFinalized (e : Exp) : Bool := %s\n" % return_expr(call, "isMatchingActualCallAndFinalized")
    t += "def relatesTo (e : Exp) (n : String) : Bool := %s\n" % return_expr(call, "relatesTo")
    t += "def relatesToObject (e : Exp) (o : Nat) : Bool := %s\n" % return_expr(call, "relatesToObject")
    some, none = lookup_fn(call, "hasInputParameter", "inputParameters_", "equals", "p.val == v")
    t += ("def hasInputParameter (e : Exp) (n : String) (v : Val) : Bool :=\n  match e.ins.find? (fun p => p.name == n) with\n"
          "  | some p => %s\n  | none => %s\n" % (some, none))
    some, none = lookup_fn(call, "hasOutputParameter", "outputParameters_", "compatibleForCopying", "true")
    t += ("def hasOutputParameter (e : Exp) (n : String) : Bool :=\n  match e.outs.find? (fun p => p.name == n) with\n"
          "  | some _ => %s\n  | none => %s\n" % (some, none))

    b = body(call, "MockCheckedExpectedCall", "resetActualCallMatchingState")
    m = re.match(r"^((?:\w+=[^;]*;){2})MockNamedValueListNode\*p;"
                 r"for\(p=inputParameters_->begin\(\);p;p=p->next\(\)\)item\(p\)->setMatchesActualCall\((\w+)\);"
                 r"for\(p=outputParameters_->begin\(\);p;p=p->next\(\)\)item\(p\)->setMatchesActualCall\((\w+)\);$", b)
    if not m:
        raise TranslateError("MockCheckedExpectedCall::resetActualCallMatchingState changed shape: " + b)
    # the two scalar assignments are independent of each other: any order
    scal = dict(x.split("=", 1) for x in m.group(1).split(";") if x)
    if set(scal) != {"wasPassedToObject_", "isActualCallMatchFinalized_"}:
        raise TranslateError("MockCheckedExpectedCall::resetActualCallMatchingState assigns other members: " + b)
    if "isActualCallMatchFinalized_" in scal["wasPassedToObject_"] or "wasPassedToObject_" in scal["isActualCallMatchFinalized_"]:
        raise TranslateError("MockCheckedExpectedCall::resetActualCallMatchingState: the scalar assignments depend on each other: " + b)
    t += ("def resetActualCallMatchingState (e : Exp) : Exp :=\n"
          "  { e with passedObj := %s, finalized := %s,\n"
          "           ins := e.ins.map (fun p => { p with passed := %s }),\n"
          "           outs := e.outs.map (fun p => { p with passed := %s }) }\n"
          % (expr(scal["wasPassedToObject_"], "reset"), expr(scal["isActualCallMatchFinalized_"], "reset"),
             expr(m.group(2), "reset"), expr(m.group(3), "reset")))

    b = body(call, "MockCheckedExpectedCall", "callWasMade")
    m = re.match(r"^actualCalls_\+\+;if\((.*)\)\{outOfOrder_=true;\}resetActualCallMatchingState\(\);$", b)
    if not m:
        raise TranslateError("MockCheckedExpectedCall::callWasMade changed shape: " + b)
    t += ("/-- `callWasMade(callOrder)`: count, flag out of order, reset the matching state (in this order) -/\n"
          "def outOfOrderCondition (e : Exp) (order : Nat) : Bool := %s\n" % expr(m.group(1), "callWasMade"))
    t += ("def callWasMade (e : Exp) (order : Nat) : Exp :=\n"
          "  resetActualCallMatchingState { e with actual := e.actual + 1, outOfOrder := if outOfOrderCondition e order then true else e.outOfOrder }\n")

    for fn, field in (("inputParameterWasPassed", "inputParameters_"), ("outputParameterWasPassed", "outputParameters_")):
        b = body(call, "MockCheckedExpectedCall", fn)
        want = squeeze("for(MockNamedValueListNode*p=%s->begin();p;p=p->next()){if(p->getName()==name)item(p)->setMatchesActualCall(true);}" % field)
        if b != want:
            raise TranslateError("MockCheckedExpectedCall::%s changed shape: %s" % (fn, b))
    b = body(call, "MockCheckedExpectedCall", "finalizeActualCallMatch")
    if b != "isActualCallMatchFinalized_=true;":
        raise TranslateError("MockCheckedExpectedCall::finalizeActualCallMatch changed shape: " + b)
    b = body(call, "MockCheckedExpectedCall", "wasPassedToObject")
    if b != "wasPassedToObject_=true;":
        raise TranslateError("MockCheckedExpectedCall::wasPassedToObject changed shape: " + b)

    t += "\n/-! ## MockExpectedCallsList: pruning loops (a pruned node is `cand = false`) -/\n\n"
    for fn in ("onlyKeepExpectationsRelatedTo", "onlyKeepUnmatchingExpectations", "onlyKeepExpectationsWithInputParameter",
               "onlyKeepExpectationsWithOutputParameter", "onlyKeepExpectationsOnObject"):
        t += keep_fn(lst, fn, "cand")
    t += "\n/-! … on the copies the failure texts are built from (plain lists) -/\n\n"
    for fn in ("onlyKeepOutOfOrderExpectations", "onlyKeepExpectationsWithInputParameterName",
               "onlyKeepExpectationsWithOutputParameterName"):
        t += keep_fn(lst, fn, "list")
    cond, _ = add_fn(lst, "addExpectationsRelatedTo")
    t += "def addExpectationsRelatedTo (n : String) (es : List Exp) : List Exp :=\n  es.filter (fun e => %s)\n" % cond
    cond, _ = add_fn(lst, "addPotentiallyMatchingExpectations")
    t += ("/-- the candidate list of a new call -/\ndef addPotentiallyMatchingExpectations (es : List Exp) : List Exp :=\n"
          "  es.map (fun e => { e with cand := %s, isMatch := false })\n" % cond)
    d, _ = add_fn(lst, "addExpectations")
    t += d

    t += "\n/-! ## first-match searches -/\n\n"
    t += first_fn(lst, "removeFirstFinalizedMatchingExpectation", True)
    t += first_fn(lst, "getFirstMatchingExpectation", False)
    t += first_fn(lst, "removeFirstMatchingExpectation", True)

    t += "\n/-! ## queries -/\n\n"
    t += any_fn(lst, "hasFinalizedMatchingExpectations", "cand")
    t += any_fn(lst, "hasUnmatchingExpectationsBecauseOfMissingParameters", "cand")
    t += any_fn(lst, "hasUnfulfilledExpectations", "list")
    t += any_fn(lst, "hasCallsOutOfOrder", "list")
    t += any_fn(lst, "hasExpectationWithName", "list")
    b = body(lst, "MockExpectedCallsList", "isEmpty")
    if b != "returnhead_==NULLPTR;":
        raise TranslateError("MockExpectedCallsList::isEmpty changed shape: " + b)
    t += "def isEmpty (es : List Exp) : Bool := !es.any (fun e => e.cand)\n"
    b = body(lst, "MockExpectedCallsList", "amountOfActualCallsFulfilledFor")
    m = re.match(r"^unsignedintcount=0;%s\{if\((.*?)\)\{count\+=p->expectedCall_->getActualCallsFulfilled\(\);\}\}returncount;$" % LOOP, b)
    if not m:
        raise TranslateError("MockExpectedCallsList::amountOfActualCallsFulfilledFor changed shape: " + b)
    cond, _ = pred(m.group(1), "amountOfActualCallsFulfilledFor")
    t += ("def amountOfActualCallsFulfilledFor (es : List Exp) (n : String) : Nat :=\n"
          "  (es.filter (fun e => %s)).foldl (fun a e => a + e.actual) 0\n" % cond)
    b = body(call, "MockCheckedExpectedCall", "getActualCallsFulfilled")
    if b != "returnactualCalls_;":
        raise TranslateError("MockCheckedExpectedCall::getActualCallsFulfilled changed shape: " + b)

    t += "\n/-! ## for-each setters -/\n\n"
    for fn in ("resetActualCallMatchingState", "wasPassedToObject", "parameterWasPassed", "outputParameterWasPassed"):
        t += each_fn(lst, fn)

    # the two text loops of the failure history: which expectations go into which section
    for fn, neg in (("unfulfilledCallsToString", "!"), ("fulfilledCallsToString", "")):
        b = body(lst, "MockExpectedCallsList", fn)
        m = re.match(r"^SimpleString(\w+);%sif\((!?)p->expectedCall_->isFulfilled\(\)\)\1=appendStringOnANewLine\(\1,linePrefix,"
                     r"p->expectedCall_->callToString\(\)\);returnstringOrNoneTextWhenEmpty\(\1,linePrefix\);$" % LOOP, b)
        if not m or m.group(2) != neg:
            raise TranslateError("MockExpectedCallsList::%s changed shape: %s" % (fn, b))
    t += "\n/-! ## the sections of the failure history -/\n\n"
    t += "def unfulfilledCallsSection (es : List Exp) : List Exp := es.filter (fun e => (!(isFulfilled e)))\n"
    t += "def fulfilledCallsSection (es : List Exp) : List Exp := es.filter (fun e => (isFulfilled e))\n"
    t += support_section()
    t += "\nend Gen.MockLists\n"
    return t


def run():
    text = extract()
    core.write_if_changed(os.path.join(core.LEAN, "CppUModel", "Gen", "MockLists.lean"), text)
    return []
