"""cxx2lean for C14, failure-message side: regenerates lean/CppUModel/Gen/DiagnosticsFailure.lean from the clang++-14 typed
JSON AST of src/CppUTest/TestFailure.cpp on every check run.

Translated: the seven first-difference scan loops of CheckEqualFailure, StringEqualFailure, StringEqualNoCaseFailure and
BinaryEqualFailure — for each `for (i = 0; cond; i++) ;` the loop condition as a Lean function of the two bytes read at
index `i` (chars are `BitVec 8`, promoted to `int` = `BitVec 32` exactly as clang's implicit casts say; `ToLower` is a
parameter), which operand each read comes from, and that init / increment / body are `i = 0` / `i++` / empty — and the
three arguments of every `createDifferenceAtPosString` call (which string, which index is the window offset, which the
reported position; the binary class's `failStart * 3 + 1` as a `BitVec 64` function).

Anything outside this shape raises TranslateError (reported like a broken obligation)."""
import json, os, subprocess
from .common import TranslateError, HEADER, core
from .extract_diagbuf import strip, ctype, where, INT_TYPES, callee_name

SRC = "src/CppUTest/TestFailure.cpp"
CLASSES = ["CheckEqualFailure", "StringEqualFailure", "StringEqualNoCaseFailure", "BinaryEqualFailure"]
OPERANDS = {"actual": "Operand.actual", "expected": "Operand.expected", "printableActual": "Operand.printableActual",
            "printableExpected": "Operand.printableExpected", "actualHex": "Operand.actualHex"}


def clang_docs():
    src = os.path.join(core.REPO, SRC)
    cmd = ["clang++-14", "-std=gnu++17", "-fsyntax-only", "-w", "-I" + os.path.join(core.REPO, "include"),
           "-I" + os.path.join(core.VERIF, "harness", "config"), "-DHAVE_CONFIG_H", "-DCPPUTEST_VERIF_HOOKS",
           "-Xclang", "-ast-dump=json", "-Xclang", "-ast-dump-filter=Failure::", src]
    try:
        p = subprocess.run(cmd, stdout=subprocess.PIPE, stderr=subprocess.PIPE, text=True, timeout=300)
    except OSError as e:
        raise TranslateError("clang++-14 cannot be run: %s" % e)
    if p.returncode != 0:
        raise TranslateError("clang cannot parse %s: %s" % (SRC, p.stderr[-1500:]))
    docs, dec, i, s = [], json.JSONDecoder(), 0, p.stdout
    n = len(s)
    while True:
        while i < n and s[i].isspace():
            i += 1
        if i >= n:
            break
        o, i = dec.raw_decode(s, i)
        docs.append(o)
    return docs


def walk(n, kind, acc):
    if n.get("kind") == kind:
        acc.append(n)
    for c in n.get("inner", []) or []:
        if isinstance(c, dict):
            walk(c, kind, acc)


def uncast(n):
    n = strip(n)
    while n.get("kind") in ("ImplicitCastExpr", "CXXFunctionalCastExpr") or n.get("kind") in ("MaterializeTemporaryExpr",):
        n = strip(n["inner"][0])
    return n


def var_name(n):
    n = uncast(n)
    if n.get("kind") == "DeclRefExpr":
        return n.get("referencedDecl", {}).get("name")
    return None


class Loop:
    def __init__(self, index):
        self.index = index
        self.reads = []          # operand names in order of first appearance

    def byte_read(self, n):
        """`X[i]` or `X.at(i)`: returns the operand name, or None"""
        n0 = strip(n)
        if n0.get("kind") == "ArraySubscriptExpr":
            base, idx = n0["inner"]
            if var_name(idx) != self.index:
                raise TranslateError("read at an index other than the loop variable%s" % where(n0))
            return var_name(base)
        if n0.get("kind") == "CXXMemberCallExpr":
            callee = strip(n0["inner"][0])
            if callee.get("kind") == "MemberExpr" and callee.get("name") == "at" and len(n0["inner"]) == 2:
                if var_name(n0["inner"][1]) != self.index:
                    raise TranslateError("at() with an index other than the loop variable%s" % where(n0))
                return var_name(callee["inner"][0])
        return None

    def sym(self, operand):
        if operand not in OPERANDS:
            raise TranslateError("scan reads %r, not an operand of the failure class" % operand)
        if operand not in self.reads:
            self.reads.append(operand)
        if len(self.reads) > 2:
            raise TranslateError("scan reads more than two strings: %s" % self.reads)
        return "xy"[self.reads.index(operand)]

    def expr(self, n, size_name=None):
        """integer / boolean expression -> (Lean term, width or 'bool')"""
        k = n.get("kind")
        if k in ("ParenExpr", "ExprWithCleanups", "MaterializeTemporaryExpr", "CXXBindTemporaryExpr"):
            return self.expr(n["inner"][0], size_name)
        op = self.byte_read(n)
        if op is not None:
            return self.sym(op), 8
        if k in ("ImplicitCastExpr", "CStyleCastExpr"):
            ck = n.get("castKind")
            if ck in ("NoOp", "LValueToRValue"):
                return self.expr(n["inner"][0], size_name)
            if ck == "IntegralCast":
                t = ctype(n)
                if t not in INT_TYPES:
                    raise TranslateError("cast to %r%s" % (t, where(n)))
                w2 = INT_TYPES[t][0]
                sub = n["inner"][0]
                e, w1 = self.expr(sub, size_name)
                st = ctype(sub)
                if st not in INT_TYPES:
                    raise TranslateError("cast from %r%s" % (st, where(n)))
                if w1 == w2:
                    return e, w2
                if w2 > w1 and INT_TYPES[st][1]:
                    return "(%s.signExtend %d)" % (e, w2), w2
                return "(%s.setWidth %d)" % (e, w2), w2
            raise TranslateError("cast %s%s" % (ck, where(n)))
        if k == "CharacterLiteral":
            w = INT_TYPES[ctype(n)][0]
            return "(%d#%d)" % (int(n["value"]) % (1 << w), w), w
        if k == "IntegerLiteral":
            w = INT_TYPES[ctype(n)][0]
            return "(%s#%d)" % (n["value"], w), w
        if k == "DeclRefExpr":
            nm = n.get("referencedDecl", {}).get("name")
            if nm == self.index:
                return "i", 64
            if size_name is not None and nm == size_name:
                return "size", 64
            raise TranslateError("reference to %r in a scan condition%s" % (nm, where(n)))
        if k == "CallExpr" and callee_name(n) == "ToLower" and len(n["inner"]) == 2:
            e, w = self.expr(n["inner"][1], size_name)
            if w != 8:
                raise TranslateError("ToLower of a non-char%s" % where(n))
            return "(lower %s)" % e, 8
        if k == "BinaryOperator":
            o = n["opcode"]
            a, b = n["inner"]
            if o == "&&":
                x, wx = self.expr(a, size_name)
                y, wy = self.expr(b, size_name)
                if wx != "bool" or wy != "bool":
                    raise TranslateError("&& of non-booleans%s" % where(n))
                return "(%s && %s)" % (x, y), "bool"
            if o in ("==", "!=", "<"):
                x, wx = self.expr(a, size_name)
                y, wy = self.expr(b, size_name)
                if wx != wy or wx == "bool":
                    raise TranslateError("comparison of different widths%s" % where(n))
                if o == "<":
                    if INT_TYPES[ctype(a)][1]:
                        raise TranslateError("signed < in a scan condition%s" % where(n))
                    return "(BitVec.ult %s %s)" % (x, y), "bool"
                return "(%s %s %s)" % (x, o, y), "bool"
        raise TranslateError("expression kind %s in a scan condition%s" % (k, where(n)))


def translate_loop(f, size_name):
    init, _, cond, inc, body = (f["inner"] + [None] * 5)[:5]
    init = strip(init)
    if not (init.get("kind") == "BinaryOperator" and init.get("opcode") == "=" and var_name(init["inner"][0])
            and uncast(init["inner"][1]).get("kind") == "IntegerLiteral" and uncast(init["inner"][1]).get("value") == "0"):
        raise TranslateError("scan loop does not start at 0%s" % where(f))
    index = var_name(init["inner"][0])
    inc = strip(inc)
    if not (inc.get("kind") == "UnaryOperator" and inc.get("opcode") == "++" and var_name(inc["inner"][0]) == index):
        raise TranslateError("scan loop does not advance by one%s" % where(f))
    if strip(body).get("kind") != "NullStmt":
        raise TranslateError("scan loop has a body%s" % where(f))
    lp = Loop(index)
    term, w = lp.expr(cond, size_name)
    if w != "bool":
        raise TranslateError("scan condition is not boolean%s" % where(f))
    return index, lp.reads, term


def offset_expr(n, names):
    """the offset / position arguments of createDifferenceAtPosString over the loop variables"""
    n = strip(n)
    k = n.get("kind")
    if k in ("ImplicitCastExpr", "CStyleCastExpr") and n.get("castKind") in ("NoOp", "LValueToRValue"):
        return offset_expr(n["inner"][0], names)
    if k in ("ImplicitCastExpr", "CStyleCastExpr") and n.get("castKind") == "IntegralCast":
        sub = n["inner"][0]
        w2 = INT_TYPES[ctype(n)][0]
        st = ctype(sub)
        e = offset_expr(sub, names)
        w1 = INT_TYPES[st][0]
        if w1 == w2:
            return e
        return "(%s.%s %d)" % (e, "signExtend" if (w2 > w1 and INT_TYPES[st][1]) else "setWidth", w2)
    if k == "DeclRefExpr":
        nm = n.get("referencedDecl", {}).get("name")
        if nm in names:
            return names[nm]
        raise TranslateError("offset refers to %r%s" % (nm, where(n)))
    if k == "IntegerLiteral":
        return "(%s#%d)" % (n["value"], INT_TYPES[ctype(n)][0])
    if k == "BinaryOperator" and n["opcode"] in ("+", "*", "-"):
        return "(%s %s %s)" % (offset_expr(n["inner"][0], names), n["opcode"], offset_expr(n["inner"][1], names))
    raise TranslateError("offset expression kind %s%s" % (k, where(n)))


PRELUDE = """set_option linter.unusedVariables false
namespace Gen.DiagFail
/-- the strings a failure constructor scans / shows a window of -/
inductive Operand
  | actual | expected | printableActual | printableExpected | actualHex
deriving DecidableEq, Repr
/-- one `for (i = 0; cond; i++) ;` scan: which string is `x`, which is `y` in its condition -/
structure Scan where
  x : Operand
  y : Operand
deriving DecidableEq, Repr
/-- which index variable an argument of `createDifferenceAtPosString` is -/
inductive Idx
  | raw | printable
deriving DecidableEq, Repr
"""


def extract():
    docs = clang_docs()
    out = [(HEADER % ("translate/extract_diagfailure.py (clang++-14 JSON AST)", SRC)).rstrip("\n"), PRELUDE.rstrip("\n")]
    total_loops = 0
    for cls in CLASSES:
        ctors = [d for d in docs if d.get("kind") == "CXXConstructorDecl" and d.get("name") == cls
                 and any(c.get("kind") == "CompoundStmt" for c in d.get("inner", []))]
        if len(ctors) != 1:
            raise TranslateError("expected one constructor definition of %s, found %d" % (cls, len(ctors)))
        d = ctors[0]
        params = [p.get("name") for p in d.get("inner", []) if p.get("kind") == "ParmVarDecl"]
        size_name = "size" if "size" in params else None
        loops = []
        walk(d, "ForStmt", loops)
        want = 1 if cls == "BinaryEqualFailure" else 2
        if len(loops) != want:
            raise TranslateError("%s has %d loops, expected %d" % (cls, len(loops), want))
        whiles = []
        walk(d, "WhileStmt", whiles)
        walk(d, "DoStmt", whiles)
        if whiles:
            raise TranslateError("%s has a while/do loop" % cls)
        lc = cls[0].lower() + cls[1:].replace("Failure", "")
        index_names = {}
        for j, f in enumerate(loops):
            index, reads, term = translate_loop(f, size_name)
            total_loops += 1
            if len(reads) != 2:
                raise TranslateError("%s: scan %d reads %s" % (cls, j, reads))
            tag = "Raw" if j == 0 else "Printable"
            if cls == "BinaryEqualFailure":
                out.append("/-- `%s`: condition of the scan over `%s` -/" % (cls, index))
                out.append("def %sCond (x y : BitVec 8) (i size : BitVec 64) : Bool :=\n  %s" % (lc, term))
                index_names[index] = "k"
            else:
                out.append("/-- `%s`: condition of the scan over `%s` (x, y = the bytes at that index) -/" % (cls, index))
                out.append("def %s%sCond (lower : BitVec 8 → BitVec 8) (x y : BitVec 8) : Bool :=\n  %s" % (lc, tag, term))
                index_names[index] = "Idx.raw" if j == 0 else "Idx.printable"
            out.append("def %s%sScan : Scan := { x := %s, y := %s }" % (lc, tag if cls != "BinaryEqualFailure" else "", OPERANDS[reads[0]], OPERANDS[reads[1]]))
        calls = []
        walk(d, "CXXMemberCallExpr", calls)
        calls = [c for c in calls if strip(c["inner"][0]).get("name") == "createDifferenceAtPosString"]
        plain = []
        walk(d, "CallExpr", plain)
        calls += [c for c in plain if callee_name(c) == "createDifferenceAtPosString"]
        if len(calls) != 1:
            raise TranslateError("%s calls createDifferenceAtPosString %d times" % (cls, len(calls)))
        args = calls[0]["inner"][1:]
        if len(args) != 3:
            raise TranslateError("%s: createDifferenceAtPosString with %d arguments" % (cls, len(args)))
        what = var_name(args[0])
        if what not in OPERANDS:
            raise TranslateError("%s shows a window of %r" % (cls, what))
        if cls == "BinaryEqualFailure":
            out.append("/-- `%s`: window offset and reported position as functions of the scan result -/" % cls)
            out.append("def %sOffset (k : BitVec 64) : BitVec 64 := %s" % (lc, offset_expr(args[1], index_names)))
            out.append("def %sReported (k : BitVec 64) : BitVec 64 := %s" % (lc, offset_expr(args[2], index_names)))
            out.append("def %sWindowOf : Operand := %s" % (lc, OPERANDS[what]))
        else:
            out.append("/-- `%s`: `createDifferenceAtPosString(string, offset, reportedPosition)` -/" % cls)
            out.append("def %sDiffCall : Operand × Idx × Idx := (%s, %s, %s)" % (
                lc, OPERANDS[what], offset_expr(args[1], index_names), offset_expr(args[2], index_names)))
    # no other loops anywhere in the failure constructors
    all_loops = []
    for d in docs:
        if d.get("kind") == "CXXConstructorDecl" and d.get("name", "").endswith("Failure"):
            walk(d, "ForStmt", all_loops)
            walk(d, "WhileStmt", all_loops)
            walk(d, "DoStmt", all_loops)
    # (declarations and definitions are both dumped: count definitions' loops only once via ids)
    ids = set(l.get("id") for l in all_loops)
    out.append("/-- number of loops in all failure constructors of TestFailure.cpp -/")
    out.append("def loopCount : Nat := %d" % len(ids))
    out.append("end Gen.DiagFail")
    return "\n".join(out) + "\n"


def run():
    text = extract()
    core.write_if_changed(os.path.join(core.LEAN, "CppUModel", "Gen", "DiagnosticsFailure.lean"), text)
    return []


if __name__ == "__main__":
    print(extract())
