"""Regenerates lean/CppUModel/Gen/ThreadSafeWiring.lean from src/CppUTest/MemoryLeakWarningPlugin.cpp
(+ SimpleMutex.cpp for the shape of the scoped lock).

Extracted (C10):
  * fptrs          every allocation function pointer of the translation unit (`static ... (*X_fptr)(...) = ...;`,
                   the `saved_*` copies excluded)
  * entries        every externally visible allocation entry point (global operator new/delete overloads,
                   cpputest_{malloc,realloc,free}_location_with_leak_detection, operator_new_nothrow helpers) and the
                   function pointer its body calls; an entry point whose body is anything else than one call
                   through a pointer is a shape error
  * threadSafeOn   the assignments in turnOnThreadSafeNewDeleteOverloads   (pointer <- function)
  * defaultOn / off the assignments of turnOnDefaultNotThreadSafeNewDeleteOverloads / turnOffNewDeleteOverloads
  * code.fail      MemoryLeakWarningReporter::fail as a statement list: getCurrent / releaseBeforeFailing / failWith(.., terminator
                   without exceptions), and the split form addFailure(FailFailure(..)) ... exitCurrentTest() in whatever order
                   the source has them (the ORDER is judged by the obligations, not here)
  * funcs          for every function assigned by one of the three switches: does its FIRST statement construct the
                   MemLeakScopedMutex, and which detector operations it calls (in order)
Shape checks (TranslateError): MemLeakScopedMutex holds one ScopedMutexLock built from the global detector's mutex;
ScopedMutexLock locks in its constructor and unlocks in its destructor; SimpleMutex::Lock/Unlock call the
PlatformSpecificMutexLock/Unlock seams; the counter guards of saveAndDisable/restore; getGlobalDetector's one cycle.
  * savedInit / saveCopies / restoreCopies   the saved_* variables, and which variable is copied to which by
                   saveAndDisableNewDeleteOverloads / restoreNewDeleteOverloads (obligation save_restore_roundtrip)
"""
import os, re
from .common import *

SRC = "src/CppUTest/MemoryLeakWarningPlugin.cpp"
MUTEX = "src/CppUTest/SimpleMutex.cpp"
GEN = os.path.join("CppUModel", "Gen", "ThreadSafeWiring.lean")


def _active(src):
    """the text as the harness configuration compiles it: every project conditional of this file
    (CPPUTEST_USE_MEM_LEAK_DETECTION, CPPUTEST_HAVE_EXCEPTIONS, CPPUTEST_USE_STD_CPP_LIB, __cplusplus >= 201402L)
    is on, so the `#if` branches are kept and the `#else` branches dropped"""
    out, stack = [], []          # stack of "keep the current branch"
    for line in src.split("\n"):
        s = line.strip()
        if s.startswith("#if"):
            stack.append(True)
        elif s.startswith("#else") or s.startswith("#elif"):
            if not stack:
                raise TranslateError("unbalanced #else")
            stack[-1] = False
        elif s.startswith("#endif"):
            if not stack:
                raise TranslateError("unbalanced #endif")
            stack.pop()
        elif s.startswith("#"):
            pass
        elif all(stack):
            out.append(line)
            continue
        out.append("")
    return "\n".join(out)


def _functions(src):
    """top-level function definitions: list of (header text, body text) -- headers end at the `{` that opens
    a body at brace depth 0 and follow a `)` (possibly with UT_THROW(..)/UT_NOTHROW/const after it)"""
    res = []
    depth, i, start = 0, 0, 0
    n = len(src)
    while i < n:
        c = src[i]
        if c == "{":
            if depth == 0:
                header = src[start:i]
                j, d = i, 0
                while j < n:
                    if src[j] == "{":
                        d += 1
                    elif src[j] == "}":
                        d -= 1
                        if d == 0:
                            break
                    j += 1
                if j >= n:
                    raise TranslateError("unbalanced braces")
                res.append((header.strip(), src[i + 1:j]))
                i = j + 1
                start = i
                continue
        elif c == ";" and depth == 0:
            start = i + 1
        i += 1
    return res


def _statements(body):
    """top-level statements of a function body (split at `;` outside parentheses/braces)"""
    out, cur, d = [], "", 0
    for c in body:
        if c in "({":
            d += 1
        elif c in ")}":
            d -= 1
        if c == ";" and d == 0:
            if cur.strip():
                out.append(re.sub(r"\s+", " ", cur.strip()))
            cur = ""
        else:
            cur += c
    if cur.strip():
        out.append(re.sub(r"\s+", " ", cur.strip()))
    return out


def _name_and_paren(header):
    """(name, index of the `(` opening the parameter list) of the function a header defines"""
    h = header
    m = re.search(r"\boperator\s*(new|delete)\s*(\[\s*\])?\s*\(", h)
    if m:
        return "operator " + m.group(1) + ("[]" if m.group(2) else ""), m.end() - 1
    m = re.search(r"([A-Za-z_][A-Za-z_0-9:]*)\s*\(", h)
    if m:
        return m.group(1), m.end() - 1
    return None, -1


def _fname(header):
    return _name_and_paren(header)[0]


def _params(header):
    _, i = _name_and_paren(header)
    d, j = 0, i
    while j < len(header):
        if header[j] == "(":
            d += 1
        elif header[j] == ")":
            d -= 1
            if d == 0:
                break
        j += 1
    ps = [re.sub(r"\s+", " ", p.strip()) for p in header[i + 1:j].split(",")]
    return [p for p in ps if p and p != "void"]


def _ptype(p):
    """parameter type without the name"""
    p = p.replace("const std::nothrow_t&", "nothrow_t")
    if p.startswith("nothrow_t"):
        return "nothrow"
    if re.match(r"size_t\b", p):
        return "size_t"
    if re.match(r"void\s*\*", p):
        return "ptr"
    if re.match(r"const char\s*\*", p):
        return "cstr"
    if re.match(r"int\b", p):
        return "int"
    raise TranslateError("parameter of unknown type: " + p)


def _assignments(body, fn):
    res = []
    for st in _statements(body):
        m = re.fullmatch(r"([A-Za-z_0-9]+_fptr) = ([A-Za-z_0-9]+)", st)
        if not m:
            raise TranslateError("%s: statement is not `<pointer> = <function>`: %s" % (fn, st))
        res.append((m.group(1), m.group(2)))
    return res



FLAG = "memLeakMutexIsHeld"
GETMUTEX = r"MemoryLeakWarningPlugin::getGlobalDetector\(\)->getMutex\(\)"


def _block(text, i):
    """text[i] == '{': (inner text, index after the matching '}')"""
    d, j = 0, i
    while j < len(text):
        if text[j] == "{":
            d += 1
        elif text[j] == "}":
            d -= 1
            if d == 0:
                return text[i + 1:j], j + 1
        j += 1
    raise TranslateError("unbalanced braces in: " + text[i:i + 60])


def _simple(st, where):
    """one `;`-terminated statement on the flag / the detector's mutex -> Lean `Simple`"""
    st = re.sub(r"\s+", " ", st.strip())
    m = re.fullmatch(FLAG + r" = (true|false)", st)
    if m:
        return ".setFlag " + m.group(1)
    if re.fullmatch(GETMUTEX + r"->Unlock\(\)", st):
        return ".unlock"
    if re.fullmatch(GETMUTEX + r"->Lock\(\)", st):
        return ".lock"
    raise TranslateError("%s: statement not understood: `%s`" % (where, st))


def _lstmts(body, where):
    """statement list of a body made of flag assignments, Lock/Unlock of the detector's mutex and
    `if (memLeakMutexIsHeld) { ... }` / `if (memLeakMutexIsHeld) stmt;` -> Lean `List LStmt` items"""
    out, i, n = [], 0, len(body)
    while i < n:
        if body[i].isspace() or body[i] == ";":
            i += 1
            continue
        m = re.compile(r"if\s*\(\s*%s\s*\)\s*" % FLAG).match(body, i)
        if m:
            j = m.end()
            if j < n and body[j] == "{":
                inner, j = _block(body, j)
            else:
                k = body.find(";", j)
                if k < 0:
                    raise TranslateError("%s: unterminated statement" % where)
                inner, j = body[j:k + 1], k + 1
            if re.compile(r"\s*else\b").match(body, j):
                raise TranslateError("%s: `else` branch not understood" % where)
            if "if" in re.findall(r"[A-Za-z_]+", inner):
                raise TranslateError("%s: nested `if` not understood" % where)
            items = [_simple(x, where) for x in inner.split(";") if x.strip()]
            out.append(".ifFlag [%s]" % ", ".join(items))
            i = j
            continue
        k = body.find(";", i)
        if k < 0:
            raise TranslateError("%s: unterminated statement: `%s`" % (where, body[i:i + 60].strip()))
        x = _simple(body[i:k], where)
        out.append(".simple " + (x if " " not in x else "(%s)" % x))
        i = k + 1
    return out


def _scoped_lock_code(src, by_name):
    """class MemLeakScopedMutex (constructor, destructor, releaseBeforeFailing, members), the flag's static
    initialiser and MemoryLeakWarningReporter::fail as statement lists"""
    m = re.search(r"static\s+bool\s+%s\s*=\s*(true|false)\s*;" % FLAG, src)
    if not m:
        raise TranslateError("`static bool %s = <bool>;` not found" % FLAG)
    flag_init = m.group(1)
    m = re.search(r"class\s+MemLeakScopedMutex\s*\{", src)
    if not m:
        raise TranslateError("class MemLeakScopedMutex not found")
    cls, _ = _block(src, m.end() - 1)
    # members: exactly one, a ScopedMutexLock (its constructor locks, its destructor unlocks: checked below on SimpleMutex.cpp)
    flat = re.sub(r"\s+", " ", cls)
    depth0 = ""
    d = 0
    for ch in cls:                       # the class text outside member function bodies
        if ch == "{":
            d += 1
        elif ch == "}":
            d -= 1
            depth0 += ";"
        elif d == 0:
            depth0 += ch
    members = re.findall(r"(?:^|;|:)\s*([A-Za-z_][A-Za-z_0-9]*)\s+([A-Za-z_][A-Za-z_0-9]*)\s*(?=;)", depth0)
    members = [(t, n) for t, n in members if t not in ("return",)]
    if len(members) != 1 or members[0][0] != "ScopedMutexLock":
        raise TranslateError("MemLeakScopedMutex: expected exactly one data member, a ScopedMutexLock; found %r" % (members,))
    member = members[0][1]
    # constructor
    m = re.search(r"(?<![~A-Za-z_0-9])MemLeakScopedMutex\s*\(\s*\)\s*(:[^{]*)?\{", cls)
    if not m:
        raise TranslateError("MemLeakScopedMutex constructor not found: " + flat)
    inits = (m.group(1) or "").lstrip(":").strip()
    ctor = []
    if inits:
        mi = re.fullmatch(r"%s\s*\(\s*%s\s*\)" % (re.escape(member), GETMUTEX), re.sub(r"\s+", " ", inits))
        if not mi:
            raise TranslateError("MemLeakScopedMutex constructor: member initialiser not understood: " + inits)
        ctor.append(".simple .lock")
    else:
        raise TranslateError("MemLeakScopedMutex constructor does not initialise the ScopedMutexLock member with the detector's mutex")
    body, _ = _block(cls, m.end() - 1)
    ctor += _lstmts(body, "MemLeakScopedMutex constructor")
    # destructor: body, then the member is destroyed
    m = re.search(r"~\s*MemLeakScopedMutex\s*\(\s*\)\s*\{", cls)
    dtor = []
    if m:
        body, _ = _block(cls, m.end() - 1)
        dtor += _lstmts(body, "MemLeakScopedMutex destructor")
    dtor.append(".simple .unlock")
    # releaseBeforeFailing
    m = re.search(r"static\s+void\s+releaseBeforeFailing\s*\(\s*\)\s*\{", cls)
    release = None
    if m:
        body, _ = _block(cls, m.end() - 1)
        release = _lstmts(body, "MemLeakScopedMutex::releaseBeforeFailing")
    # MemoryLeakWarningReporter::fail
    m = re.search(r"class\s+MemoryLeakWarningReporter\s*:\s*public\s+MemoryLeakFailure\s*\{", src)
    if not m:
        raise TranslateError("class MemoryLeakWarningReporter not found")
    rcls, _ = _block(src, m.end() - 1)
    m = re.search(r"virtual\s+void\s+fail\s*\(\s*char\s*\*\s*\w+\s*\)\s*(?:CPPUTEST_OVERRIDE|override)?\s*\{", rcls)
    if not m:
        raise TranslateError("MemoryLeakWarningReporter::fail not found")
    fbody, _ = _block(rcls, m.end() - 1)
    fail = []
    sts = _statements(fbody)
    for k, st in enumerate(sts):
        if re.fullmatch(r"MemLeakScopedMutex::releaseBeforeFailing\(\)", st):
            if release is None:
                raise TranslateError("fail calls releaseBeforeFailing, which is not defined in MemLeakScopedMutex")
            fail.append(".releaseBeforeFailing")
        elif re.fullmatch(r"UtestShell ?\* ?\w+ = UtestShell::getCurrent\(\)", st):
            fail.append(".other")
        elif re.fullmatch(r"\w+->failWith\(FailFailure\(.*\), ?UtestShell::getCurrentTestTerminatorWithoutExceptions\(\)\)", st):
            fail.append(".failWith")
            if k != len(sts) - 1:
                raise TranslateError("MemoryLeakWarningReporter::fail: statements after failWith: %r" % sts[k + 1:])
        elif re.fullmatch(r"\w+->addFailure\(FailFailure\(.*\)\)", st):
            # records the failure and returns (TestResult::addFailure -> TestOutput::printFailure: a callback that may
            # allocate through operator new); whether it runs before or after the release is decided by the obligations
            fail.append(".addFailure")
        elif re.fullmatch(r"UtestShell::getCurrentTestTerminatorWithoutExceptions\(\)\.exitCurrentTest\(\)", st):
            fail.append(".exitCurrentTest")
            if k != len(sts) - 1:
                raise TranslateError("MemoryLeakWarningReporter::fail: statements after exitCurrentTest: %r" % sts[k + 1:])
        elif FLAG in st or "Mutex" in st or "Lock" in st or "lock" in st:
            raise TranslateError("MemoryLeakWarningReporter::fail: statement on the lock not understood: " + st)
        else:
            raise TranslateError("MemoryLeakWarningReporter::fail: statement not understood: " + st)
    if not fail or fail[-1] not in (".failWith", ".exitCurrentTest") or (fail[-1] == ".exitCurrentTest" and ".addFailure" not in fail):
        raise TranslateError("MemoryLeakWarningReporter::fail does not end in failWith(.., getCurrentTestTerminatorWithoutExceptions()) "
                             "(or addFailure(..) ... getCurrentTestTerminatorWithoutExceptions().exitCurrentTest()): %r" % sts)
    # the flag is written nowhere else in the translation unit
    outside = src.replace(cls, "")
    uses = re.findall(r"\b%s\b" % FLAG, outside)
    if len(uses) != 1:       # the declaration
        raise TranslateError("%s is used outside class MemLeakScopedMutex (%d places)" % (FLAG, len(uses) - 1))
    return {"flagInit": flag_init, "ctor": ctor, "dtor": dtor, "release": release or [], "fail": fail}


DET_CALLS = ["allocMemory", "deallocMemory", "reallocMemory", "invalidateMemory"]


def extract():
    raw = read(SRC)
    src = _active(strip_comments(raw))
    funcs = _functions(src)
    by_name = {}
    for h, b in funcs:
        nm = _fname(h)
        if nm:
            by_name.setdefault(nm, []).append((h, b))

    # --- the pointer table
    fptrs = []
    for m in re.finditer(r"static\s+void\s*\*?\s*\(\s*\*\s*([A-Za-z_0-9]+_fptr)\s*\)\s*\([^;]*?=\s*([A-Za-z_0-9]+)\s*;", src):
        if not m.group(1).startswith("saved_"):
            fptrs.append((m.group(1), m.group(2)))
    names = [p for p, _ in fptrs]
    if len(set(names)) != len(names) or len(names) < 3:
        raise TranslateError("function pointer table not understood: %r" % names)

    # --- entry points: every non-static function that calls through a pointer
    entries = []
    for h, b in funcs:
        nm = _fname(h)
        hs = re.sub(r"\s+", " ", h)
        if nm is None or re.search(r"\bstatic\b", hs) or "::" in nm or nm.startswith("class"):
            continue
        if not (nm.startswith("operator ") or nm.startswith("cpputest_") or nm.startswith("operator_new")):
            continue
        sts = _statements(b)
        if len(sts) != 1:
            raise TranslateError("entry point %s is not a single call through a pointer: %r" % (nm, sts))
        m = re.fullmatch(r"(?:return )?([A-Za-z_0-9]+_fptr)\((.*)\)", sts[0])
        if not m:
            raise TranslateError("entry point %s does not call through a function pointer: %s" % (nm, sts[0]))
        sig = nm + "(" + ",".join(_ptype(p) for p in _params(h)) + ")"
        entries.append((sig, m.group(1)))
    if len(entries) < 10:
        raise TranslateError("too few allocation entry points found: %r" % entries)

    # --- the three switches
    def switch(name):
        if "MemoryLeakWarningPlugin::" + name not in by_name:
            raise TranslateError("function not found: " + name)
        return _assignments(by_name["MemoryLeakWarningPlugin::" + name][0][1], name)
    ts_on = switch("turnOnThreadSafeNewDeleteOverloads")
    def_on = switch("turnOnDefaultNotThreadSafeNewDeleteOverloads")
    off = switch("turnOffNewDeleteOverloads")

    # --- save / restore: extracted as tables (which saved_* variable receives which pointer, and back); that every
    # pointer makes the round trip is a proof obligation over the tables (save_restore_roundtrip), not a shape check,
    # so that a dropped copy is searched for with the harness (ops save / restore / fresh) like any broken obligation.
    saved_init = []
    for m in re.finditer(r"static\s+void\s*\*?\s*\(\s*\*\s*(saved_[A-Za-z_0-9]+_fptr)\s*\)\s*\([^;]*?=\s*([A-Za-z_0-9]+)\s*;", src):
        saved_init.append((m.group(1), m.group(2)))
    if not re.search(r"static\s+int\s+save_counter\s*=\s*0\s*;", src):
        raise TranslateError("`static int save_counter = 0;` not found")

    def copies(fn, guard, last):
        body = by_name.get("MemoryLeakWarningPlugin::" + fn)
        if not body:
            raise TranslateError("function not found: " + fn)
        sts = _statements(body[0][1])
        if not sts or sts[0] != guard:
            raise TranslateError("%s: first statement is not `%s`: %r" % (fn, guard, sts[:1]))
        sts = sts[1:]
        if last is not None:
            if not sts or sts[-1] != last:
                raise TranslateError("%s: last statement is not `%s`" % (fn, last))
            sts = sts[:-1]
        res = []
        for st in sts:
            m = re.fullmatch(r"([A-Za-z_0-9]+_fptr) = ([A-Za-z_0-9]+_fptr)", st)
            if not m:
                raise TranslateError("%s: statement is not `<pointer> = <pointer>`: %s" % (fn, st))
            res.append((m.group(1), m.group(2)))
        return res
    save_copies = copies("saveAndDisableNewDeleteOverloads", "if (++save_counter > 1) return", "turnOffNewDeleteOverloads()")
    restore_copies = copies("restoreNewDeleteOverloads", "if (--save_counter > 0) return", None)
    # getGlobalDetector(): the first call performs one save / restore cycle around the two allocations
    gd = by_name.get("MemoryLeakWarningPlugin::getGlobalDetector")
    if not gd:
        raise TranslateError("function not found: getGlobalDetector")
    norm = re.sub(r"\s+", "", gd[0][1])
    want = ("if(globalDetector==NULLPTR){saveAndDisableNewDeleteOverloads();globalReporter=newMemoryLeakWarningReporter;"
            "globalDetector=newMemoryLeakDetector(globalReporter);restoreNewDeleteOverloads();}returnglobalDetector;")
    if norm != want:
        raise TranslateError("getGlobalDetector changed shape: " + norm)

    # --- the switched functions
    fdefs = []
    seen = set()
    for _, f in ts_on + def_on + off:
        if f in seen:
            continue
        seen.add(f)
        if f not in by_name:
            raise TranslateError("switched function has no definition: " + f)
        h, b = by_name[f][0]
        sts = _statements(b)
        locks_first = bool(sts) and re.fullmatch(r"MemLeakScopedMutex [A-Za-z_0-9]+", sts[0]) is not None
        locks_anywhere = any(re.search(r"\bMemLeakScopedMutex\b", s) for s in sts)
        calls = [c for c in re.findall(r"->\s*([A-Za-z_0-9]+)\s*\(", b) if c in DET_CALLS]
        uses_detector = "getGlobalDetector" in b
        fdefs.append((f, locks_first, locks_anywhere, uses_detector, calls))

    # --- the scoped lock, statement by statement
    code = _scoped_lock_code(src, by_name)
    msrc = strip_comments(read(MUTEX))
    want = {
        r"ScopedMutexLock::ScopedMutexLock\s*\(\s*SimpleMutex\s*\*\s*mtx\s*\)\s*:\s*mutex\s*\(\s*mtx\s*\)\s*\{": "mutex->Lock();",
        r"ScopedMutexLock::~ScopedMutexLock\s*\(\s*\)\s*\{": "mutex->Unlock();",
        r"void\s+SimpleMutex::Lock\s*\(\s*void\s*\)\s*\{": "PlatformSpecificMutexLock(psMtx);",
        r"void\s+SimpleMutex::Unlock\s*\(\s*void\s*\)\s*\{": "PlatformSpecificMutexUnlock(psMtx);",
    }
    for sig, body in want.items():
        got = re.sub(r"\s+", "", function_body(msrc, sig))
        if got != body.replace(" ", ""):
            raise TranslateError("SimpleMutex.cpp: body of /%s/ is `%s`, expected `%s`" % (sig, got, body))

    def lstr(s):
        return '"%s"' % s

    def pairs(ps):
        return "[" + ",\n   ".join("(%s, %s)" % (lstr(a), lstr(b)) for a, b in ps) + "]"

    text = HEADER % ("translate/extract_threadsafe.py", SRC)
    text += "import CppUModel.Model.ThreadSafeSyntax\nnamespace Gen.ThreadSafe\n\n"
    text += ("/-- the scoped lock of the thread-safe wrappers, statement by statement: static initialiser of `memLeakMutexIsHeld`;\n"
             "    `MemLeakScopedMutex()` (member initialiser = ScopedMutexLock constructor = `mutex->Lock()`, then the body);\n"
             "    `~MemLeakScopedMutex()` (body, then the member's destructor = `mutex->Unlock()`);\n"
             "    `MemLeakScopedMutex::releaseBeforeFailing()`; `MemoryLeakWarningReporter::fail` -/\n")
    text += "def code : _root_.ThreadSafe.Code :=\n"
    text += "  { flagInit := %s,\n    ctor := [%s],\n    dtor := [%s],\n    release := [%s],\n    fail := [%s] }\n\n" % (
        code["flagInit"], ", ".join(code["ctor"]), ", ".join(code["dtor"]), ", ".join(code["release"]), ", ".join(code["fail"]))
    text += "/-- allocation function pointers of the translation unit, with their static initialiser -/\n"
    text += "def fptrs : List (String × String) :=\n  %s\n\n" % pairs(fptrs)
    text += "/-- externally visible allocation entry points and the pointer each one calls through -/\n"
    text += "def entries : List (String × String) :=\n  %s\n\n" % pairs(entries)
    text += "/-- turnOnThreadSafeNewDeleteOverloads: pointer ← function -/\n"
    text += "def threadSafeOn : List (String × String) :=\n  %s\n\n" % pairs(ts_on)
    text += "/-- turnOnDefaultNotThreadSafeNewDeleteOverloads: pointer ← function -/\n"
    text += "def defaultOn : List (String × String) :=\n  %s\n\n" % pairs(def_on)
    text += "/-- turnOffNewDeleteOverloads: pointer ← function -/\n"
    text += "def turnOff : List (String × String) :=\n  %s\n\n" % pairs(off)
    text += "/-- static initialisers of the saved_* copies -/\n"
    text += "def savedInit : List (String × String) :=\n  %s\n\n" % pairs(saved_init)
    text += "/-- saveAndDisableNewDeleteOverloads (after `if (++save_counter > 1) return;`, before turnOffNewDeleteOverloads()): destination ← source -/\n"
    text += "def saveCopies : List (String × String) :=\n  %s\n\n" % pairs(save_copies)
    text += "/-- restoreNewDeleteOverloads (after `if (--save_counter > 0) return;`): destination ← source -/\n"
    text += "def restoreCopies : List (String × String) :=\n  %s\n\n" % pairs(restore_copies)
    text += "structure Func where\n  name : String\n  locksFirst : Bool      -- first statement constructs the MemLeakScopedMutex\n"
    text += "  locksAnywhere : Bool\n  usesDetector : Bool    -- touches the global detector\n  calls : List String    -- detector operations called, in order\n\n"
    text += "def funcs : List Func :=\n  [" + ",\n   ".join(
        "{ name := %s, locksFirst := %s, locksAnywhere := %s, usesDetector := %s, calls := [%s] }" % (
            lstr(f), str(a).lower(), str(b).lower(), str(c).lower(), ", ".join(lstr(x) for x in calls))
        for f, a, b, c, calls in fdefs) + "]\n\n"
    text += "end Gen.ThreadSafe\n"
    return text


def run():
    text = extract()
    core.write_if_changed(os.path.join(core.LEAN, GEN), text)
    return []


if __name__ == "__main__":
    print(extract())
