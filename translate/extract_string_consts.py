"""Regenerates lean/CppUModel/Gen/StringConstants.lean from src/CppUTest/SimpleString.cpp:
character-class bounds, ToLower offset, the escape table and copy lengths of printable(), the size
pre-computation increments, the 100-byte format buffer, the 128-byte display limit, the ordinal
suffix rule, literals.  Every item is found through a shape check of the statement it comes from;
a statement that no longer has the expected shape raises TranslateError (handled like a broken
obligation)."""
import os, re
from .common import *

SRC = "src/CppUTest/SimpleString.cpp"

ESC = {"a": 7, "b": 8, "t": 9, "n": 10, "v": 11, "f": 12, "r": 13, "0": 0, "\\": 92, "'": 39, '"': 34}


def char_value(tok):
    """value of a C character / integer token: 'x', '\\a', 0x7F, char(0x7F), 65"""
    t = tok.strip()
    m = re.fullmatch(r"char\s*\((.*)\)", t)
    if m:
        t = m.group(1).strip()
    m = re.fullmatch(r"'(\\?.)'", t)
    if m:
        c = m.group(1)
        if c.startswith("\\"):
            if c[1] not in ESC:
                raise TranslateError("unknown escape " + tok)
            return ESC[c[1]]
        return ord(c)
    try:
        return int(t, 0)
    except ValueError:
        raise TranslateError("cannot evaluate character constant: " + tok)


def c_string_bytes(lit):
    """bytes of a C string literal body (between the quotes)"""
    out, i = [], 0
    while i < len(lit):
        c = lit[i]
        if c == "\\":
            i += 1
            e = lit[i]
            if e == "x":
                j = i + 1
                while j < len(lit) and lit[j] in "0123456789abcdefABCDEF":
                    j += 1
                out.append(int(lit[i + 1:j], 16)); i = j; continue
            if e not in ESC:
                raise TranslateError("unknown escape in literal: " + lit)
            out.append(ESC[e])
        else:
            out.append(ord(c))
        i += 1
    return out


LIT = re.compile(r'"(?:\\.|[^"\\])*"|\'(?:\\.|[^\'\\])*\'')


def norm(s):
    """remove whitespace outside string / character literals"""
    out, i = [], 0
    for m in LIT.finditer(s):
        out.append(re.sub(r"\s+", "", s[i:m.start()]))
        out.append(m.group(0))
        i = m.end()
    out.append(re.sub(r"\s+", "", s[i:]))
    return "".join(out)


def need(pattern, text, what):
    m = re.fullmatch(pattern, text)
    if not m:
        raise TranslateError("%s changed shape: %s" % (what, text))
    return m


def lst(bs):
    return "[" + ", ".join(str(b) for b in bs) + "]"


def extract():
    src = strip_comments(read(SRC))
    d = {}

    b = norm(function_body(src, r"bool\s+SimpleString::isDigit\s*\(\s*char\s+ch\s*\)\s*\{"))
    m = need(r"return(.+?)<=ch&&(.+?)>=ch;", b, "isDigit")
    d["digitLo"], d["digitHi"] = char_value(m.group(1)), char_value(m.group(2))

    b = norm(function_body(src, r"bool\s+SimpleString::isSpace\s*\(\s*char\s+ch\s*\)\s*\{"))
    m = need(r"return\(ch==(.+?)\)\|\|\((.+?)<ch&&(.+?)>ch\);", b, "isSpace")
    d["spaceChar"], d["spaceAbove"], d["spaceBelow"] = char_value(m.group(1)), char_value(m.group(2)), char_value(m.group(3))

    b = norm(function_body(src, r"bool\s+SimpleString::isUpper\s*\(\s*char\s+ch\s*\)\s*\{"))
    m = need(r"return(.+?)<=ch&&(.+?)>=ch;", b, "isUpper")
    d["upperLo"], d["upperHi"] = char_value(m.group(1)), char_value(m.group(2))

    b = norm(function_body(src, r"bool\s+SimpleString::isControl\s*\(\s*char\s+ch\s*\)\s*\{"))
    m = need(r"returnch<(.+?)\|\|ch==(.+?);", b, "isControl")
    d["controlBelow"], d["controlDel"] = char_value(m.group(1)), char_value(m.group(2))

    b = norm(function_body(src, r"bool\s+SimpleString::isControlWithShortEscapeSequence\s*\(\s*char\s+ch\s*\)\s*\{"))
    m = need(r"return(.+?)<=ch&&(.+?)>=ch;", b, "isControlWithShortEscapeSequence")
    d["shortEscLo"], d["shortEscHi"] = char_value(m.group(1)), char_value(m.group(2))

    b = norm(function_body(src, r"char\s+SimpleString::ToLower\s*\(\s*char\s+ch\s*\)\s*\{"))
    m = need(r"returnisUpper\(ch\)\?\(char\)\(\(int\)ch\+\((.+?)-(.+?)\)\):ch;", b, "ToLower")
    d["lowerOffset"] = char_value(m.group(1)) - char_value(m.group(2))

    # printable(): escape table, copy lengths and advances
    body = function_body(src, r"SimpleString\s+SimpleString::printable\s*\(\s*\)\s*const\s*\{")
    m = re.search(r"shortEscapeCodes\s*\[\s*\]\s*=\s*\{(.*?)\}\s*;", body, re.S)
    if not m:
        raise TranslateError("shortEscapeCodes table not found")
    codes = [c_string_bytes(x) for x in re.findall(r'"((?:\\.|[^"\\])*)"', m.group(1))]
    nb = norm(body)
    m = re.search(r"if\(isControlWithShortEscapeSequence\(c\)\)\{StrNCpy\(&result\.buffer_\[j\],shortEscapeCodes\[\(unsignedchar\)\(c-(.+?)\)\],(\d+)\);j\+=(\d+);\}", nb)
    if not m:
        raise TranslateError("printable(): short escape branch changed shape")
    d["shortEscBase"] = char_value(m.group(1))
    d["shortEscapeCopy"], d["shortEscapeAdvance"] = int(m.group(2)), int(m.group(3))
    m = re.search(r'elseif\(isControl\(c\)\)\{SimpleStringhexEscapeCode=StringFromFormat\("((?:\\.|[^"\\])*)",\(unsignedchar\)c\);'
                  r"StrNCpy\(&result\.buffer_\[j\],hexEscapeCode\.asCharString\(\),(\d+)\);j\+=(\d+);\}", nb)
    if not m:
        raise TranslateError("printable(): hex escape branch changed shape")
    hexfmt = c_string_bytes(m.group(1))
    d["hexEscapeCopy"], d["hexEscapeAdvance"] = int(m.group(2)), int(m.group(3))
    if not re.search(r"else\{result\.buffer_\[j\]=c;j\+\+;\}", nb):
        raise TranslateError("printable(): plain branch changed shape")
    if not re.search(r"result\.setInternalBufferToNewBuffer\(getPrintableSize\(\)\+1\);", nb):
        raise TranslateError("printable(): result buffer is no longer getPrintableSize() + 1")

    nb = norm(function_body(src, r"size_t\s+SimpleString::getPrintableSize\s*\(\s*\)\s*const\s*\{"))
    m = re.search(r"if\(isControlWithShortEscapeSequence\(c\)\)\{printable_str_size\+=(\d+);\}elseif\(isControl\(c\)\)\{printable_str_size\+=(\d+);\}", nb)
    if not m:
        raise TranslateError("getPrintableSize changed shape")
    d["printableSizeShort"], d["printableSizeHex"] = int(m.group(1)), int(m.group(2))

    # formatted construction
    nb = norm(function_body(src, r"SimpleString\s+VStringFromFormat\s*\(\s*const\s+char\s*\*\s*format\s*,\s*va_list\s+args\s*\)\s*\{"))
    m = re.search(r"enum\{sizeOfdefaultBuffer=(\d+)\};", nb)
    if not m:
        raise TranslateError("sizeOfdefaultBuffer not found")
    d["sizeOfdefaultBuffer"] = int(m.group(1))
    if "if(size<sizeOfdefaultBuffer){resultString=SimpleString(defaultBuffer);}" not in nb:
        raise TranslateError("VStringFromFormat: fast path condition changed shape")
    if "size_tnewBufferSize=size+1;" not in nb:
        raise TranslateError("VStringFromFormat: slow path buffer size changed shape")

    nb = norm(function_body(src, r"SimpleString\s+StringFromBinaryWithSize\s*\(\s*const\s+unsigned\s+char\s*\*\s*value\s*,\s*size_t\s+size\s*\)\s*\{"))
    m = re.search(r"size_tdisplayedSize=\(\(size>(\d+)\)\?(\d+):size\);", nb)
    if not m or m.group(1) != m.group(2):
        raise TranslateError("StringFromBinaryWithSize: display limit changed shape")
    d["binaryDisplayLimit"] = int(m.group(1))
    m = re.search(r'StringFromFormat\("((?:\\.|[^"\\])*)",\(unsigned\)size\)', nb)
    if not m:
        raise TranslateError("StringFromBinaryWithSize: header format changed shape")
    size_hdr = c_string_bytes(m.group(1))
    m = re.search(r'result\+="((?:\\.|[^"\\])*)";', nb)
    if not m:
        raise TranslateError("StringFromBinaryWithSize: ellipsis changed shape")
    ellipsis = c_string_bytes(m.group(1))

    nb = norm(function_body(src, r"SimpleString\s+StringFromBinary\s*\(\s*const\s+unsigned\s+char\s*\*\s*value\s*,\s*size_t\s+size\s*\)\s*\{"))
    m = re.search(r'result\+=StringFromFormat\("((?:\\.|[^"\\])*)",value\[i\]\);', nb)
    if not m:
        raise TranslateError("StringFromBinary: loop body changed shape")
    binfmt = c_string_bytes(m.group(1))
    if "result=result.subString(0,result.size()-1);" not in nb:
        raise TranslateError("StringFromBinary: trailing blank removal changed shape")

    # ordinal rule
    nb = norm(function_body(src, r"SimpleString\s+StringFromOrdinalNumber\s*\(\s*unsigned\s+int\s+number\s*\)\s*\{"))
    m = need(r'constchar\*suffix="(\w+)";if\(\(number%(\d+)<(\d+)\)\|\|\(number%(\d+)>(\d+)\)\)\{unsignedintconstonesDigit=number%(\d+);'
             r'if\((\d+)==onesDigit\)\{suffix="(\w+)";\}elseif\((\d+)==onesDigit\)\{suffix="(\w+)";\}elseif\((\d+)==onesDigit\)\{suffix="(\w+)";\}\}'
             r'returnStringFromFormat\("%u%s",number,suffix\);', nb, "StringFromOrdinalNumber")
    if m.group(2) != m.group(4):
        raise TranslateError("StringFromOrdinalNumber: two different moduli")
    d["ordinalMod"], d["ordinalLo"], d["ordinalHi"], d["ordinalDigitMod"] = int(m.group(2)), int(m.group(3)), int(m.group(5)), int(m.group(6))
    ord_default = [ord(c) for c in m.group(1)]
    ord_table = [(int(m.group(7)), m.group(8)), (int(m.group(9)), m.group(10)), (int(m.group(11)), m.group(12))]

    # masked bits
    nb = norm(function_body(src, r"SimpleString\s+StringFromMaskedBits\s*\(\s*unsigned\s+long\s+value\s*,\s*unsigned\s+long\s+mask\s*,\s*size_t\s+byteCount\s*\)\s*\{"))
    if 'if(((i%8)==7)&&(i!=(bitCount-1))){result+=" ";}' not in nb:
        raise TranslateError("StringFromMaskedBits: group separator changed shape")

    # (null)
    m = re.search(r'SimpleString\s+StringFromOrNull\s*\(\s*const\s+char\s*\*\s*expected\s*\)\s*\{\s*return\s*\(expected\)\s*\?\s*StringFrom\(expected\)\s*:\s*StringFrom\("((?:\\.|[^"\\])*)"\)\s*;', src)
    if not m:
        raise TranslateError("StringFromOrNull changed shape")
    null_text = c_string_bytes(m.group(1))

    m = re.search(r"static\s+const\s+size_t\s+npos\s*=\s*\(size_t\)\s*-1\s*;", strip_comments(read("include/CppUTest/SimpleString.h")))
    if not m:
        raise TranslateError("npos is no longer (size_t) -1")

    text = HEADER % ("translate/extract_string_consts.py", SRC)
    text += "namespace Gen.Str\n"
    for k in ["digitLo", "digitHi", "spaceChar", "spaceAbove", "spaceBelow", "upperLo", "upperHi", "lowerOffset",
              "controlBelow", "controlDel", "shortEscLo", "shortEscHi", "shortEscBase"]:
        text += "abbrev %s : UInt8 := %d\n" % (k, d[k] % 256)
    for k in ["shortEscapeCopy", "shortEscapeAdvance", "hexEscapeCopy", "hexEscapeAdvance", "printableSizeShort",
              "printableSizeHex", "sizeOfdefaultBuffer", "binaryDisplayLimit", "ordinalMod", "ordinalLo", "ordinalHi", "ordinalDigitMod"]:
        text += "abbrev %s : Nat := %d\n" % (k, d[k])
    text += "/-- `shortEscapeCodes[]` (without terminators) -/\n"
    text += "abbrev shortEscapeCodes : List (List UInt8) := [%s]\n" % ", ".join(lst(c) for c in codes)
    text += "abbrev hexEscapeFormat : List UInt8 := %s\n" % lst(hexfmt)
    text += "abbrev binaryByteFormat : List UInt8 := %s\n" % lst(binfmt)
    text += "abbrev binarySizeHeaderFormat : List UInt8 := %s\n" % lst(size_hdr)
    text += "abbrev binaryEllipsis : List UInt8 := %s\n" % lst(ellipsis)
    text += "abbrev nullText : List UInt8 := %s\n" % lst(null_text)
    text += "abbrev ordinalDefault : List UInt8 := %s\n" % lst(ord_default)
    text += "abbrev ordinalTable : List (Nat × List UInt8) := [%s]\n" % ", ".join("(%d, %s)" % (k, lst([ord(c) for c in s])) for k, s in ord_table)
    text += "end Gen.Str\n"
    return text


def run():
    text = extract()
    core.write_if_changed(os.path.join(core.LEAN, "CppUModel", "Gen", "StringConstants.lean"), text)
    return []
