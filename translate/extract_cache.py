"""Regenerates lean/CppUModel/Gen/CacheConstants.lean from SimpleStringInternalCache.{cpp,h}."""
import os, re
from .common import *

SRC = "src/CppUTest/SimpleStringInternalCache.cpp"
HDR = "include/CppUTest/SimpleStringInternalCache.h"


def word_size(field):
    # every field of the two structs is a pointer or a size_t on LP64
    if "*" in field or re.match(r"size_t\b", field):
        return 8
    raise TranslateError("field of unknown size: " + field)


def src_with_strings():
    return strip_comments(read(SRC))


def extract():
    src = strip_comments(read(SRC))
    hdr = strip_comments(read(HDR))
    m = re.search(r"amountOfInternalCacheNodes\s*=\s*(\d+)", hdr)
    if not m:
        raise TranslateError("amountOfInternalCacheNodes not found")
    amount = int(m.group(1))
    body = function_body(src, r"SimpleStringInternalCache::createInternalCacheNodes\s*\(\s*\)\s*\{")
    sizes = {}
    for mm in re.finditer(r"node\[(\d+)\]\.size_\s*=\s*(\d+)\s*;", body):
        sizes[int(mm.group(1))] = int(mm.group(2))
    if sorted(sizes) != list(range(amount)):
        raise TranslateError("class size assignments do not cover 0..%d: %r" % (amount - 1, sizes))
    body = function_body(src, r"SimpleStringInternalCache::isCached\s*\(\s*size_t\s+size\s*\)\s*\{")
    m = re.search(r"return\s+size\s*<=\s*(\d+)\s*;", body)
    if not m:
        raise TranslateError("isCached is not `return size <= N;`: " + body.strip())
    limit = int(m.group(1))
    body = function_body(src, r"SimpleStringInternalCache::getIndexForCache\s*\(\s*size_t\s+size\s*\)\s*\{")
    norm = re.sub(r"\s+", "", body)
    want = "for(size_ti=0;i<amountOfInternalCacheNodes;i++)if(size<=cache_[i].size_)returni;return0;"
    if norm != want:
        raise TranslateError("getIndexForCache changed shape: " + norm)
    # ~GlobalSimpleStringCache: which clear function gives the memory back, and in which order
    body = function_body(src, r"GlobalSimpleStringCache::~GlobalSimpleStringCache\s*\(\s*\)\s*\{")
    norm = re.sub(r"\s+", "", body)
    m = re.fullmatch(r"SimpleString::setStringAllocator\(allocator_->originalAllocator\(\)\);cache_\.(\w+)\(\);deleteallocator_;", norm)
    if not m:
        raise TranslateError("~GlobalSimpleStringCache changed shape: " + norm)
    if m.group(1) == "clearAllIncludingCurrentlyUsedMemory":
        dtor_all = "true"
    elif m.group(1) == "clearCache":
        dtor_all = "false"
    else:
        raise TranslateError("~GlobalSimpleStringCache calls unknown clear function " + m.group(1))
    body = function_body(src, r"SimpleStringCacheAllocator::alloc_memory\s*\([^)]*\)\s*\{")
    if re.sub(r"\s+", "", body) != "returncache_.alloc(size);":
        raise TranslateError("SimpleStringCacheAllocator::alloc_memory changed shape")
    body = function_body(src, r"SimpleStringCacheAllocator::free_memory\s*\([^)]*\)\s*\{")
    if re.sub(r"\s+", "", body) != "cache_.dealloc(memory,size);":
        raise TranslateError("SimpleStringCacheAllocator::free_memory changed shape")
    body = function_body(src_with_strings(), r"SimpleStringCacheAllocator::name\s*\(\s*\)\s*const\s*\{")
    m = re.fullmatch(r'\s*return\s*"([A-Za-z_0-9]+)"\s*;\s*', body)
    if not m:
        raise TranslateError("SimpleStringCacheAllocator::name is not `return \"...\";`")
    adaptor_name = m.group(1)
    block = sum(word_size(f) for f in struct_fields(src, "SimpleStringMemoryBlock"))
    node = sum(word_size(f) for f in struct_fields(src, "SimpleStringInternalCacheNode"))
    text = HEADER % ("translate/extract_cache.py", SRC)
    text += "namespace Gen.Cache\n"
    text += "def classSizes : List Nat := [%s]\n" % ", ".join(str(sizes[i]) for i in range(amount))
    text += "def cachedLimit : Nat := %d\n" % limit
    text += "def amountOfNodes : Nat := %d\n" % amount
    text += "def blockStructBytes : Nat := %d\n" % block
    text += "def nodeStructBytes : Nat := %d\n" % node
    text += "/-- does ~GlobalSimpleStringCache call clearAllIncludingCurrentlyUsedMemory (true) or only clearCache (false) -/\n"
    text += "def globalDtorClearsAll : Bool := %s\n" % dtor_all
    text += "def adaptorName : String := \"%s\"\n" % adaptor_name
    text += "end Gen.Cache\n"
    return text


def run():
    text = extract()
    core.write_if_changed(os.path.join(core.LEAN, "CppUModel", "Gen", "CacheConstants.lean"), text)
    return []
