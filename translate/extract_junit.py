"""Regenerates lean/CppUModel/Gen/JUnitTemplates.lean (C16) from src/CppUTest/JUnitTestOutput.cpp:

  writeXmlHeader, writeTestSuiteSummary, writeProperties, writeFailure, writeFileEnding
        statement lists of writeToFile(..) / StringFromFormat(..) calls -> lists of template items
        (literal text / text field written through encodeXmlText or raw / %d, %0Nd of an (int) cast /
        the package_.isEmpty() ? a : b choice); the format string is split at its conversions and every
        conversion is paired with its argument
  writeTestCases            the loop skeleton is shape-checked, the three writer statement lists inside it
                            (open tag, skipped marker, close tag) are translated like the functions above
  writeTestGroupToFile      the order of the five writer calls between openFileForWrite and closeFile
  resetTestGroupResult      which fields are cleared
  printCurrentGroupEnded    order of (take group time, write file, reset)
  printFailure, printCurrentTestEnded, printCurrentTestStarted, print(const char*), the do-nothing callbacks,
  openFileForWrite / writeToFile / closeFile, setPackageName, the destructor: exact shape checks

The model (Model/JUnit.lean) interprets the regenerated lists; Props/C16.lean proves that the interpreted
templates render the structured report with every text field reference-encoded.  Anything outside the
understood shapes raises TranslateError (handled by the check like a broken proof obligation)."""
import os, re
from .common import *
from .extract_escapes import c_unescape, squeeze, STR_LIT

SRC = "src/CppUTest/JUnitTestOutput.cpp"

FIELDS = {
    "impl_->results_.group_": "group",
    "impl_->package_": "package",
    "cur->name_": "nodeName",
    "cur->file_": "nodeFile",
    "node->failure_->getFileName()": "failFile",
    "node->failure_->getMessage()": "failMessage",
    "impl_->stdOutput_": "stdOutput",
}
ATOMS = {
    "impl_->results_.failureCount_": "failureCount",
    "impl_->results_.testCount_": "testCount",
    "impl_->results_.groupExecTime_": "groupExecTime",
    "impl_->results_.totalCheckCount_": "totalCheckCount",
    "cur->checkCount_": "nodeCheckCount",
    "cur->execTime_": "nodeExecTime",
    "cur->lineNumber_": "nodeLine",
    "node->failure_->getFailureLineNumber()": "failLine",
}
# which variables a function may mention (a field of `cur` outside the loop would not be a template of that function)
SCOPE = {
    "suite": {"group", "package", "stdOutput", "timeString", "failureCount", "testCount", "groupExecTime", "totalCheckCount"},
    "case": {"group", "package", "stdOutput", "timeString", "failureCount", "testCount", "groupExecTime", "totalCheckCount",
             "nodeName", "nodeFile", "nodeCheckCount", "nodeExecTime", "nodeLine"},
    "failure": {"group", "package", "failFile", "failMessage", "failLine"},
}


def lean_str(bs):
    out = []
    for b in bs:
        if b == 34:
            out.append('\\"')
        elif b == 92:
            out.append("\\\\")
        elif b == 10:
            out.append("\\n")
        elif b == 13:
            out.append("\\r")
        elif b == 9:
            out.append("\\t")
        elif 32 <= b < 127:
            out.append(chr(b))
        else:
            out.append("\\x%02x" % b)
    return 'lit "' + "".join(out) + '"'


def strip_parens(e):
    while e.startswith("(") and match_close(e, 0) == len(e) - 1:
        e = e[1:-1]
    return e


def match_close(s, i):
    """index of the parenthesis closing the one at s[i] (string literals skipped)"""
    depth, j = 0, i
    lit = re.compile(STR_LIT)
    while j < len(s):
        if s[j] == '"':
            m = lit.match(s, j)
            if not m:
                raise TranslateError("unterminated string literal in: " + s[:80])
            j = m.end()
            continue
        if s[j] == "(":
            depth += 1
        elif s[j] == ")":
            depth -= 1
            if depth == 0:
                return j
        j += 1
    raise TranslateError("unbalanced parentheses in: " + s[:80])


def split_args(s):
    args, depth, start, j = [], 0, 0, 0
    lit = re.compile(STR_LIT)
    while j < len(s):
        if s[j] == '"':
            j = lit.match(s, j).end()
            continue
        if s[j] == "(":
            depth += 1
        elif s[j] == ")":
            depth -= 1
        elif s[j] == "," and depth == 0:
            args.append(s[start:j]); start = j + 1
        j += 1
    args.append(s[start:])
    return args


def field(e, scope, what):
    e = strip_parens(e)
    if e not in FIELDS:
        raise TranslateError("%s: not a text field the model knows: %s" % (what, e))
    if FIELDS[e] not in SCOPE[scope]:
        raise TranslateError("%s: field %s is not available in this function" % (what, e))
    return FIELDS[e]


def nexpr(e, scope, what):
    e = strip_parens(e)
    m = re.fullmatch(r"(.+?)([/%])(\d+)", e)
    if m and strip_parens(m.group(1)) in ATOMS:
        inner = nexpr(m.group(1), scope, what)
        return "(.%s %s %s)" % ("div" if m.group(2) == "/" else "mod", inner, int(m.group(3)))
    if e in ATOMS:
        if ATOMS[e] not in SCOPE[scope]:
            raise TranslateError("%s: %s is not available in this function" % (what, e))
        return "." + ATOMS[e]
    raise TranslateError("%s: not a size_t expression the model knows: %s" % (what, e))


def num_arg(e, scope, what):
    m = re.fullmatch(r"\(int\)(.+)", e)
    if not m:
        raise TranslateError("%s: a %%d argument that is not an (int) cast: %s" % (what, e))
    inner = strip_parens(m.group(1))
    # split at a '-' that is not part of '->'
    idx = [i for i in range(len(inner)) if inner[i] == "-" and inner[i + 1:i + 2] != ">"]
    if len(idx) == 1:
        a, b = inner[:idx[0]], inner[idx[0] + 1:]
        return "(.castDiff %s %s)" % (nexpr(a, scope, what), nexpr(b, scope, what))
    if len(idx) > 1:
        raise TranslateError("%s: more than one subtraction in: %s" % (what, e))
    return "(.cast %s)" % nexpr(inner, scope, what)


def text_arg(e, scope, what):
    """item for a %s argument"""
    m = re.fullmatch(r"encodeXmlText\((.+)\)\.asCharString\(\)", e)
    if m and match_close(e, len("encodeXmlText")) == len(e) - len(".asCharString()") - 1:
        return ".enc .%s" % field(m.group(1), scope, what)
    if e == "GetPlatformSpecificTimeString()":
        return ".raw .timeString"
    m = re.fullmatch(r"impl_->package_\.isEmpty\(\)\?" + STR_LIT + ":" + STR_LIT, e)
    if m:
        return ".ifPackageEmpty (%s) (%s)" % (lean_str(c_unescape(m.group(1))), lean_str(c_unescape(m.group(2))))
    m = re.fullmatch(r"(.+)\.asCharString\(\)", e)
    if m:
        return ".raw .%s" % field(m.group(1), scope, what)
    raise TranslateError("%s: not a %%s argument the model knows: %s" % (what, e))


def format_items(fmt_body, args, scope, what):
    fmt = c_unescape(fmt_body)
    items, cur, i, k = [], [], 0, 0

    def flush():
        if cur:
            items.append(".text (%s)" % lean_str(cur))
            del cur[:]

    while i < len(fmt):
        b = fmt[i]
        if b != 37:
            cur.append(b); i += 1
            continue
        rest = bytes(fmt[i + 1:i + 8]).decode("latin-1")
        if rest.startswith("%"):
            cur.append(37); i += 2
            continue
        m = re.match(r"(s|d|0([1-9])d)", rest)
        if not m:
            raise TranslateError("%s: conversion not understood: %%%s" % (what, rest[:4]))
        if k >= len(args):
            raise TranslateError("%s: more conversions than arguments" % what)
        flush()
        if m.group(1) == "s":
            items.append(text_arg(args[k], scope, what))
        elif m.group(1) == "d":
            items.append(".int %s" % num_arg(args[k], scope, what))
        else:
            items.append(".intPad %s %s" % (m.group(2), num_arg(args[k], scope, what)))
        k += 1
        i += 1 + len(m.group(1))
    flush()
    if k != len(args):
        raise TranslateError("%s: %d conversions for %d arguments" % (what, k, len(args)))
    return items


def writer_items(body, scope, what):
    """a statement list of writeToFile("..") / writeToFile(encodeXmlText(F)) / buf = StringFromFormat(..); writeToFile(buf..)"""
    items, pos = [], 0
    lit_call = re.compile(r"writeToFile\(" + STR_LIT + r"\);")
    while pos < len(body):
        m = lit_call.match(body, pos)
        if m:
            items.append(".text (%s)" % lean_str(c_unescape(m.group(1))))
            pos = m.end()
            continue
        if body.startswith("writeToFile(", pos):
            close = match_close(body, pos + len("writeToFile"))
            inner = body[pos + len("writeToFile("):close]
            if not body.startswith(";", close + 1):
                raise TranslateError("%s: statement not understood: %s" % (what, body[pos:pos + 80]))
            m2 = re.fullmatch(r"encodeXmlText\((.+)\)", inner)
            if m2:
                items.append(".enc .%s" % field(m2.group(1), scope, what))
            else:
                items.append(".raw .%s" % field(inner, scope, what))
            pos = close + 2
            continue
        mh = re.compile(r"SimpleString(\w+)=StringFromFormat\(").match(body, pos)      # the local may have any name
        if mh:
            head = mh.group(0)
            close = match_close(body, pos + len(head) - 1)
            args = split_args(body[pos + len(head):close])
            tail = ";writeToFile(%s.asCharString());" % mh.group(1)
            if not body.startswith(tail, close + 1):
                raise TranslateError("%s: the formatted buffer is not written right away: %s" % (what, body[close:close + 60]))
            m3 = re.fullmatch(STR_LIT, args[0])
            if not m3:
                raise TranslateError("%s: format is not a string literal: %s" % (what, args[0][:60]))
            items += format_items(m3.group(1), args[1:], scope, what)
            pos = close + 1 + len(tail)
            continue
        raise TranslateError("%s: statement not understood: %s" % (what, body[pos:pos + 80]))
    return items


def body_of(src, ret, name, params):
    return squeeze(function_body(src, ret + r"\s*JUnitTestOutput::" + name + r"\s*\(" + params + r"\)\s*\{"))


def expect(src, ret, name, params, want, problems_as_error=True):
    got = body_of(src, ret, name, params)
    if got != want:
        raise TranslateError("%s changed shape: %s" % (name.replace("\\", ""), got[:160]))


def extract():
    src = strip_comments(read(SRC))
    T = {}
    T["xmlHeader"] = writer_items(body_of(src, r"void\s+", "writeXmlHeader", r"\s*"), "suite", "writeXmlHeader")
    T["suiteSummary"] = writer_items(body_of(src, r"void\s+", "writeTestSuiteSummary", r"\s*"), "suite", "writeTestSuiteSummary")
    T["properties"] = writer_items(body_of(src, r"void\s+", "writeProperties", r"\s*"), "suite", "writeProperties")
    T["failureElem"] = writer_items(body_of(src, r"void\s+", "writeFailure", r"\s*JUnitTestCaseResultNode\s*\*\s*node\s*"),
                                    "failure", "writeFailure")
    T["fileEnding"] = writer_items(body_of(src, r"void\s+", "writeFileEnding", r"\s*"), "suite", "writeFileEnding")

    # writeTestCases: loop skeleton
    body = body_of(src, r"void\s+", "writeTestCases", r"\s*")
    pre = "JUnitTestCaseResultNode*cur=impl_->results_.head_;while(cur){"
    upd = "impl_->results_.totalCheckCount_=cur->checkCount_;if(cur->failure_){writeFailure(cur);}elseif(cur->ignored_){"
    post = "cur=cur->next_;}"
    if not (body.startswith(pre) and body.endswith(post) and body.count(upd) == 1):
        raise TranslateError("writeTestCases: loop skeleton changed: " + body[:80] + " ... " + body[-120:])
    a, rest = body[len(pre):len(body) - len(post)].split(upd)
    # rest = <skipped statements> } <close statements>
    depth, j = 0, 0
    cut = None
    lit = re.compile(STR_LIT)
    while j < len(rest):
        if rest[j] == '"':
            j = lit.match(rest, j).end(); continue
        if rest[j] == "{":
            depth += 1
        elif rest[j] == "}":
            if depth == 0:
                cut = j; break
            depth -= 1
        j += 1
    if cut is None:
        raise TranslateError("writeTestCases: else-if block not closed: " + rest[:80])
    T["caseOpen"] = writer_items(a, "case", "writeTestCases (open tag)")
    T["caseSkipped"] = writer_items(rest[:cut], "case", "writeTestCases (skipped marker)")
    T["caseClose"] = writer_items(rest[cut + 1:], "case", "writeTestCases (close tag)")

    # writeTestGroupToFile: order of the writer calls
    body = body_of(src, r"void\s+", "writeTestGroupToFile", r"\s*")
    pre, post = "openFileForWrite(createFileName(impl_->results_.group_));", "closeFile();"
    if not (body.startswith(pre) and body.endswith(post)):
        raise TranslateError("writeTestGroupToFile: not open ... close: " + body[:160])
    names = {"writeXmlHeader": "xmlHeader", "writeTestSuiteSummary": "suiteSummary", "writeProperties": "properties",
             "writeTestCases": "testCases", "writeFileEnding": "fileEnding"}
    sections = []
    for st in [s for s in body[len(pre):len(body) - len(post)].split(";") if s]:
        m = re.fullmatch(r"(\w+)\(\)", st)
        if not m or m.group(1) not in names:
            raise TranslateError("writeTestGroupToFile: statement not understood: " + st)
        sections.append(names[m.group(1)])
    if sorted(sections) != sorted(names.values()):
        raise TranslateError("writeTestGroupToFile: every writer must be called exactly once, found: %r" % sections)

    # resetTestGroupResult: which fields are cleared
    body = body_of(src, r"void\s+", "resetTestGroupResult", r"\s*")
    free_nodes = ("JUnitTestCaseResultNode*cur=impl_->results_.head_;while(cur){JUnitTestCaseResultNode*tmp=cur->next_;"
                  "deletecur->failure_;deletecur;cur=tmp;}impl_->results_.head_=NULLPTR;impl_->results_.tail_=NULLPTR;")
    resets, pos = [], 0
    simple = {"impl_->results_.testCount_=0;": "testCount", "impl_->results_.failureCount_=0;": "failureCount",
              'impl_->results_.group_="";': "group", free_nodes: "nodes"}
    while pos < len(body):
        for text, name in simple.items():
            if body.startswith(text, pos):
                resets.append(name); pos += len(text)
                break
        else:
            raise TranslateError("resetTestGroupResult: statement not understood: " + body[pos:pos + 80])
    if len(set(resets)) != len(resets):
        raise TranslateError("resetTestGroupResult: a field is cleared twice: %r" % resets)

    # printCurrentGroupEnded: order of its three statements
    body = body_of(src, r"void\s+", "printCurrentGroupEnded", r"\s*const\s+TestResult\s*&\s*result\s*")
    steps_map = {"impl_->results_.groupExecTime_=result.getCurrentGroupTotalExecutionTime()": "takeGroupTime",
                 "writeTestGroupToFile()": "writeFile", "resetTestGroupResult()": "reset"}
    steps = []
    for st in [s for s in body.split(";") if s]:
        if st not in steps_map:
            raise TranslateError("printCurrentGroupEnded: statement not understood: " + st)
        steps.append(steps_map[st])

    # exact shapes of the rest of the collector and of the seams
    expect(src, r"void\s+", "printFailure", r"\s*const\s+TestFailure\s*&\s*failure\s*",
           "if(impl_->results_.tail_->failure_==NULLPTR){impl_->results_.failureCount_++;impl_->results_.tail_->failure_=newTestFailure(failure);}")
    expect(src, r"void\s+", "printCurrentTestEnded", r"\s*const\s+TestResult\s*&\s*result\s*",
           "impl_->results_.tail_->execTime_=result.getCurrentTestTotalExecutionTime();impl_->results_.tail_->checkCount_=result.getCheckCount();")
    expect(src, r"void\s+", "printCurrentTestStarted", r"\s*const\s+UtestShell\s*&\s*test\s*",
           "impl_->results_.testCount_++;impl_->results_.group_=test.getGroup();impl_->results_.startTime_=(size_t)GetPlatformSpecificTimeInMillis();"
           "if(impl_->results_.tail_==NULLPTR){impl_->results_.head_=impl_->results_.tail_=newJUnitTestCaseResultNode;}"
           "else{impl_->results_.tail_->next_=newJUnitTestCaseResultNode;impl_->results_.tail_=impl_->results_.tail_->next_;}"
           "impl_->results_.tail_->name_=test.getName();impl_->results_.tail_->file_=test.getFile();"
           "impl_->results_.tail_->lineNumber_=test.getLineNumber();if(!test.willRun()){impl_->results_.tail_->ignored_=true;}")
    expect(src, r"void\s+", "print", r"\s*const\s+char\s*\*\s*output\s*", "impl_->stdOutput_+=output;")
    for name, params in (("printBuffer", r"\s*const\s+char\s*\*\s*"), ("print", r"\s*long\s*"), ("print", r"\s*size_t\s*"), ("flush", r"\s*"),
                         ("printTestsStarted", r"\s*"), ("printCurrentGroupStarted", r"\s*const\s+UtestShell\s*&\s*"),
                         ("printTestsEnded", r"\s*const\s+TestResult\s*&\s*")):
        expect(src, r"void\s+", name, params, "")
    expect(src, r"void\s+", "openFileForWrite", r"\s*const\s+SimpleString\s*&\s*fileName\s*",
           'impl_->file_=PlatformSpecificFOpen(fileName.asCharString(),"w");')
    expect(src, r"void\s+", "writeToFile", r"\s*const\s+SimpleString\s*&\s*buffer\s*", "PlatformSpecificFPuts(buffer.asCharString(),impl_->file_);")
    expect(src, r"void\s+", "closeFile", r"\s*", "PlatformSpecificFClose(impl_->file_);")
    expect(src, r"void\s+", "setPackageName", r"\s*const\s+SimpleString\s*&\s*package\s*", "if(impl_!=NULLPTR){impl_->package_=package;}")
    expect(src, r"", "~JUnitTestOutput", r"\s*", "resetTestGroupResult();deleteimpl_;")
    # the node constructor: a fresh node has no failure, is not ignored, zero time and counts
    if not re.search(r"JUnitTestCaseResultNode\s*\(\s*\)\s*:\s*execTime_\s*\(\s*0\s*\)\s*,\s*failure_\s*\(\s*NULLPTR\s*\)\s*,\s*ignored_\s*\(\s*false\s*\)\s*,"
                     r"\s*lineNumber_\s*\(\s*0\s*\)\s*,\s*checkCount_\s*\(\s*0\s*\)\s*,\s*next_\s*\(\s*NULLPTR\s*\)", src):
        raise TranslateError("JUnitTestCaseResultNode constructor changed shape")
    if not re.search(r"JUnitTestGroupResult\s*\(\s*\)\s*:\s*testCount_\s*\(\s*0\s*\)\s*,\s*failureCount_\s*\(\s*0\s*\)\s*,\s*totalCheckCount_\s*\(\s*0\s*\)\s*,"
                     r"\s*startTime_\s*\(\s*0\s*\)\s*,\s*groupExecTime_\s*\(\s*0\s*\)\s*,\s*head_\s*\(\s*NULLPTR\s*\)\s*,\s*tail_\s*\(\s*NULLPTR\s*\)", src):
        raise TranslateError("JUnitTestGroupResult constructor changed shape")

    def L(items):
        return "[" + ",\n   ".join(items) + "]"

    t = HEADER % ("translate/extract_junit.py", SRC)
    t += "import CppUModel.Model.JUnitSyntax\nnamespace Gen.JUnitTemplates\nopen JUnit.Tpl OutEv\n\n"
    docs = [("xmlHeader", "`JUnitTestOutput::writeXmlHeader`"), ("suiteSummary", "`JUnitTestOutput::writeTestSuiteSummary`"),
            ("properties", "`JUnitTestOutput::writeProperties`"),
            ("caseOpen", "`JUnitTestOutput::writeTestCases`: what is written for a node before `totalCheckCount_ = cur->checkCount_`"),
            ("caseSkipped", "… inside `else if (cur->ignored_)` (the `if (cur->failure_)` branch calls `writeFailure`)"),
            ("caseClose", "… after the branches, before `cur = cur->next_`"),
            ("failureElem", "`JUnitTestOutput::writeFailure`"), ("fileEnding", "`JUnitTestOutput::writeFileEnding`")]
    for name, doc in docs:
        t += "/-- %s -/\ndef %s : List Item :=\n  %s\n\n" % (doc, name, L(T[name]))
    t += "/-- `JUnitTestOutput::writeTestGroupToFile`: the writer calls between `openFileForWrite` and `closeFile`, in source order -/\n"
    t += "def groupFile : List Section := [%s]\n\n" % ", ".join("." + s for s in sections)
    t += "/-- `JUnitTestOutput::resetTestGroupResult`: what is cleared, in source order (`totalCheckCount_` and `stdOutput_` are not) -/\n"
    t += "def resetFields : List ResetField := [%s]\n\n" % ", ".join("." + s for s in resets)
    t += "/-- `JUnitTestOutput::printCurrentGroupEnded`: its statements in source order -/\n"
    t += "def groupEndedSteps : List EndStep := [%s]\n\n" % ", ".join("." + s for s in steps)
    t += "end Gen.JUnitTemplates\n"
    return t


def run():
    text = extract()
    core.write_if_changed(os.path.join(core.LEAN, "CppUModel", "Gen", "JUnitTemplates.lean"), text)
    return []
