"""Regenerates lean/CppUModel/Gen/PluginConstants.lean (MAX_SET, the sentinel's name) from
include/CppUTest/TestPlugin.h / src/CppUTest/TestPlugin.cpp and checks that the small functions the C17
model was written from still have the shape that was modelled.  (CppUTestStore, SetPointerPlugin::postTestAction and
constructor, UT_PTR_SET and the two chain walks are no longer shape-checked here: translate/extract_plugincode.py
translates them from the clang AST.)"""
import os, re
from .common import *

HDR = "include/CppUTest/TestPlugin.h"
SRC = "src/CppUTest/TestPlugin.cpp"
REG = "src/CppUTest/TestRegistry.cpp"
CLI = "src/CppUTest/CommandLineTestRunner.cpp"
CLIH = "include/CppUTest/CommandLineTestRunner.h"


def norm(s):
    return re.sub(r"\s+", "", s)


SHAPES = [
    (SRC, r"TestPlugin\s*\*\s*TestPlugin::removePluginByName\s*\([^)]*\)\s*\{",
     "TestPlugin*removed=NULLPTR;if(next_&&next_->getName()==name){removed=next_;next_=next_->next_;}"
     "elseif(next_)removed=next_->removePluginByName(name);returnremoved;",
     "TestPlugin::removePluginByName"),
    (SRC, r"TestPlugin\s*\*\s*TestPlugin::addPlugin\s*\([^)]*\)\s*\{",
     "next_=plugin;returnthis;", "TestPlugin::addPlugin"),
    (SRC, r"TestPlugin\s*\*\s*TestPlugin::getPluginByName\s*\([^)]*\)\s*\{",
     "if(name==name_)returnthis;if(next_)returnnext_->getPluginByName(name);return(next_);",
     "TestPlugin::getPluginByName"),
    (REG, r"void\s+TestRegistry::runAllTests\s*\([^)]*\)\s*\{",
     "boolgroupStart=true;result.testsStarted();for(UtestShell*test=tests_;test!=NULLPTR;test=test->getNext()){"
     "if(runInSeperateProcess_)test->setRunInSeperateProcess();if(runIgnored_)test->setRunIgnored();"
     "if(groupStart){result.currentGroupStarted(test);groupStart=false;}result.countTest();"
     "if(testShouldRun(test,result)){result.currentTestStarted(test);test->runOneTest(firstPlugin_,result);"
     "result.currentTestEnded(test);}if(endOfGroup(test)){groupStart=true;result.currentGroupEnded(test);}}"
     "result.testsEnded();currentRepetition_++;",
     "TestRegistry::runAllTests (the head of the chain must be read from firstPlugin_ for every test)"),
    (REG, r"void\s+TestRegistry::installPlugin\s*\([^)]*\)\s*\{",
     "firstPlugin_=plugin->addPlugin(firstPlugin_);", "TestRegistry::installPlugin"),
    (REG, r"void\s+TestRegistry::resetPlugins\s*\(\s*\)\s*\{",
     "firstPlugin_=NullTestPlugin::instance();", "TestRegistry::resetPlugins"),
    (REG, r"void\s+TestRegistry::removePluginByName\s*\([^)]*\)\s*\{",
     "if(firstPlugin_->removePluginByName(name)==firstPlugin_)firstPlugin_=firstPlugin_->getNext();"
     "if(firstPlugin_->getName()==name)firstPlugin_=firstPlugin_->getNext();firstPlugin_->removePluginByName(name);",
     "TestRegistry::removePluginByName"),
    (CLI, r"int\s+CommandLineTestRunner::runAllTestsMain\s*\(\s*\)\s*\{",
     "inttestResult=1;SetPointerPluginpPlugin(DEF_PLUGIN_SET_POINTER);registry_->installPlugin(&pPlugin);"
     "if(parseArguments(registry_->getFirstPlugin()))testResult=runAllTests();"
     "registry_->removePluginByName(DEF_PLUGIN_SET_POINTER);returntestResult;",
     "CommandLineTestRunner::runAllTestsMain (constructs, installs and removes by name its own SetPointerPlugin)"),
]


def extract():
    hdr = strip_comments(read(HDR))
    cache = {}
    for rel, sig, want, name in SHAPES:
        if rel not in cache:
            cache[rel] = strip_comments(read(rel))
        got = norm(function_body(cache[rel], sig))
        if got != want:
            raise TranslateError("%s changed shape: %s" % (name, got))
    m = re.search(r"class\s+SetPointerPlugin.*?enum\s*\{\s*MAX_SET\s*=\s*(\d+)\s*\}", hdr, re.S)
    if not m:
        raise TranslateError("SetPointerPlugin::MAX_SET not found")
    max_set = int(m.group(1))
    m = re.search(r"TestPlugin::TestPlugin\s*\(\s*TestPlugin\s*\*\s*next\s*\)\s*:\s*next_\(next\)\s*,\s*name_\(\"([^\"]*)\"\)", read(SRC))
    if not m:
        raise TranslateError("name of the sentinel plugin not found")
    null_name = m.group(1)
    m = re.search(r"#define\s+DEF_PLUGIN_SET_POINTER\s+\"([^\"]*)\"", read(CLIH))
    if not m:
        raise TranslateError("DEF_PLUGIN_SET_POINTER not found")
    cli_name = m.group(1)
    text = HEADER % ("translate/extract_plugins.py", HDR)
    text += "namespace Gen.Plugins\n"
    text += "def maxSet : Nat := %d\n" % max_set
    text += "def nullName : String := \"%s\"\n" % null_name
    text += "def cliSetPointerName : String := \"%s\"\n" % cli_name
    text += "end Gen.Plugins\n"
    return text


def run():
    text = extract()
    core.write_if_changed(os.path.join(core.LEAN, "CppUModel", "Gen", "PluginConstants.lean"), text)
    return []
