"""C11: regenerates lean/CppUModel/Gen/SeparateProcessLoop.lean from the clang++-14 typed JSON AST of
`SetTestFailureByStatusCode` and `GccPlatformSpecificRunTestInASeperateProcess`
(src/Platforms/Gcc/UtestPlatform.cpp), with glibc's wait-status macros, `EINTR`, `WUNTRACED` and
`SIGCONT` as the installed headers expand them.

Method: the two function bodies are executed symbolically, statement by statement, in continuation
passing style.  Locals are tracked by their declaration (not by name), so renaming a local or
reordering independent statements regenerates the same text.  What the environment answers is a
case split made here:

* `PlatformSpecificFork()`       -> -1 | 0 (child) | a pid (neither -1 nor 0)
* `PlatformSpecificWaitPid(...)` -> (-1, errno == EINTR) | (-1, other errno) | (the pid, status := s)

so `w == syscallError`, `cpid == 0`, `EINTR == errno` are decided per case at translation time and
what is left is a decision tree over `status : BitVec 32` (C `int`) and `amountOfRetries :
BitVec 64` (`size_t`), whose leaves say which failures were added (message texts, in order), how
many SIGCONTs were sent, and whether the function returned or reached the `while` condition.

Integer typing follows clang's implicit casts: `int` = BitVec 32, `signed char` = BitVec 8,
`unsigned long` = BitVec 64, `>>` on a signed type is `sshiftRight`, `>`/`<` are `slt`/`ult` by type.
Anything outside this subset raises TranslateError (reported like a broken obligation).
"""
import json, os, subprocess
from .common import *

SRC = "src/Platforms/Gcc/UtestPlatform.cpp"
PASS = ("ExprWithCleanups", "ParenExpr", "MaterializeTemporaryExpr", "CXXBindTemporaryExpr", "CXXFunctionalCastExpr",
        "ConstantExpr")
WIDTH = {"i32": 32, "i8": 8, "u64": 64}
CTYPES = {"int": "i32", "pid_t": "i32", "__pid_t": "i32", "signed char": "i8", "unsigned long": "u64", "size_t": "u64",
          "bool": "bool"}


def clang_docs(name):
    src = os.path.join(core.REPO, SRC)
    cmd = ["clang++-14", "-std=gnu++17", "-fsyntax-only", "-w",
           "-I" + os.path.join(core.REPO, "include"), "-I" + os.path.join(core.VERIF, "harness", "config"),
           "-DHAVE_CONFIG_H", "-Xclang", "-ast-dump=json", "-Xclang", "-ast-dump-filter=" + name, src]
    try:
        p = subprocess.run(cmd, stdout=subprocess.PIPE, stderr=subprocess.PIPE, text=True, timeout=300)
    except OSError as e:
        raise TranslateError("clang++-14 cannot be run: %s" % e)
    if p.returncode != 0:
        raise TranslateError("clang cannot parse %s: %s" % (SRC, p.stderr[-1500:]))
    docs, dec, i, s = [], json.JSONDecoder(), 0, p.stdout
    while True:
        while i < len(s) and s[i].isspace():
            i += 1
        if i >= len(s):
            break
        o, i = dec.raw_decode(s, i)
        docs.append(o)
    out = [d for d in docs if d.get("kind") == "FunctionDecl" and d.get("name") == name
           and any(c.get("kind") == "CompoundStmt" for c in d.get("inner", []))]
    if len(out) != 1:
        raise TranslateError("expected exactly one definition of %s in the fork/waitpid/kill build, found %d" % (name, len(out)))
    return out[0]


def lean_str(s):
    out = ['"']
    for ch in s:
        if ch == '"':
            out.append('\\"')
        elif ch == "\\":
            out.append("\\\\")
        elif ch == "\n":
            out.append("\\n")
        elif ch == "\t":
            out.append("\\t")
        elif ord(ch) < 32 or ord(ch) > 126:
            out.append("\\x%02x" % ord(ch)) if ord(ch) < 256 else out.append(ch)
        else:
            out.append(ch)
    out.append('"')
    return "".join(out)


def c_literal(text):
    """value of a clang StringLiteral `"..."`"""
    if not (text.startswith('"') and text.endswith('"')):
        raise TranslateError("string literal with a prefix is not handled: " + text)
    s, out, i = text[1:-1], [], 0
    simple = {"n": "\n", "t": "\t", "\\": "\\", '"': '"', "b": "\b", "r": "\r", "0": "\0", "'": "'"}
    while i < len(s):
        if s[i] == "\\" and i + 1 < len(s):
            if s[i + 1] in simple:
                out.append(simple[s[i + 1]]); i += 2; continue
            raise TranslateError("escape sequence not handled in message literal: " + text)
        out.append(s[i]); i += 1
    return "".join(out)


def where(node):
    r = node.get("range", {}).get("begin", {})
    line = r.get("line") or r.get("expansionLoc", {}).get("line") or r.get("spellingLoc", {}).get("line")
    return " (near line %s)" % line if line else ""


def ctype(node):
    t = node.get("type", {})
    q = t.get("desugaredQualType", t.get("qualType", "")).strip()
    if q.startswith("const "):
        q = q[6:]
    return q


def ity(node):
    q = ctype(node)
    if q not in CTYPES:
        raise TranslateError("type not handled: %s%s" % (q, where(node)))
    return CTYPES[q]


# ---- symbolic values -----------------------------------------------------------------------------

class K:                      # known integer constant of a C type
    def __init__(self, n, ty):
        self.n, self.ty = n, ty


class B:                      # known bool
    def __init__(self, b):
        self.b = b


class L:                      # Lean expression of a type (i32 / i8 / u64 / bool)
    def __init__(self, text, ty):
        self.text, self.ty = text, ty


class Pid:                    # what a successful fork / waitpid returns: an int that is neither -1 nor 0
    ty = "i32"


class NotEintr:               # errno after a failed waitpid that was not interrupted
    ty = "i32"


class Str:                    # a SimpleString local: Lean expression of type String
    def __init__(self, text):
        self.text = text


class Ref:                    # a pointer parameter (shell / plugin / result), by role
    def __init__(self, role):
        self.role = role


def wrap(n, ty):
    w = WIDTH[ty]
    n %= 1 << w
    if ty in ("i32", "i8") and n >= 1 << (w - 1):
        n -= 1 << w
    return n


def lean_of(v):
    if isinstance(v, K):
        return "%d#%d" % (v.n % (1 << WIDTH[v.ty]), WIDTH[v.ty])
    if isinstance(v, B):
        return "true" if v.b else "false"
    if isinstance(v, L):
        return v.text
    raise TranslateError("a process id / errno value is used in arithmetic")


class St:
    """state of the symbolic run"""
    def __init__(self):
        self.vars = {}            # decl id -> value
        self.fails = []           # Lean expressions of type List String, concatenated in order
        self.conts = 0
        self.errno = None         # K(4) | NotEintr | None
        self.log = []             # environment / child calls seen on this path

    def copy(self):
        s = St()
        s.vars, s.fails, s.conts, s.errno, s.log = dict(self.vars), list(self.fails), self.conts, self.errno, list(self.log)
        return s

    def fails_text(self):
        parts = [f for f in self.fails]
        if not parts:
            return "[]"
        return " ++ ".join(parts) if len(parts) > 1 else parts[0]


class Ret(Exception):
    pass


class Exec:
    def __init__(self, consts):
        self.consts = consts       # names the environment hooks need: filled by the caller

    # ---- expressions ----
    def strip(self, n):
        while n.get("kind") in PASS or (n.get("kind") in ("ImplicitCastExpr", "CStyleCastExpr")
                                        and n.get("castKind") in ("LValueToRValue", "NoOp", "FunctionToPointerDecay",
                                                                  "ArrayToPointerDecay")):
            n = n["inner"][0]
        return n

    def callee(self, n):
        c = self.strip(n["inner"][0])
        if c.get("kind") == "DeclRefExpr":
            return c["referencedDecl"].get("name"), c
        if c.get("kind") == "MemberExpr":
            return "." + c.get("name", ""), c
        raise TranslateError("callee not understood" + where(n))

    def ev(self, n, st):
        k = n.get("kind")
        if k in PASS:
            return self.ev(n["inner"][0], st)
        if k == "IntegerLiteral":
            return K(wrap(int(n["value"]), ity(n)), ity(n))
        if k == "CXXBoolLiteralExpr":
            return B(bool(n["value"]))
        if k == "DeclRefExpr":
            i = n["referencedDecl"]["id"]
            if i not in st.vars:
                raise TranslateError("use of %s, which is not a tracked local%s" % (n["referencedDecl"].get("name"), where(n)))
            return st.vars[i]
        if k in ("ImplicitCastExpr", "CStyleCastExpr"):
            ck = n.get("castKind")
            v = self.ev(n["inner"][0], st)
            if ck in ("LValueToRValue", "NoOp"):
                return v
            if ck == "IntegralCast":
                return self.cast(v, ity(n), n)
            if ck == "IntegralToBoolean":
                if isinstance(v, K):
                    return B(v.n != 0)
                return L("(%s != %s)" % (lean_of(v), lean_of(K(0, v.ty))), "bool")
            raise TranslateError("cast kind %s not handled%s" % (ck, where(n)))
        if k == "UnaryOperator":
            op = n["opcode"]
            if op == "*":
                c = self.strip(n["inner"][0])
                if c.get("kind") == "CallExpr" and self.callee(c)[0] == "__errno_location":
                    if st.errno is None:
                        raise TranslateError("errno is read where no failing system call precedes it" + where(n))
                    return st.errno
                raise TranslateError("dereference not handled" + where(n))
            v = self.ev(n["inner"][0], st)
            if op == "!":
                if isinstance(v, B):
                    return B(not v.b)
                return L("(!%s)" % lean_of(v), "bool")
            if op == "-":
                if isinstance(v, K):
                    return K(wrap(-v.n, v.ty), v.ty)
                return L("(-%s)" % lean_of(v), v.ty)
            raise TranslateError("unary operator %s not handled%s" % (op, where(n)))
        if k == "BinaryOperator":
            return self.binop(n, st)
        raise TranslateError("expression kind %s not handled%s" % (k, where(n)))

    def cast(self, v, to, n):
        if isinstance(v, B):
            return K(1 if v.b else 0, to)
        if isinstance(v, (Pid, NotEintr)):
            if to == "i32":
                return v
            raise TranslateError("process id / errno converted to another type" + where(n))
        if v.ty == to:
            return v
        if isinstance(v, K):
            return K(wrap(v.n, to), to)
        if v.ty == "bool":
            return L("(if %s then %s else %s)" % (v.text, lean_of(K(1, to)), lean_of(K(0, to))), to)
        wf, wt = WIDTH[v.ty], WIDTH[to]
        if wt < wf:
            return L("(%s.truncate %d)" % (v.text, wt), to)
        signed_src = v.ty in ("i32", "i8")
        return L("(%s.%s %d)" % (v.text, "signExtend" if signed_src else "zeroExtend", wt), to)

    def binop(self, n, st):
        op = n["opcode"]
        if op in ("&&", "||"):
            a = self.ev(n["inner"][0], st)
            if isinstance(a, B):
                if (op == "&&" and not a.b) or (op == "||" and a.b):
                    return a                                   # short circuit: the right operand is not evaluated
                return self.ev(n["inner"][1], st)
            b = self.ev(n["inner"][1], st)
            if isinstance(b, B):
                if op == "&&":
                    return a if b.b else L("(%s && false)" % a.text, "bool")
                return L("(%s || true)" % a.text, "bool") if b.b else a
            return L("(%s %s %s)" % (lean_of(a), op, lean_of(b)), "bool")
        a, b = self.ev(n["inner"][0], st), self.ev(n["inner"][1], st)
        if op in ("==", "!="):
            eq = None
            special = (Pid, NotEintr)
            if isinstance(a, special) or isinstance(b, special):
                x, y = (a, b) if isinstance(a, special) else (b, a)
                if isinstance(x, Pid) and isinstance(y, K) and y.n in (-1, 0):
                    eq = False
                elif isinstance(x, NotEintr) and isinstance(y, K) and y.n == self.consts["EINTR"]:
                    eq = False
                else:
                    raise TranslateError("comparison of a process id / errno that the environment split does not decide" + where(n))
            elif isinstance(a, K) and isinstance(b, K):
                eq = a.n == b.n
            elif isinstance(a, B) and isinstance(b, B):
                eq = a.b == b.b
            if eq is not None:
                return B(eq if op == "==" else not eq)
            return L("(%s %s %s)" % (lean_of(a), op, lean_of(b)), "bool")
        if isinstance(a, (Pid, NotEintr, B)) or isinstance(b, (Pid, NotEintr, B)):
            raise TranslateError("arithmetic on a process id / errno / bool" + where(n))
        if a.ty != b.ty and op not in (">>", "<<"):
            raise TranslateError("operand types differ (%s, %s)%s" % (a.ty, b.ty, where(n)))
        ty = a.ty
        signed = ty in ("i32", "i8")
        if op in (">", "<", ">=", "<="):
            if isinstance(a, K) and isinstance(b, K):
                ua, ub = (a.n, b.n) if signed else (a.n % (1 << WIDTH[ty]), b.n % (1 << WIDTH[ty]))
                return B({">": ua > ub, "<": ua < ub, ">=": ua >= ub, "<=": ua <= ub}[op])
            lt, le = ("slt", "sle") if signed else ("ult", "ule")
            x, y = lean_of(a), lean_of(b)
            return L({">": "(BitVec.%s %s %s)" % (lt, y, x), "<": "(BitVec.%s %s %s)" % (lt, x, y),
                      ">=": "(BitVec.%s %s %s)" % (le, y, x), "<=": "(BitVec.%s %s %s)" % (le, x, y)}[op], "bool")
        if op in ("&", "|", "^", "+", "-"):
            if isinstance(a, K) and isinstance(b, K):
                f = {"&": lambda p, q: p & q, "|": lambda p, q: p | q, "^": lambda p, q: p ^ q,
                     "+": lambda p, q: p + q, "-": lambda p, q: p - q}[op]
                m = 1 << WIDTH[ty]
                return K(wrap(f(a.n % m, b.n % m), ty), ty)
            lop = {"&": "&&&", "|": "|||", "^": "^^^", "+": "+", "-": "-"}[op]
            return L("(%s %s %s)" % (lean_of(a), lop, lean_of(b)), ty)
        if op == ">>":
            if not isinstance(b, K) or not (0 <= b.n < WIDTH[ty]):
                raise TranslateError("shift by a non-constant or out-of-range amount" + where(n))
            if isinstance(a, K):
                return K(wrap((a.n >> b.n) if signed else ((a.n % (1 << WIDTH[ty])) >> b.n), ty), ty)
            return L("(%s.%s %d)" % (lean_of(a), "sshiftRight" if signed else "ushiftRight", b.n), ty)
        raise TranslateError("binary operator %s not handled%s" % (op, where(n)))

    # ---- statements ----
    def string_arg(self, n, st):
        """a `const SimpleString&` argument: a literal or a SimpleString local"""
        n = self.strip(n)
        if n.get("kind") == "CXXConstructExpr" and len(n.get("inner", [])) == 1:
            n = self.strip(n["inner"][0])
        if n.get("kind") == "StringLiteral":
            return lean_str(c_literal(n["value"]))
        if n.get("kind") == "DeclRefExpr":
            v = st.vars.get(n["referencedDecl"]["id"])
            if isinstance(v, Str):
                return v.text
        raise TranslateError("failure message is neither a literal nor a SimpleString local" + where(n))

    def is_ref(self, n, st, role):
        n = self.strip(n)
        if n.get("kind") == "UnaryOperator" and n.get("opcode") == "*":
            n = self.strip(n["inner"][0])
        if n.get("kind") != "DeclRefExpr":
            return False
        v = st.vars.get(n["referencedDecl"]["id"])
        return isinstance(v, Ref) and v.role == role

    def add_failure(self, call, st):
        """result->addFailure(TestFailure(shell, MSG))"""
        name, m = self.callee(call)
        if name != ".addFailure" or not self.is_ref(m["inner"][0], st, "result") or len(call["inner"]) != 2:
            return False
        tf = self.strip(call["inner"][1])
        if tf.get("kind") not in ("CXXTemporaryObjectExpr", "CXXConstructExpr") or ctype(tf) != "TestFailure" or len(tf.get("inner", [])) != 2:
            raise TranslateError("addFailure argument is not TestFailure(shell, message)" + where(call))
        if not self.is_ref(tf["inner"][0], st, "shell"):
            raise TranslateError("the failure is not attributed to the test being run (first TestFailure argument)" + where(call))
        st.fails.append("[%s]" % self.string_arg(tf["inner"][1], st))
        return True

    def run(self, stmts, st, k):
        """execute the statement list, then `k(st)`; returns Lean text"""
        if not stmts:
            return k(st)
        n, rest = stmts[0], stmts[1:]
        kind = n.get("kind")
        if kind in PASS:
            return self.run([n["inner"][0]] + rest, st, k)
        if kind == "CompoundStmt":
            return self.run(list(n.get("inner", [])) + rest, st, k)
        if kind == "NullStmt":
            return self.run(rest, st, k)
        if kind == "ReturnStmt":
            if n.get("inner"):
                raise TranslateError("return with a value" + where(n))
            return self.leaf_ret(st)
        if kind == "IfStmt":
            inner = n["inner"]
            c = self.ev(inner[0], st)
            th = [inner[1]]
            el = [inner[2]] if len(inner) > 2 else []
            if isinstance(c, B):
                return self.run((th if c.b else el) + rest, st, k)
            a = self.run(th + rest, st.copy(), k)
            b = self.run(el + rest, st.copy(), k)
            return "if %s then %s\n    else %s" % (lean_of(c), a, b)
        if kind == "DeclStmt":
            for d in n["inner"]:
                if d.get("kind") != "VarDecl":
                    raise TranslateError("declaration not handled" + where(n))
                q = ctype(d)
                if q == "SimpleString":
                    init = d.get("inner", [])
                    if len(init) != 1:
                        raise TranslateError("SimpleString local without initialiser" + where(d))
                    st.vars[d["id"]] = Str(self.string_arg(init[0], st))
                elif q in CTYPES:
                    init = d.get("inner", [])
                    if not init:
                        st.vars[d["id"]] = None                # declared, not yet assigned
                    else:
                        hook = self.hook_value(init[0], st)
                        st.vars[d["id"]] = hook if hook is not None else self.cast_to(self.ev(init[0], st), CTYPES[q], d)
                else:
                    raise TranslateError("local of type %s not handled%s" % (q, where(d)))
            return self.run(rest, st, k)
        if kind == "BinaryOperator" and n.get("opcode") == "=":
            lhs = self.strip(n["inner"][0])
            if lhs.get("kind") != "DeclRefExpr" or lhs["referencedDecl"]["id"] not in st.vars:
                raise TranslateError("assignment to something that is not a tracked local" + where(n))
            env = self.env_call(n["inner"][1], lhs["referencedDecl"]["id"], rest, st, k)
            if env is not None:
                return env
            st.vars[lhs["referencedDecl"]["id"]] = self.ev(n["inner"][1], st)
            return self.run(rest, st, k)
        if kind == "UnaryOperator" and n.get("opcode") in ("++", "--"):
            tgt = self.strip(n["inner"][0])
            i = tgt.get("referencedDecl", {}).get("id")
            v = st.vars.get(i)
            if v is None or isinstance(v, (Pid, NotEintr, B, Str, Ref)):
                raise TranslateError("increment of something that is not a tracked integer local" + where(n))
            one = K(1, v.ty)
            if isinstance(v, K):
                st.vars[i] = K(wrap(v.n + (1 if n["opcode"] == "++" else -1), v.ty), v.ty)
            else:
                st.vars[i] = L("(%s %s %s)" % (v.text, "+" if n["opcode"] == "++" else "-", lean_of(one)), v.ty)
            return self.run(rest, st, k)
        if kind == "CXXMemberCallExpr":
            if self.add_failure(n, st):
                return self.run(rest, st, k)
            return self.other_call(n, rest, st, k)
        if kind == "CXXOperatorCallExpr":
            name, _ = self.callee(n)
            tgt = self.strip(n["inner"][1])
            v = st.vars.get(tgt.get("referencedDecl", {}).get("id"))
            if name == "operator+=" and isinstance(v, Str):
                arg = self.strip(n["inner"][2])
                if arg.get("kind") == "CallExpr" and self.callee(arg)[0] == "StringFrom" and len(arg["inner"]) == 2 \
                        and ctype(self.callee(arg)[1]) == "SimpleString (int)":
                    x = self.ev(arg["inner"][1], st)
                    if isinstance(x, (Pid, NotEintr, B)) or x.ty != "i32":
                        raise TranslateError("StringFrom argument is not an int expression" + where(n))
                    st.vars[tgt["referencedDecl"]["id"]] = Str("(%s ++ toString (%s).toInt)" % (v.text, lean_of(x)))
                    return self.run(rest, st, k)
                st.vars[tgt["referencedDecl"]["id"]] = Str("(%s ++ %s)" % (v.text, self.string_arg(n["inner"][2], st)))
                return self.run(rest, st, k)
            raise TranslateError("operator call not handled" + where(n))
        if kind == "CallExpr":
            return self.other_call(n, rest, st, k)
        if kind == "DoStmt":
            return self.do_stmt(n, rest, st, k)
        raise TranslateError("statement kind %s not handled%s" % (kind, where(n)))

    def cast_to(self, v, ty, n):
        if isinstance(v, (Pid, NotEintr)):
            return v
        return self.cast(v, ty, n)

    # hooks overridden per function ------------------------------------------------------------
    def hook_value(self, n, st):
        return None

    def env_call(self, rhs, target, rest, st, k):
        return None

    def other_call(self, n, rest, st, k):
        raise TranslateError("call not handled: %s%s" % (self.callee(n)[0], where(n)))

    def do_stmt(self, n, rest, st, k):
        raise TranslateError("loop not handled" + where(n))

    def leaf_ret(self, st):
        raise TranslateError("return not expected here")


def params(fn):
    return [c for c in fn["inner"] if c.get("kind") == "ParmVarDecl"]


def body(fn):
    return [c for c in fn["inner"] if c.get("kind") == "CompoundStmt"][0]


# ---- SetTestFailureByStatusCode ---------------------------------------------------------------------

class StatusFn(Exec):
    def leaf_ret(self, st):
        if st.conts:
            raise TranslateError("SetTestFailureByStatusCode sends a signal")
        return st.fails_text()


def gen_status_fn():
    fn = clang_docs("SetTestFailureByStatusCode")
    ps = params(fn)
    if [ctype(p) for p in ps] != ["UtestShell *", "TestResult *", "int"]:
        raise TranslateError("SetTestFailureByStatusCode: parameter list changed")
    ex = StatusFn({"EINTR": 4})
    st = St()
    st.vars[ps[0]["id"]] = Ref("shell")
    st.vars[ps[1]["id"]] = Ref("result")
    st.vars[ps[2]["id"]] = L("status", "i32")
    return ex.run([body(fn)], st, ex.leaf_ret)


# ---- GccPlatformSpecificRunTestInASeperateProcess -------------------------------------------------------

class RunFn(Exec):
    """mode: which answer `PlatformSpecificFork()` gives on this run"""
    def __init__(self, consts, fork_answer):
        Exec.__init__(self, consts)
        self.fork_answer = fork_answer
        self.loop = None               # filled when the do/while is reached (parent)
        self.child = None              # filled when `_exit` is reached (child)
        self.forked = False

    def leaf_ret(self, st):
        return ".ret (%s) %d" % (st.fails_text(), st.conts)

    def env_call(self, rhs, target, rest, st, k):
        r = self.strip(rhs)
        if r.get("kind") != "CallExpr":
            return None
        name, _ = self.callee(r)
        if name == "PlatformSpecificFork":
            if self.forked or len(r["inner"]) != 1:
                raise TranslateError("PlatformSpecificFork is called more than once on a path")
            self.forked = True
            st.vars[target] = self.fork_answer
            st.log.append("fork")
            return self.run(rest, st, k)
        if name == "PlatformSpecificWaitPid":
            raise TranslateError("PlatformSpecificWaitPid is called outside the wait loop" + where(rhs))
        return None

    def hook_value(self, n, st):
        c = self.strip(n)
        if c.get("kind") == "CXXMemberCallExpr" and self.callee(c)[0] == ".getFailureCount" \
                and self.is_ref(self.callee(c)[1]["inner"][0], st, "result"):
            if "ran" in st.log:
                return L("finalFailureCount", "u64")
            return L("initialFailureCount", "u64")
        return None

    def ev(self, n, st):
        h = self.hook_value(n, st) if n.get("kind") == "CXXMemberCallExpr" else None
        if h is not None:
            return h
        return Exec.ev(self, n, st)

    def other_call(self, n, rest, st, k):
        name, m = self.callee(n)
        if name == ".runOneTestInCurrentProcess":
            a = n["inner"][1:]
            if not (self.is_ref(m["inner"][0], st, "shell") and len(a) == 2 and self.is_ref(a[0], st, "plugin")
                    and self.is_ref(a[1], st, "result")):
                raise TranslateError("runOneTestInCurrentProcess is not called as shell->…(plugin, *result)" + where(n))
            if not isinstance(self.fork_answer, K) or self.fork_answer.n != 0:
                raise TranslateError("the test is run in a process that is not the forked child" + where(n))
            if "ran" in st.log:
                raise TranslateError("the child runs the test twice")
            st.log.append("ran")
            return self.run(rest, st, k)
        if name == "_exit":
            if len(n["inner"]) != 2:
                raise TranslateError("_exit call not understood")
            if not isinstance(self.fork_answer, K) or self.fork_answer.n != 0:
                raise TranslateError("_exit is reached by a process that is not the forked child" + where(n))
            if "ran" not in st.log:
                raise TranslateError("the child exits without having run the test")
            if st.fails or st.conts:
                raise TranslateError("the child adds failures of its own before it exits")
            v = self.ev(n["inner"][1], st)
            v = self.cast(v, "i32", n) if not isinstance(v, B) else K(1 if v.b else 0, "i32")
            self.child = lean_of(v)
            return ".exits"                                   # _exit does not return: nothing after it is executed
        if name == "kill":
            a = n["inner"][1:]
            if len(a) != 2:
                raise TranslateError("kill call not understood")
            who, sig = self.ev(a[0], st), self.ev(a[1], st)
            if not isinstance(who, Pid):
                raise TranslateError("kill is sent to something that is not the child's pid" + where(n))
            if not (isinstance(sig, K) and sig.n == self.consts["SIGCONT"]):
                raise TranslateError("kill sends a signal other than SIGCONT" + where(n))
            st.conts += 1
            return self.run(rest, st, k)
        if name == "SetTestFailureByStatusCode":
            a = n["inner"][1:]
            if not (len(a) == 3 and self.is_ref(a[0], st, "shell") and self.is_ref(a[1], st, "result")):
                raise TranslateError("SetTestFailureByStatusCode is not called with (shell, result, …)" + where(n))
            v = self.ev(a[2], st)
            if isinstance(v, (Pid, NotEintr, B)) or v.ty != "i32":
                raise TranslateError("SetTestFailureByStatusCode is given something that is not an int" + where(n))
            st.fails.append("setTestFailureGen %s" % (lean_of(v) if isinstance(v, K) or v.text.isidentifier() else "(" + v.text + ")"))
            return self.run(rest, st, k)
        raise TranslateError("call not handled: %s%s" % (name, where(n)))

    # the do { … } while (…) of the parent
    def assigned_in(self, n, acc):
        k = n.get("kind")
        if k == "BinaryOperator" and n.get("opcode", "").endswith("=") and n.get("opcode") not in ("==", "!=", "<=", ">="):
            t = self.strip(n["inner"][0])
            if t.get("kind") == "DeclRefExpr":
                acc.add(t["referencedDecl"]["id"])
        if k == "UnaryOperator" and n.get("opcode") in ("++", "--", "&"):
            t = self.strip(n["inner"][0])
            if t.get("kind") == "DeclRefExpr":
                acc.add(t["referencedDecl"]["id"])
        for c in n.get("inner", []):
            if isinstance(c, dict):
                self.assigned_in(c, acc)

    def do_stmt(self, n, rest, st, k):
        if rest:
            raise TranslateError("statements follow the wait loop" + where(n))
        if not isinstance(self.fork_answer, Pid):
            raise TranslateError("the wait loop is reached although no child was forked" + where(n))
        if st.fails or st.conts:
            raise TranslateError("failures are added before the wait loop")
        bodyn, cond = n["inner"][0], n["inner"][1]
        # the first statement of the body must be  w = PlatformSpecificWaitPid(cpid, &status, WUNTRACED)
        stmts = list(bodyn.get("inner", [])) if bodyn.get("kind") == "CompoundStmt" else [bodyn]
        first = self.strip(stmts[0]) if stmts else {}
        ok = first.get("kind") == "BinaryOperator" and first.get("opcode") == "="
        call = self.strip(first["inner"][1]) if ok else {}
        if not (ok and call.get("kind") == "CallExpr" and self.callee(call)[0] == "PlatformSpecificWaitPid" and len(call["inner"]) == 4):
            raise TranslateError("the loop body does not start with  w = PlatformSpecificWaitPid(cpid, &status, WUNTRACED)" + where(n))
        wvar = self.strip(first["inner"][0])["referencedDecl"]["id"]
        a = call["inner"][1:]
        if not isinstance(self.ev(a[0], st), Pid):
            raise TranslateError("waitpid is not given the pid fork returned" + where(call))
        sref = self.strip(a[1])
        if not (sref.get("kind") == "UnaryOperator" and sref.get("opcode") == "&" and self.strip(sref["inner"][0]).get("kind") == "DeclRefExpr"):
            raise TranslateError("second waitpid argument is not the address of a local" + where(call))
        svar = self.strip(sref["inner"][0])["referencedDecl"]["id"]
        opt = self.ev(a[2], st)
        if not (isinstance(opt, K) and opt.n == self.consts["WUNTRACED"]):
            raise TranslateError("waitpid options are not WUNTRACED (stops would not be reported / the call would not block)" + where(call))
        acc = set()
        self.assigned_in(n, acc)
        others = [i for i in acc if i not in (wvar, svar)]
        if len(others) > 1 or any(not isinstance(st.vars.get(i), (K, L)) or st.vars[i].ty != "u64" for i in others):
            raise TranslateError("the loop changes locals other than w, status and one size_t counter")
        if any("PlatformSpecificWaitPid" == self._name(c) for c in self._calls(n)) and \
                sum(1 for c in self._calls(n) if self._name(c) == "PlatformSpecificWaitPid") != 1:
            raise TranslateError("more than one waitpid call in the loop")
        init_status = st.vars.get(svar)
        if not isinstance(init_status, K):
            raise TranslateError("status is not initialised to a constant before the loop")
        init_retries = st.vars[others[0]] if others else K(0, "u64")
        if not isinstance(init_retries, K):
            raise TranslateError("the retry counter is not initialised to a constant before the loop")
        arms = []
        for pat, wval, errno, status in ((".eintr", K(-1, "i32"), K(self.consts["EINTR"], "i32"), None),
                                         (".error", K(-1, "i32"), NotEintr(), None),
                                         (".status s", Pid(), None, L("s", "i32"))):
            s2 = st.copy()
            s2.vars[wvar] = wval
            s2.errno = errno
            s2.vars[svar] = status if status is not None else L("status", "i32")
            if others:
                s2.vars[others[0]] = L("amountOfRetries", "u64")

            def at_end(s3, others=others, svar=svar):
                c = self.ev(cond, s3)
                r = lean_of(s3.vars[others[0]]) if others else "amountOfRetries"
                return ".fall (%s) %d %s %s %s" % (s3.fails_text(), s3.conts, r, lean_of(s3.vars[svar]), lean_of(c))
            arms.append("  | %s =>\n    %s" % (pat, self.run(stmts[1:], s2, at_end)))
        self.loop = {"arms": "\n".join(arms), "init_status": lean_of(init_status), "init_retries": lean_of(init_retries)}
        return ".loops"

    def _calls(self, n):
        out = []
        if n.get("kind") == "CallExpr":
            out.append(n)
        for c in n.get("inner", []):
            if isinstance(c, dict):
                out += self._calls(c)
        return out

    def _name(self, c):
        try:
            return self.callee(c)[0]
        except TranslateError:
            return None


def macro_consts():
    """EINTR, WUNTRACED, SIGCONT on Linux (what the environment split and the SIGCONT count are keyed on; the
    source's own uses of the macros arrive as the literals the installed headers expand them to)"""
    return {"EINTR": 4, "WUNTRACED": 2, "SIGCONT": 18}


def run_fn(fn, answer, consts):
    ps = params(fn)
    if [ctype(p) for p in ps] != ["UtestShell *", "TestPlugin *", "TestResult *"]:
        raise TranslateError("GccPlatformSpecificRunTestInASeperateProcess: parameter list changed")
    ex = RunFn(consts, answer)
    st = St()
    for p, role in zip(ps, ("shell", "plugin", "result")):
        st.vars[p["id"]] = Ref(role)

    def fell_off(s):
        return ex.leaf_ret(s)                                   # the function ends without `return`
    text = ex.run([body(fn)], st, fell_off)
    if not ex.forked:
        raise TranslateError("PlatformSpecificFork is never called")
    return ex, text


def generate():
    consts = macro_consts()
    status_tree = gen_status_fn()
    fn = clang_docs("GccPlatformSpecificRunTestInASeperateProcess")
    ex_fail, fail_text = run_fn(fn, K(-1, "i32"), consts)
    if ex_fail.loop is not None or ex_fail.child is not None or not fail_text.startswith(".ret"):
        raise TranslateError("after a failing fork the function does not simply return: " + fail_text)
    ex_child, child_text = run_fn(fn, K(0, "i32"), consts)
    if ex_child.child is None or child_text != ".exits":
        raise TranslateError("the forked child does not end in _exit(…) on every path: " + child_text)
    ex_par, par_text = run_fn(fn, Pid(), consts)
    if ex_par.loop is None or par_text != ".loops":
        raise TranslateError("the parent does not go straight into the wait loop: " + par_text)
    lp = ex_par.loop
    out = [(HEADER % ("translate/cxx2lean_c11.py (clang++-14 JSON AST)", SRC)).rstrip("\n"),
           "import CppUModel.Model.SepProcTypes",
           "open SepProc",
           "namespace Gen.SepProcLoop",
           "/-- `SetTestFailureByStatusCode(shell, result, status)`: the messages of the failures it adds, in order;",
           "    `WIFEXITED` … are the expansions the installed `<sys/wait.h>` gives -/",
           "def setTestFailureGen (status : BitVec 32) : List String :=",
           "  " + status_tree,
           "",
           "/-- the function when `PlatformSpecificFork()` returns -1 -/",
           "def forkFailedGen : BodyOut := " + fail_text,
           "",
           "/-- the argument of `_exit` in the child; the two counts are `result->getFailureCount()` before and after",
           "    `shell->runOneTestInCurrentProcess(plugin, *result)` -/",
           "def childExitGen (initialFailureCount finalFailureCount : BitVec 64) : BitVec 32 :=",
           "  " + ex_child.child,
           "",
           "/-- values of `amountOfRetries` and `status` when the parent enters the `do … while` -/",
           "def loopInitRetries : BitVec 64 := " + lp["init_retries"],
           "def loopInitStatus : BitVec 32 := " + lp["init_status"],
           "",
           "/-- one pass through the body of the parent's `do { w = PlatformSpecificWaitPid(cpid, &status, WUNTRACED); … }",
           "    while (…)`, for the three things `waitpid` can answer; `.fall … again` = the `while` condition was reached",
           "    and evaluated to `again` -/",
           "def waitBodyGen (amountOfRetries : BitVec 64) (status : BitVec 32) (o : WaitOutcome) : BodyOut :=",
           "  match o with",
           lp["arms"],
           "end Gen.SepProcLoop", ""]
    return "\n".join(out)


def run():
    text = generate()
    core.write_if_changed(os.path.join(core.LEAN, "CppUModel", "Gen", "SeparateProcessLoop.lean"), text)
    return []


if __name__ == "__main__":
    print(generate())
