"""Regenerates lean/CppUModel/Gen/MockReporter.lean from src/CppUTestExt/MockFailure.cpp: the body of
MockFailureReporter::failTest (the library's DEFAULT mock failure reporter) as the statement it is -
the condition under which the failure is delivered to the test (`failWith`, which leaves the test) as
a function of "the test to fail has already failed".  Accepted shapes of the body:
    if (!getTestToFail()->hasFailed()) getTestToFail()->failWith(failure, <terminator>);   -> reports failed = !failed
    getTestToFail()->failWith(failure, <terminator>);                                      -> reports failed = true
and MockFailureReporter::getTestToFail must be `return UtestShell::getCurrent();`.  Anything else is a
TranslateError (handled like a broken obligation)."""
import os, re
from .common import *

SRC = "src/CppUTestExt/MockFailure.cpp"


def squeeze(t):
    return re.sub(r"\s+", "", t)


def extract():
    src = strip_comments(read(SRC))
    body = squeeze(function_body(src, r"void\s+MockFailureReporter::failTest\s*\(\s*const\s+MockFailure\s*&\s*failure\s*\)"))
    deliver = r"getTestToFail\(\)->failWith\(failure,MockFailureReporterTestTerminator\(crashOnFailure_\)\);"
    m = re.match(r"^if\(([^;{}]*)\)\{?" + deliver + r"\}?$", body)
    if m:
        guard = m.group(1)
        if guard != "!getTestToFail()->hasFailed()":
            raise TranslateError("MockFailureReporter::failTest: unknown guard `%s`" % guard)
        term = "fun testHasFailed => !testHasFailed"
    elif re.match(r"^" + deliver + r"$", body):
        guard = ""
        term = "fun _ => true"
    else:
        raise TranslateError("MockFailureReporter::failTest changed shape: " + body)
    get = squeeze(function_body(src, r"UtestShell\s*\*\s*MockFailureReporter::getTestToFail\s*\(\s*\)"))
    if get != "returnUtestShell::getCurrent();":
        raise TranslateError("MockFailureReporter::getTestToFail changed: " + get)
    text = HEADER % ("translate/extract_mockreporter.py", SRC)
    text += "namespace Gen.MockReporter\n"
    text += "/-- the condition in front of `failWith` in MockFailureReporter::failTest (whitespace removed; empty = none) -/\n"
    text += 'def failTestGuard : String := "%s"\n' % guard.replace("\\", "\\\\").replace('"', '\\"')
    text += "/-- MockFailureReporter::failTest delivers the failure (and leaves the test) iff … -/\n"
    text += "def reports : Bool → Bool := %s\n" % term
    text += "end Gen.MockReporter\n"
    return text


def run():
    text = extract()
    core.write_if_changed(os.path.join(core.LEAN, "CppUModel", "Gen", "MockReporter.lean"), text)
    return []
