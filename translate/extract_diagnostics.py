"""Regenerates lean/CppUModel/Gen/DiagnosticsConstants.lean from
   include/CppUTest/MemoryLeakDetector.h, src/CppUTest/MemoryLeakDetector.cpp, src/CppUTest/TestFailure.cpp
(C14): buffer length, the footer macro texts (their sizeof is computed in Lean from the text), the footer
reserve expression of startMemoryLeakReporting, every vsnprintf format of the report builder and of the
failure messages, the hex dump line width, the position-marker window; and shape checks of the loop-free
SimpleStringBuffer functions and of the five first-difference scan headers (TranslateError when the source no
longer has the shape the hand-written model mirrors)."""
import os, re
from .common import *

HDR = "include/CppUTest/MemoryLeakDetector.h"
SRC = "src/CppUTest/MemoryLeakDetector.cpp"
TF = "src/CppUTest/TestFailure.cpp"

ESC = {"n": 10, "t": 9, "\\": 92, '"': 34, "'": 39, "a": 7, "b": 8, "f": 12, "r": 13, "v": 11, "0": 0, "?": 63}


def c_unescape(body):
    """bytes of the inside of one C string literal"""
    out, i = [], 0
    while i < len(body):
        ch = body[i]
        if ch == "\\":
            i += 1
            e = body[i]
            if e == "x":
                m = re.match(r"[0-9a-fA-F]+", body[i + 1:])
                if not m:
                    raise TranslateError("bad \\x escape in " + body)
                out.append(int(m.group(0), 16) & 0xFF)
                i += 1 + len(m.group(0))
                continue
            if e in "01234567":
                m = re.match(r"[0-7]{1,3}", body[i:])
                out.append(int(m.group(0), 8) & 0xFF)
                i += len(m.group(0))
                continue
            if e not in ESC:
                raise TranslateError("unknown escape \\%s in %s" % (e, body))
            out.append(ESC[e])
            i += 1
        else:
            out.extend(ch.encode("utf-8"))
            i += 1
    return out


LIT = r'"((?:\\.|[^"\\])*)"'


def literal_concat(text):
    """bytes of adjacent string literals `"a" "b"` (whitespace / line continuations in between)"""
    text = text.replace("\\\n", " ")
    pos, out = 0, []
    text = text.strip()
    while pos < len(text):
        m = re.match(r"\s*" + LIT, text[pos:])
        if not m:
            raise TranslateError("not a sequence of string literals: " + text[:80])
        out += c_unescape(m.group(1))
        pos += m.end()
    return out


def macro_text(src, name):
    m = re.search(r"^[ \t]*#[ \t]*define[ \t]+%s[ \t]+((?:.*\\\n)*.*)$" % re.escape(name), src, re.M)
    if not m:
        raise TranslateError("macro not found: " + name)
    return literal_concat(m.group(1))


SPEC = [(r"%s", ".s"), (r"%d", ".d"), (r"%ld", ".d"), (r"%lld", ".d"), (r"%u", ".u"), (r"%lu", ".u"), (r"%llu", ".u"),
        (r"%p", ".p"), (r"%c", ".c"), (r"%x", ".x"), (r"%lx", ".x"), (r"%llx", ".x"),
        (r"%04lx", ".lx04"), (r"%02hx", ".hx02"), (r"%02X", ".X02")]
SPECMAP = dict(SPEC)


def fmt_segments(bs):
    """format bytes -> list of ('lit', bytes) / ('seg', name)"""
    segs, cur, i = [], [], 0
    while i < len(bs):
        if bs[i] == 37:   # %
            if i + 1 < len(bs) and bs[i + 1] == 37:
                cur.append(37)
                i += 2
                continue
            m = re.match(r"%[0-9]*(?:hh|h|ll|l)?[a-zA-Z]", bytes(bs[i:i + 8]).decode("latin-1"))
            if not m or m.group(0) not in SPECMAP:
                raise TranslateError("conversion not in the modelled subset: %r" % bytes(bs[i:i + 8]))
            if cur:
                segs.append(("lit", cur))
                cur = []
            segs.append(("seg", SPECMAP[m.group(0)]))
            i += len(m.group(0))
        else:
            cur.append(bs[i])
            i += 1
    if cur:
        segs.append(("lit", cur))
    return segs


def lean_bytes(bs):
    return "[" + ", ".join(str(b) for b in bs) + "]"


def lean_fmt(bs):
    parts = []
    for k, v in fmt_segments(bs):
        parts.append(".lit " + lean_bytes(v) if k == "lit" else v)
    return "[" + ", ".join(parts) + "]"


def comment_of(bs):
    s = bytes(bs).decode("latin-1")
    return s.replace("\\", "\\\\").replace("\n", "\\n").replace("\t", "\\t").replace("-/", "- /")


def norm(s):
    return re.sub(r"\s+", "", s)


def first_literal_arg(body, call, macros, nth=0):
    """format argument (string literals or a macro name) of the nth `call(` in body"""
    idx = [m.end() for m in re.finditer(re.escape(call) + r"\s*\(", body)]
    if len(idx) <= nth:
        raise TranslateError("call %s #%d not found" % (call, nth))
    rest = body[idx[nth]:]
    m = re.match(r"\s*((?:" + LIT + r"\s*)+)", rest)
    if m:
        return literal_concat(m.group(1))
    m = re.match(r"\s*([A-Z_][A-Z0-9_]*)\s*[,)]", rest)
    if m and m.group(1) in macros:
        return macros[m.group(1)]
    raise TranslateError("format argument of %s is neither literals nor a known macro: %s" % (call, rest[:60]))


PROBLEMS = []     # shape deviations: reported like broken obligations, the constants are still regenerated


def expect_shape(name, body, want):
    if norm(body) != norm(want):
        PROBLEMS.append("%s changed shape (the hand-written model mirrors `%s`), now: %s" % (name, norm(want)[:200], norm(body)[:300]))


def sum_expr(expr, sizeofs):
    """`sizeof(A) + 10 + sizeof(B)` -> Lean term over the regenerated sizeofs; only sums of sizeof(MACRO),
    integers and previously defined names are accepted"""
    terms = []
    for t in expr.split("+"):
        t = t.strip()
        m = re.fullmatch(r"sizeof\s*\(\s*(\w+)\s*\)", t)
        if m:
            if m.group(1) not in sizeofs:
                raise TranslateError("sizeof of unknown macro " + m.group(1))
            terms.append(sizeofs[m.group(1)])
        elif re.fullmatch(r"\d+", t):
            terms.append(t)
        elif t in sizeofs:
            terms.append(sizeofs[t])
        else:
            raise TranslateError("footer size expression not a sum of sizeof/ints: " + expr)
    return " + ".join(terms)


def extract():
    del PROBLEMS[:]
    hdr = strip_comments(read(HDR))
    src_raw = read(SRC)
    src = strip_comments(src_raw)
    tf = strip_comments(read(TF))
    out = [(HEADER % ("translate/extract_diagnostics.py", "%s, %s, %s" % (HDR, SRC, TF))).rstrip("\n"),
           "import CppUModel.Spec.DiagnosticsFmt", "namespace Gen.Diag", "open Fmt"]

    # ---- SimpleStringBuffer: length, constructor, loop-free functions
    m = re.search(r"SIMPLE_STRING_BUFFER_LEN\s*=\s*(\d+)", hdr)
    if not m:
        raise TranslateError("SIMPLE_STRING_BUFFER_LEN not found")
    out.append("def bufferLen : Nat := %s" % m.group(1))
    m = re.search(r"char\s+buffer_\s*\[\s*SIMPLE_STRING_BUFFER_LEN\s*\]\s*;", hdr)
    if not m:
        raise TranslateError("buffer_ is no longer char[SIMPLE_STRING_BUFFER_LEN]")
    m = re.search(r"char\s+verif_canary_\s*\[\s*(\d+)\s*\]", hdr)
    out.append("def canaryLen : Nat := %s" % (m.group(1) if m else "0"))
    # constructor, clear, add, setWriteLimit, resetWriteLimit, reachedItsCapacity: translated from the clang AST by
    # translate/extract_diagbuf.py (Gen/DiagnosticsBuffer.lean) and proved equal to the hand model in Props/C14.lean
    expect_shape("SimpleStringBuffer::toString", function_body(src, r"char\s*\*\s*SimpleStringBuffer::toString\s*\(\s*\)\s*\{"),
                 "return buffer_;")

    # ---- hex dump
    dump = function_body(src, r"void\s+SimpleStringBuffer::addMemoryDump\s*\([^)]*\)\s*\{")
    m = re.search(r"maxLineBytes\s*=\s*(\d+)\s*;", dump)
    if not m:
        raise TranslateError("maxLineBytes not found")
    out.append("def dumpLineBytes : Nat := %s" % m.group(1))
    dump_expected = """
        const unsigned char* byteMemory = (const unsigned char*)memory;
        const size_t maxLineBytes = N;
        size_t currentPos = 0;
        size_t p;
        while (currentPos < memorySize) {
            add(F0, (unsigned long) currentPos);
            size_t bytesInLine = memorySize - currentPos;
            if (bytesInLine > maxLineBytes) { bytesInLine = maxLineBytes; }
            const size_t leftoverBytes = maxLineBytes - bytesInLine;
            for (p = 0; p < bytesInLine; p++) {
                add(F1, (unsigned short) byteMemory[currentPos + p]);
                if (p == ((maxLineBytes / 2) - 1)) { add(F2); }
            }
            for (p = 0; p < leftoverBytes; p++) { add(F3); }
            if (leftoverBytes > (maxLineBytes/2)) { add(F4); }
            add(F5);
            for (p = 0; p < bytesInLine; p++) {
                char toAdd = (char)byteMemory[currentPos + p];
                if (toAdd < ' ' || toAdd > '~') { toAdd = '.'; }
                add(F6, (int)toAdd);
            }
            add(F7);
            currentPos += bytesInLine;
        }"""
    k = [0]

    def repl(mm):
        k[0] += 1
        return "F%d" % (k[0] - 1)
    dump_shape = re.sub(LIT, repl, re.sub(r"maxLineBytes\s*=\s*\d+", "maxLineBytes = N", dump))
    expect_shape("SimpleStringBuffer::addMemoryDump", dump_shape, dump_expected)
    names = ["dumpOffsetFmt", "dumpByteFmt", "dumpMidGap", "dumpMissingByte", "dumpMissingGap", "dumpBar", "dumpCharFmt", "dumpEndFmt"]
    for i, nm in enumerate(names):
        bs = first_literal_arg(dump, "add", {}, i)
        out.append("/-- `%s` -/" % comment_of(bs))
        out.append("def %s : List Seg := %s" % (nm, lean_fmt(bs)))

    # ---- footer macros and the reserve
    macros = {}
    for nm, lean in (("MEM_LEAK_TOO_MUCH", "tooMuch"), ("MEM_LEAK_FOOTER", "footerText"),
                     ("MEM_LEAK_ADDITION_MALLOC_WARNING", "mallocWarning")):
        bs = macro_text(src_raw, nm)
        macros[nm] = bs
        out.append("/-- %s = `%s` -/" % (nm, comment_of(bs)))
        out.append("def %s : Bytes := %s" % (lean, lean_bytes(bs)))
    sizeofs = {"MEM_LEAK_TOO_MUCH": "(tooMuch.length + 1)", "MEM_LEAK_FOOTER": "(footerText.length + 1)",
               "MEM_LEAK_ADDITION_MALLOC_WARNING": "(mallocWarning.length + 1)"}
    start = function_body(src, r"void\s+MemoryLeakOutputStringBuffer::startMemoryLeakReporting\s*\(\s*\)\s*\{")
    m0 = re.search(r"size_t(\w+)=(.*?);size_t(\w+)=(.*?);.*?outputBuffer_\.setWriteLimit\(SimpleStringBuffer::SIMPLE_STRING_BUFFER_LEN-(\w+)\);",
                   norm(start))
    if not m0 or m0.group(5) != m0.group(3) or m0.group(1) not in m0.group(4):
        raise TranslateError("startMemoryLeakReporting changed shape: " + norm(start))

    class _M:       # the two size expressions, with the first local's name normalised
        def __init__(self, a, b):
            self.g = (None, a, b)

        def group(self, i):
            return self.g[i]
    m = _M(m0.group(2), re.sub(r"\b%s\b" % re.escape(m0.group(1)), "memory_leak_normal_footer_size", m0.group(4)))
    e1 = re.sub(r"sizeof\(", "sizeof(", m.group(1))
    out.append("/-- `memory_leak_normal_footer_size` = `%s` -/" % m.group(1))
    out.append("def footerSizeNormal : Nat := %s" % sum_expr(e1, sizeofs))
    sizeofs["memory_leak_normal_footer_size"] = "footerSizeNormal"
    out.append("/-- `memory_leak_foot_size_with_malloc_warning` = `%s` -/" % m.group(2))
    out.append("def footerSizeWithMallocWarning : Nat := %s" % sum_expr(m.group(2), sizeofs))

    # ---- report builder: formats and shapes
    def fmt_of(fn_regex, lean, nth=0, call="outputBuffer_.add"):
        body = function_body(src, fn_regex)
        bs = first_literal_arg(body, call, macros, nth)
        out.append("/-- `%s` -/" % comment_of(bs))
        out.append("def %s : List Seg := %s" % (lean, lean_fmt(bs)))
        return body

    b = fmt_of(r"void\s+MemoryLeakOutputStringBuffer::addAllocationLocation\s*\([^)]*\)\s*\{", "allocLocationFmt")
    b = fmt_of(r"void\s+MemoryLeakOutputStringBuffer::addDeallocationLocation\s*\([^)]*\)\s*\{", "deallocLocationFmt")
    fmt_of(r"void\s+MemoryLeakOutputStringBuffer::addNoMemoryLeaksMessage\s*\(\s*\)\s*\{", "noLeaksFmt")
    fmt_of(r"void\s+MemoryLeakOutputStringBuffer::addMemoryLeakHeader\s*\(\s*\)\s*\{", "headerFmt")
    fmt_of(r"void\s+MemoryLeakOutputStringBuffer::addErrorMessageForTooMuchLeaks\s*\(\s*\)\s*\{", "tooMuchFmt")
    b = fmt_of(r"void\s+MemoryLeakOutputStringBuffer::addMemoryLeakFooter\s*\([^)]*\)\s*\{", "footerFmt")
    fmt_of(r"void\s+MemoryLeakOutputStringBuffer::addWarningForUsingMalloc\s*\(\s*\)\s*\{", "mallocWarningFmt")
    leak = fmt_of(r"void\s+MemoryLeakOutputStringBuffer::reportMemoryLeak\s*\([^)]*\)\s*\{", "leakFmt")
    bs = first_literal_arg(leak, "(const char*)", {}, 0) if False else literal_concat(re.findall(r"\(const char\*\)\s*(" + LIT + ")", leak)[0][0])
    out.append("def mallocName : Bytes := %s" % lean_bytes(bs))
    # stopMemoryLeakReporting, reportMemoryLeak, reportFailure: statement lists from the clang AST (extract_diagbuf.py)
    for fn, lean in (("reportDeallocateNonAllocatedMemoryFailure", "msgNonAllocated"),
                     ("reportAllocationDeallocationMismatchFailure", "msgMismatch"),
                     ("reportMemoryCorruptionFailure", "msgCorruption")):
        body = function_body(src, r"void\s+MemoryLeakOutputStringBuffer::%s\s*\([^)]*\)\s*\{" % fn)
        bs = first_literal_arg(body, "reportFailure", {}, 0)
        out.append("/-- `%s` -/" % comment_of(bs))
        out.append("def %s : Bytes := %s" % (lean, lean_bytes(bs)))
    body = function_body(src, r"void\s+MemoryLeakOutputStringBuffer::reportDeallocateNonAllocatedMemoryFailure\s*\([^)]*\)\s*\{")
    m = re.search(r'reportFailure\(' + LIT + r',(' + LIT + r'),(\d+),(\d+),NullUnknownAllocator::defaultAllocator\(\),freeFile,freeLine,freeAllocator,reporter\);', norm(body))
    if not m:
        raise TranslateError("reportDeallocateNonAllocatedMemoryFailure changed shape: " + norm(body))
    out.append("def nonAllocatedFile : Bytes := %s" % lean_bytes(literal_concat(m.group(2))))
    out.append("def nonAllocatedLine : Nat := %s" % m.group(4))
    out.append("def nonAllocatedSize : Nat := %s" % m.group(5))

    # ---- TestFailure.cpp
    diff = function_body(tf, r"SimpleString\s+TestFailure::createDifferenceAtPosString\s*\([^)]*\)\s*\{")
    m = re.search(r"extraCharactersWindow\s*=\s*(\d+)\s*;", diff)
    if not m:
        raise TranslateError("extraCharactersWindow not found")
    out.append("def window : Nat := %s" % m.group(1))
    m = re.search(r"halfOfExtraCharactersWindow\s*=\s*extraCharactersWindow\s*/\s*(\d+)\s*;", diff)
    if not m:
        raise TranslateError("halfOfExtraCharactersWindow is no longer extraCharactersWindow / k")
    out.append("def halfWindow : Nat := window / %s" % m.group(1))
    want_diff = ('SimpleString result; const size_t extraCharactersWindow = N; const size_t halfOfExtraCharactersWindow = extraCharactersWindow / N; '
                 'SimpleString paddingForPreventingOutOfBounds (F, halfOfExtraCharactersWindow); '
                 'SimpleString actualString = paddingForPreventingOutOfBounds + actual + paddingForPreventingOutOfBounds; '
                 'SimpleString differentString = StringFromFormat(F, (unsigned long) reportedPosition); '
                 'result += F; '
                 'result += StringFromFormat(F, differentString.asCharString(), actualString.subString(offset, extraCharactersWindow).asCharString()); '
                 'result += StringFromFormat(F, SimpleString(F, (differentString.size() + halfOfExtraCharactersWindow)).asCharString()); '
                 'return result;')
    expect_shape("createDifferenceAtPosString", re.sub(r"=\s*\d+\s*;", "= N;", re.sub(r"/\s*\d+\s*;", "/ N;", re.sub(LIT, "F", diff))), want_diff)
    lits = [literal_concat(x[0]) for x in re.findall(r"(" + LIT + ")", diff)]
    if len(lits) != 6:
        raise TranslateError("createDifferenceAtPosString: expected 6 string literals")
    out.append("def padByte : Bytes := %s" % lean_bytes(lits[0]))
    out.append("/-- `%s` -/" % comment_of(lits[1]))
    out.append("def differenceFmt : List Seg := %s" % lean_fmt(lits[1]))
    out.append("def diffLead : Bytes := %s" % lean_bytes(lits[2]))
    out.append("def diffLine1Fmt : List Seg := %s" % lean_fmt(lits[3]))
    out.append("def diffLine2Fmt : List Seg := %s" % lean_fmt(lits[4]))
    out.append("def markerPadByte : Bytes := %s" % lean_bytes(lits[5]))
    if len(lits[0]) != 1 or len(lits[5]) != 1:
        raise TranslateError("padding strings are no longer single characters")

    bw = function_body(tf, r"SimpleString\s+TestFailure::createButWasString\s*\([^)]*\)\s*\{")
    expect_shape("createButWasString", re.sub(LIT, "F", bw), "return StringFromFormat(F, expected.asCharString(), actual.asCharString());")
    bs = first_literal_arg(bw, "StringFromFormat", {}, 0)
    out.append("/-- `%s` -/" % comment_of(bs))
    out.append("def butWasFmt : List Seg := %s" % lean_fmt(bs))
    cf = function_body(tf, r"ContainsFailure::ContainsFailure\s*\([^)]*\)\s*:\s*TestFailure\s*\([^)]*\)\s*\{")
    expect_shape("ContainsFailure", re.sub(LIT, "F", cf),
                 "message_ = createUserText(text); message_ += StringFromFormat(F, actual.printable().asCharString(), expected.printable().asCharString());")
    bs = first_literal_arg(cf, "StringFromFormat", {}, 0)
    out.append("/-- `%s` -/" % comment_of(bs))
    out.append("def containsFmt : List Seg := %s" % lean_fmt(bs))
    ff = function_body(tf, r"FeatureUnsupportedFailure::FeatureUnsupportedFailure\s*\([^)]*\)\s*:\s*TestFailure\s*\([^)]*\)\s*\{")
    bs = first_literal_arg(ff, "StringFromFormat", {}, 0)
    out.append("def featureFmt : List Seg := %s" % lean_fmt(bs))

    # UnexpectedExceptionFailure (both constructors) and the message-less TestFailure constructor
    m = re.search(r"UnexpectedExceptionFailure::UnexpectedExceptionFailure\s*\(\s*UtestShell\s*\*\s*test\s*\)\s*:\s*TestFailure\s*\(\s*test\s*,\s*(" + LIT + r")\s*\)", tf)
    if not m:
        raise TranslateError("UnexpectedExceptionFailure(UtestShell*) no longer passes a literal message")
    out.append("def excUnknownText : Bytes := %s" % lean_bytes(literal_concat(m.group(1))))
    m = re.search(r"UnexpectedExceptionFailure::UnexpectedExceptionFailure\s*\(\s*UtestShell\s*\*\s*test\s*,\s*const\s+std::exception\s*&\s*e\s*\)\s*:\s*TestFailure\s*\((.*?)\)\s*\{\s*\(void\)\s*e;", tf, re.S)
    if not m:
        raise TranslateError("UnexpectedExceptionFailure(UtestShell*, const std::exception&) not found")
    mm = re.search(r"StringFromFormat\s*\(\s*(" + LIT + r")\s*,\s*getExceptionTypeName\(e\)\.asCharString\(\)\s*,\s*e\.what\(\)\s*\)", m.group(1))
    if not mm:
        raise TranslateError("UnexpectedExceptionFailure(e) no longer formats (type name, what())")
    bs = literal_concat(mm.group(1))
    out.append("/-- `%s` -/" % comment_of(bs))
    out.append("def excFmt : List Seg := %s" % lean_fmt(bs))
    m = re.search(r"TestFailure::TestFailure\s*\(\s*UtestShell\s*\*\s*test\s*,\s*const\s+char\s*\*\s*fileName\s*,\s*size_t\s+lineNum\s*\)\s*:.*?message_\s*\(\s*(" + LIT + r")\s*\)", tf, re.S)
    if not m:
        raise TranslateError("TestFailure(test, file, line) no longer sets a literal message")
    out.append("def noMessageText : Bytes := %s" % lean_bytes(literal_concat(m.group(1))))
    ut = function_body(tf, r"SimpleString\s+TestFailure::createUserText\s*\([^)]*\)\s*\{")
    expect_shape("createUserText", re.sub(LIT, "F", ut),
                 "SimpleString userMessage = F; if (!text.isEmpty()) { if (!text.startsWith(F)) userMessage += F; "
                 "userMessage += text; userMessage += F; } return userMessage;")
    lits = [literal_concat(x[0]) for x in re.findall(r"(" + LIT + ")", ut)]
    if len(lits) != 4 or lits[0]:
        raise TranslateError("createUserText: expected the literals \"\", prefix-exception, prefix, separator")
    out.append("def userTextException : Bytes := %s" % lean_bytes(lits[1]))
    out.append("def userTextPrefix : Bytes := %s" % lean_bytes(lits[2]))
    out.append("def userTextSeparator : Bytes := %s" % lean_bytes(lits[3]))

    # the overloads without a location pass UNKNOWN and line 0
    m = re.search(r"static\s+const\s+char\s*\*\s*UNKNOWN\s*=\s*(" + LIT + r")\s*;", src)
    if not m:
        raise TranslateError("UNKNOWN literal not found")
    out.append("def unknownFile : Bytes := %s" % lean_bytes(literal_concat(m.group(1))))
    ns = norm(src)
    for what, text in (("allocMemory without location", "returnallocMemory(allocator,size,UNKNOWN,0,allocatNodesSeperately);"),
                       ("deallocMemory without location", "deallocMemory(allocator,(char*)memory,UNKNOWN,0,allocatNodesSeperately);")):
        if text not in ns:
            PROBLEMS.append("%s is no longer `%s`" % (what, text))

    # the seven first-difference scans and the createDifferenceAtPosString calls: translated from the clang AST by
    # translate/extract_diagfailure.py (Gen/DiagnosticsFailure.lean), tied to Diag.scan / Diag.scanBin in Props/C14.lean

    out.append("end Gen.Diag")
    return "\n".join(out) + "\n"


def run():
    text = extract()
    core.write_if_changed(os.path.join(core.LEAN, "CppUModel", "Gen", "DiagnosticsConstants.lean"), text)
    return list(PROBLEMS)


if __name__ == "__main__":
    print(extract())
