"""Regenerates lean/CppUModel/Gen/LeakChainCode.lean (property C07, several plugins) from TestPlugin.cpp,
TestRegistry.cpp, CommandLineTestRunner.cpp and MockSupportPlugin.cpp.

Translated (anything unexpected raises TranslateError):
  * TestPlugin::runAllPreTestAction / runAllPostTestAction: the two statements "own action" (guarded by
    `enabled_` or not) and "rest of the chain" (`next_->runAll…`) in source order -> ChainOrder + guard flag;
  * TestRegistry::installPlugin + TestPlugin::addPlugin: where a new plugin is linked -> InstallAt;
  * NullTestPlugin::runAllPre/PostTestAction: empty (end of the chain);
  * CommandLineTestRunner::RunAllTests / runAllTestsMain: which plugins the runner installs itself and in which
    order relative to the run, and the final report call (`if (result == 0) … FinalReport(n)`);
  * MockSupportPluginReporter::failTest: how a plugin's post action records a failure.
"""
import os, re
from .common import *
from .extract_leakplugin import norm, split_statements

TPLUGIN = "src/CppUTest/TestPlugin.cpp"
REGISTRY = "src/CppUTest/TestRegistry.cpp"
RUNNER = "src/CppUTest/CommandLineTestRunner.cpp"
MOCKPLUGIN = "src/CppUTestExt/MockSupportPlugin.cpp"
RUNNER_H = "include/CppUTest/CommandLineTestRunner.h"


def chain_walk(src, fn, action):
    body = function_body(src, r"void\s+TestPlugin::%s\s*\([^)]*\)\s*\{" % fn)
    stmts = [norm(s) for s in split_statements(body)]
    own_guarded = "if(enabled_)%s(test,result)" % action
    own_plain = "%s(test,result)" % action
    nxt = "next_->%s(test,result)" % fn
    if len(stmts) != 2:
        raise TranslateError("TestPlugin::%s: expected two statements (own action, rest of the chain), found %r" % (fn, stmts))
    kinds = []
    guarded = None
    for s in stmts:
        s = s.rstrip(";")
        if s == nxt:
            kinds.append("next")
        elif s == own_guarded or s == "if(enabled_){%s;}" % own_plain:
            kinds.append("self"); guarded = True
        elif s == own_plain:
            kinds.append("self"); guarded = False
        else:
            raise TranslateError("TestPlugin::%s: statement not understood: %s" % (fn, s))
    if sorted(kinds) != ["next", "self"]:
        raise TranslateError("TestPlugin::%s: own action / rest of the chain not both present: %r" % (fn, kinds))
    return (".selfThenNext" if kinds[0] == "self" else ".nextThenSelf"), ("true" if guarded else "false")


def extract():
    tplugin = strip_comments(read(TPLUGIN))
    registry = strip_comments(read(REGISTRY))
    runner = strip_comments(read(RUNNER))
    mockp = strip_comments(read(MOCKPLUGIN))
    runner_h = read(RUNNER_H)

    pre_order, pre_guard = chain_walk(tplugin, "runAllPreTestAction", "preTestAction")
    post_order, post_guard = chain_walk(tplugin, "runAllPostTestAction", "postTestAction")
    for fn in ("runAllPreTestAction", "runAllPostTestAction"):
        b = norm(function_body(tplugin, r"void\s+NullTestPlugin::%s\s*\([^)]*\)\s*\{" % fn))
        if b != "":
            raise TranslateError("NullTestPlugin::%s is no longer empty: %s" % (fn, b[:100]))

    b = norm(function_body(registry, r"void\s+TestRegistry::installPlugin\s*\([^)]*\)\s*\{"))
    a = norm(function_body(tplugin, r"TestPlugin\s*\*\s*TestPlugin::addPlugin\s*\([^)]*\)\s*\{"))
    if b == "firstPlugin_=plugin->addPlugin(firstPlugin_);" and a == "next_=plugin;returnthis;":
        install_at = ".head"
    else:
        raise TranslateError("installPlugin / addPlugin changed shape: %s | %s" % (b[:160], a[:160]))
    b = norm(function_body(registry, r"TestRegistry::TestRegistry\s*\(\s*\)\s*:[^{]*\{"))
    m = re.search(r"TestRegistry::TestRegistry\s*\(\s*\)\s*:([^{]*)\{", registry)
    if not m or "firstPlugin_(NullTestPlugin::instance())" not in norm(m.group(1)):
        raise TranslateError("TestRegistry constructor no longer starts with the null plugin as the whole chain")
    # runOneTest hands the head of the chain to the shell
    if not re.search(r"test->runOneTest\(\s*firstPlugin_\s*,\s*result\s*\)", registry):
        raise TranslateError("TestRegistry::runAllTests no longer passes firstPlugin_ to runOneTest")

    # the runner: which plugins it installs itself, in which order
    names = dict(re.findall(r'#define\s+(DEF_PLUGIN_\w+)\s+"([^"]*)"', runner_h))
    b = norm(function_body(runner, r"int\s+CommandLineTestRunner::RunAllTests\s*\(\s*int\s+ac\s*,\s*const\s+char\s*\*\s*const\s*\*\s*av\s*\)\s*\{"))
    m = re.match(r"^intresult=0;ConsoleTestOutputbackupOutput;"
                 r"MemoryLeakWarningPluginmemLeakWarn\((\w+)\);"
                 r"memLeakWarn\.destroyGlobalDetectorAndTurnOffMemoryLeakDetectionInDestructor\(true\);"
                 r"TestRegistry::getCurrentRegistry\(\)->installPlugin\(&memLeakWarn\);"
                 r"\{CommandLineTestRunnerrunner\(ac,av,TestRegistry::getCurrentRegistry\(\)\);result=runner\.runAllTestsMain\(\);\}"
                 r"(?P<final>.*?)"
                 r"TestRegistry::getCurrentRegistry\(\)->removePluginByName\((\w+)\);returnresult;$", b)
    if not m:
        raise TranslateError("CommandLineTestRunner::RunAllTests changed shape: " + b[:400])
    if m.group(1) != m.group(3):
        raise TranslateError("RunAllTests removes another plugin (%s) than it installed (%s)" % (m.group(3), m.group(1)))
    leak_name = names.get(m.group(1))
    if leak_name is None:
        raise TranslateError("plugin name macro %s not found" % m.group(1))
    fin = m.group("final")
    mf = re.match(r"^if\(result==0\)\{backupOutput<<memLeakWarn\.FinalReport\((\d+)\);\}$", fin)
    mf2 = re.match(r"^backupOutput<<memLeakWarn\.FinalReport\((\d+)\);$", fin)
    if mf:
        final_only_passed, final_arg = "true", int(mf.group(1))
    elif mf2:
        final_only_passed, final_arg = "false", int(mf2.group(1))
    else:
        raise TranslateError("RunAllTests: final report statement not understood: " + fin[:200])
    b = norm(function_body(runner, r"int\s+CommandLineTestRunner::runAllTestsMain\s*\(\s*\)\s*\{"))
    m = re.match(r"^inttestResult=1;SetPointerPluginpPlugin\((\w+)\);registry_->installPlugin\(&pPlugin\);"
                 r"if\(parseArguments\(registry_->getFirstPlugin\(\)\)\)testResult=runAllTests\(\);"
                 r"registry_->removePluginByName\((\w+)\);returntestResult;$", b)
    if not m or m.group(1) != m.group(2):
        raise TranslateError("CommandLineTestRunner::runAllTestsMain changed shape: " + b[:300])
    sp_name = names.get(m.group(1))
    if sp_name is None:
        raise TranslateError("plugin name macro %s not found" % m.group(1))

    # how another plugin records a failure in its post action
    b = norm(function_body(mockp, r"void\s+failTest\s*\([^)]*\)\s*(?:CPPUTEST_OVERRIDE)?\s*\{"))
    if b == "result_.addFailure(failure);":
        style = ".addFailure"
    else:
        raise TranslateError("MockSupportPluginReporter::failTest changed shape: " + b[:200])
    b = norm(function_body(mockp, r"void\s+MockSupportPlugin::postTestAction\s*\([^)]*\)\s*\{"))
    if b != ("MockSupportPluginReporterreporter(test,result);mock().setMockFailureStandardReporter(&reporter);"
             "if(!test.hasFailed())mock().checkExpectations();mock().clear();"
             "mock().setMockFailureStandardReporter(NULLPTR);mock().removeAllComparatorsAndCopiers();"):
        raise TranslateError("MockSupportPlugin::postTestAction changed shape: " + b[:300])

    text = HEADER % ("translate/extract_leakchain.py", ", ".join([TPLUGIN, REGISTRY, RUNNER, MOCKPLUGIN]))
    text += "import CppUModel.Model.LeakChainSyntax\nnamespace Gen.LeakChain\nopen LeakPlugin\n\n"
    text += "/-- `TestPlugin::runAllPreTestAction`: statement order, and is the own action guarded by `enabled_` -/\n"
    text += "def preOrder : ChainOrder := %s\ndef preGuarded : Bool := %s\n" % (pre_order, pre_guard)
    text += "/-- `TestPlugin::runAllPostTestAction` -/\n"
    text += "def postOrder : ChainOrder := %s\ndef postGuarded : Bool := %s\n" % (post_order, post_guard)
    text += "/-- `TestRegistry::installPlugin` + `TestPlugin::addPlugin` -/\n"
    text += "def installAt : InstallAt := %s\n" % install_at
    text += ("/-- `CommandLineTestRunner::RunAllTests` / `runAllTestsMain`: plugins the runner installs itself, in installation order\n"
             "    (after everything `main()` installed) -/\n")
    text += 'def runnerInstalls : List String := ["%s", "%s"]\n' % (leak_name, sp_name)
    text += "/-- `RunAllTests`: the final report is asked for only when the run passed (`result == 0`), with this argument -/\n"
    text += "def finalReportOnlyIfPassed : Bool := %s\ndef finalReportArg : Nat := %d\n" % (final_only_passed, final_arg)
    text += "/-- `MockSupportPluginReporter::failTest` / the leak plugin's own verdict -/\n"
    text += "def pluginFailureStyle : FailureStyle := %s\n" % style
    text += "end Gen.LeakChain\n"
    return text


def run():
    text = extract()
    core.write_if_changed(os.path.join(core.LEAN, "CppUModel", "Gen", "LeakChainCode.lean"), text)
    return []
