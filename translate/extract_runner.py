"""Regenerates lean/CppUModel/Gen/RunnerConstants.lean for C01:

  * the length of the setjmp buffer array (src/Platforms/Gcc/UtestPlatform.cpp),
  * the expression of TestResult::isFailure (include/CppUTest/TestResult.h),
  * the verdict condition of TestOutput::printTestsEnded (src/CppUTest/TestOutput.cpp): the expression
    `const bool isFailure = ...;` that decides between "Errors (" and "OK (",
  * the return expression of CommandLineTestRunner::runAllTests,

and checks the shape of the loop-free functions the hand-written model mirrors
(PlatformSpecificSetJmp/LongJmp/RestoreJumpBuffer, the accumulation in the repeat loop,
TestResult::addFailure).  A changed shape raises TranslateError (handled like a broken obligation).
"""
import os, re
from .common import *

PLATFORM = "src/Platforms/Gcc/UtestPlatform.cpp"
RESULT_H = "include/CppUTest/TestResult.h"
RESULT_CPP = "src/CppUTest/TestResult.cpp"
RUNNER = "src/CppUTest/CommandLineTestRunner.cpp"
OUTPUT = "src/CppUTest/TestOutput.cpp"

# ------------------------------------------------------------------ a tiny C expression translator

TOKEN = re.compile(r"\s*(?:(\d+)[uUlL]*|([A-Za-z_][A-Za-z_0-9]*)|(\|\||&&|!=|==|<=|>=|[-+*/%<>!?:()]))")

GETTERS = {
    "getFailureCount": "failureCount", "getRunCount": "runCount", "getIgnoredCount": "ignoredCount",
    "getTestCount": "testCount", "getCheckCount": "checkCount", "getFilteredOutCount": "filteredOutCount",
}


def tokenize(expr):
    out, i = [], 0
    expr = expr.strip()
    while i < len(expr):
        m = TOKEN.match(expr, i)
        if not m:
            raise TranslateError("cannot tokenize expression at: " + expr[i:i + 20])
        if m.group(1) is not None:
            out.append(("num", m.group(1)))
        elif m.group(2) is not None:
            out.append(("id", m.group(2)))
        else:
            out.append(("op", m.group(3)))
        i = m.end()
    return out


class ExprTranslator:
    """C integer/boolean expression over size_t variables -> (Lean text, type) with type in {nat, bool, int}.
    Subset: identifiers from `variables`, TestResult getters, literals, + * (no subtraction: size_t wraps),
    comparisons, ! && ||, ?:, parentheses, and a top-level (int) cast."""

    def __init__(self, toks, variables):
        self.t, self.i, self.vars = toks, 0, variables

    def peek(self):
        return self.t[self.i] if self.i < len(self.t) else ("end", "")

    def next(self):
        tok = self.peek()
        self.i += 1
        return tok

    def expect(self, op):
        tok = self.next()
        if tok != ("op", op):
            raise TranslateError("expected `%s`, found `%s`" % (op, tok[1]))

    @staticmethod
    def as_bool(x):
        text, ty = x
        if ty == "bool":
            return text
        if ty == "nat":
            return "(%s != 0)" % text
        raise TranslateError("cannot use an int-cast value as a condition")

    @staticmethod
    def as_nat(x):
        text, ty = x
        if ty == "nat":
            return text
        raise TranslateError("arithmetic on a non-size_t value is outside the translated subset: " + text)

    def ternary(self):
        c = self.logor()
        if self.peek() == ("op", "?"):
            self.next()
            a = self.ternary()
            self.expect(":")
            b = self.ternary()
            if a[1] != b[1]:
                raise TranslateError("branches of ?: have different types")
            return ("(if %s then %s else %s)" % (self.as_bool(c), a[0], b[0]), a[1])
        return c

    def logor(self):
        x = self.logand()
        while self.peek() == ("op", "||"):
            self.next()
            y = self.logand()
            x = ("(%s || %s)" % (self.as_bool(x), self.as_bool(y)), "bool")
        return x

    def logand(self):
        x = self.equality()
        while self.peek() == ("op", "&&"):
            self.next()
            y = self.equality()
            x = ("(%s && %s)" % (self.as_bool(x), self.as_bool(y)), "bool")
        return x

    def equality(self):
        x = self.relational()
        while self.peek() in (("op", "=="), ("op", "!=")):
            op = self.next()[1]
            y = self.relational()
            if x[1] == "bool" and y[1] == "bool":
                x = ("(%s %s %s)" % (x[0], op, y[0]), "bool")
            else:
                x = ("(%s %s %s)" % (self.as_nat(x), op, self.as_nat(y)), "bool")
        return x

    def relational(self):
        x = self.additive()
        while self.peek() in (("op", "<"), ("op", ">"), ("op", "<="), ("op", ">=")):
            op = self.next()[1]
            y = self.additive()
            lean = {"<": "<", ">": ">", "<=": "≤", ">=": "≥"}[op]
            x = ("(decide (%s %s %s))" % (self.as_nat(x), lean, self.as_nat(y)), "bool")
        return x

    def additive(self):
        x = self.multiplicative()
        while self.peek() in (("op", "+"), ("op", "-")):
            op = self.next()[1]
            if op == "-":
                raise TranslateError("subtraction of size_t values is outside the translated subset")
            y = self.multiplicative()
            x = ("%s + %s" % (self.as_nat(x), self.as_nat(y)), "nat")
        return x

    def multiplicative(self):
        x = self.unary()
        while self.peek() in (("op", "*"), ("op", "/"), ("op", "%")):
            op = self.next()[1]
            y = self.unary()
            x = ("(%s %s %s)" % (self.as_nat(x), op, self.as_nat(y)), "nat")
        return x

    def unary(self):
        if self.peek() == ("op", "!"):
            self.next()
            x = self.unary()
            return ("(!%s)" % self.as_bool(x), "bool")
        if self.peek() == ("op", "(") and self.i + 2 < len(self.t) and self.t[self.i + 1][0] == "id" \
                and self.t[self.i + 1][1] in ("int", "size_t", "bool") and self.t[self.i + 2] == ("op", ")"):
            ty = self.t[self.i + 1][1]
            self.i += 3
            x = self.unary()
            if ty == "int":
                return ("castInt (%s)" % self.as_nat(x), "int")
            if ty == "bool":
                return (self.as_bool(x), "bool")
            return (self.as_nat(x), "nat")
        return self.primary()

    def primary(self):
        tok = self.next()
        if tok[0] == "num":
            return (tok[1], "nat")
        if tok == ("op", "("):
            x = self.ternary()
            self.expect(")")
            return ("(%s)" % x[0], x[1])
        if tok[0] == "id":
            name = tok[1]
            if self.peek() == ("op", "("):
                self.next()
                self.expect(")")
                if name == "isFailure":
                    return ("(isFailure failureCount runCount ignoredCount)", "bool")
                if name not in GETTERS:
                    raise TranslateError("call of `%s()` is outside the translated subset" % name)
                name = GETTERS[name]
            if name in ("true", "false"):
                return (name, "bool")
            if name not in self.vars:
                raise TranslateError("unknown identifier `%s` in the translated expression" % name)
            return (name, "nat")
        raise TranslateError("unexpected token `%s`" % tok[1])


def translate_expr(expr, variables):
    tr = ExprTranslator(tokenize(expr), variables)
    x = tr.ternary()
    if tr.peek()[0] != "end":
        raise TranslateError("trailing tokens in expression: " + expr)
    return x


def norm(s):
    return re.sub(r"\s+", "", s)


def single_return(body, what):
    b = body.strip()
    m = re.fullmatch(r"return\s+(.*?);", b, re.S)
    if not m:
        raise TranslateError("%s is not a single return statement: %s" % (what, norm(b)[:120]))
    return m.group(1)


def extract():
    plat = strip_comments(read(PLATFORM))
    m = re.search(r"static\s+jmp_buf\s+test_exit_jmp_buf\s*\[\s*(\d+)\s*\]\s*;", plat)
    if not m:
        raise TranslateError("static jmp_buf test_exit_jmp_buf[N] not found")
    buflen = int(m.group(1))
    if not re.search(r"static\s+int\s+jmp_buf_index\s*=\s*0\s*;", plat):
        raise TranslateError("`static int jmp_buf_index = 0;` not found")

    # the three platform functions the model mirrors statement by statement
    want = {
        r"static\s+int\s+PlatformSpecificSetJmpImplementation\s*\([^)]*\)\s*\([^)]*\)\s*,\s*void\s*\*\s*data\s*\)\s*\{":
            "if(0==setjmp(test_exit_jmp_buf[jmp_buf_index])){jmp_buf_index++;function(data);jmp_buf_index--;return1;}return0;",
        r"static\s+void\s+PlatformSpecificLongJmpImplementation\s*\(\s*\)\s*\{":
            "jmp_buf_index--;longjmp(test_exit_jmp_buf[jmp_buf_index],1);",
        r"static\s+void\s+PlatformSpecificRestoreJumpBufferImplementation\s*\(\s*\)\s*\{":
            "jmp_buf_index--;",
    }
    for sig, shape in want.items():
        body = function_body(plat, sig)
        if norm(body) != shape:
            raise TranslateError("shape of %s changed: %s" % (sig.split(r"\s+")[2][:45], norm(body)[:160]))

    hdr = strip_comments(read(RESULT_H))
    body = function_body(hdr, r"bool\s+isFailure\s*\(\s*\)\s*const\s*\{")
    is_failure_c = single_return(body, "TestResult::isFailure")
    isf = translate_expr(is_failure_c, {"failureCount", "runCount", "ignoredCount"})
    isf_text = ExprTranslator.as_bool(isf)

    rcpp = strip_comments(read(RESULT_CPP))
    body = function_body(rcpp, r"void\s+TestResult::addFailure\s*\(\s*const\s+TestFailure\s*&\s*failure\s*\)\s*\{")
    if norm(body) != "output_.printFailure(failure);failureCount_++;":
        raise TranslateError("shape of TestResult::addFailure changed: " + norm(body)[:160])

    # TestOutput::printTestsEnded: the verdict condition is regenerated, the rest is shape-checked
    outp = strip_comments(read(OUTPUT))
    body = function_body(outp, r"void\s+TestOutput::printTestsEnded\s*\(\s*const\s+TestResult\s*&\s*result\s*\)\s*\{")
    m = re.search(r"const\s+bool\s+isFailure\s*=\s*([^;]*);", body)
    if not m:
        raise TranslateError("`const bool isFailure = ...;` not found in TestOutput::printTestsEnded")
    verdict_c = m.group(1)
    verdict_src = re.sub(r"\bresult\s*\.\s*", "", verdict_c)
    verdict = translate_expr(verdict_src, {"failureCount", "runCount", "ignoredCount"})
    verdict_text = ExprTranslator.as_bool(verdict)
    rest = body[:m.start()] + "@VERDICT@" + body[m.end():]
    rest = re.sub(r"const\s+size_t\s+failureCount\s*=\s*result\.getFailureCount\(\)\s*;", "@FC@", rest)
    want_rest = ('print("\\n");@A@@B@if(isFailure){if(color_){print("\\033[31;1m");}print("Errors(");if(failureCount>0){print(failureCount);'
                 'print("failures,");}else{print("rannothing,");}}else{if(color_){print("\\033[32;1m");}print("OK(");}'
                 'print(result.getTestCount());print("tests,");print(result.getRunCount());print("ran,");'
                 'print(result.getCheckCount());print("checks,");print(result.getIgnoredCount());print("ignored,");'
                 'print(result.getFilteredOutCount());print("filteredout,");print(result.getTotalExecutionTime());print("ms)");'
                 'if(color_){print("\\033[m");}if(isFailure&&failureCount==0){print("\\nNote:testrunfailedbecausenotestswererunorignored.'
                 'Assumingsomethingwentwrong.""Thisoftenhappensbecauseoflinkingerrorsortyposintestfilter.");}print("\\n\\n");dotCount_=0;')
    got = norm(rest)
    ok_shapes = [want_rest.replace("@A@", "@VERDICT@").replace("@B@", "@FC@"),
                 want_rest.replace("@A@", "@FC@").replace("@B@", "@VERDICT@")]
    if got not in ok_shapes:
        raise TranslateError("shape of TestOutput::printTestsEnded changed: " + got[:400])

    run = strip_comments(read(RUNNER))
    body = function_body(run, r"int\s+CommandLineTestRunner::runAllTests\s*\(\s*\)\s*\{")
    rets = re.findall(r"return\s+([^;]*);", body)
    if not rets:
        raise TranslateError("no return statement in CommandLineTestRunner::runAllTests")
    ret_c = rets[-1]
    ret = translate_expr(ret_c, {"failedTestCount", "failedExecutionCount"})
    if ret[1] == "nat":
        # implicit conversion of the size_t value to the int return type
        ret = ("castInt (%s)" % ret[0], "int")
    if ret[1] != "int":
        raise TranslateError("return expression of runAllTests is not an integer: " + ret_c)
    loop = re.search(r"while\s*\(\s*loopCount\+\+\s*<\s*repeatCount\s*\)\s*\{(.*)\}\s*return", body, re.S)
    if not loop:
        raise TranslateError("repeat loop `while (loopCount++ < repeatCount)` not found")
    tail = norm(loop.group(1))
    wanted_tail = ("output_->printTestRun(loopCount,repeatCount);TestResulttr(*output_);registry_->runAllTests(tr);"
                   "failedTestCount+=tr.getFailureCount();if(tr.isFailure()){failedExecutionCount++;}")
    if not tail.endswith(wanted_tail):
        raise TranslateError("shape of the repeat loop body changed: " + tail[-200:])
    for var in ("failedTestCount", "failedExecutionCount"):
        if not re.search(r"size_t\s+%s\s*=\s*0\s*;" % var, body):
            raise TranslateError("`size_t %s = 0;` not found" % var)

    text = HEADER % ("translate/extract_runner.py", ", ".join([PLATFORM, RESULT_H, OUTPUT, RUNNER]))
    text += "namespace Gen.Runner\n"
    text += "/-- `static jmp_buf test_exit_jmp_buf[N]` -/\n"
    text += "def jmpBufLen : Nat := %d\n" % buflen
    text += "/-- `(int) x` for a `size_t` x on LP64: reduce modulo 2^32, read as two's complement -/\n"
    text += "def castInt (n : Nat) : Int :=\n"
    text += "  if n % 4294967296 < 2147483648 then Int.ofNat (n % 4294967296) else Int.ofNat (n % 4294967296) - 4294967296\n"
    text += "/-- `TestResult::isFailure`: return %s; -/\n" % " ".join(is_failure_c.split())
    text += "def isFailure (failureCount runCount ignoredCount : Nat) : Bool :=\n  %s\n" % isf_text
    text += "/-- `TestOutput::printTestsEnded`: const bool isFailure = %s; -/\n" % " ".join(verdict_c.split())
    text += "def summaryIsFailure (failureCount runCount ignoredCount : Nat) : Bool :=\n  %s\n" % verdict_text
    text += "/-- `CommandLineTestRunner::runAllTests`: return %s; -/\n" % " ".join(ret_c.split())
    text += "def returnValue (failedTestCount failedExecutionCount : Nat) : Int :=\n  %s\n" % ret[0]
    text += "end Gen.Runner\n"
    return text


def run():
    text = extract()
    core.write_if_changed(os.path.join(core.LEAN, "CppUModel", "Gen", "RunnerConstants.lean"), text)
    return []


if __name__ == "__main__":
    print(extract())
