"""Regenerates lean/CppUModel/Gen/CMockWiring.lean from include/CppUTestExt/MockSupport_c.h,
src/CppUTestExt/MockSupport_c.cpp (the C layer) and the return-value getters of
src/CppUTestExt/MockSupport.cpp / MockActualCall.cpp / MockFailure.cpp (the C++ side the C layer must equal).

Extracted:
  (a) field order of the three function-table structs of the header;
  (b) the positional initialisers of gExpectedCall / gActualCall / gMockSupport;
  (c) for every forwarder: parameters (name, type), the static pointer it calls through, the C++ method, how every
      argument is converted, where the returned chain object is stored, the result conversion; `...OrDefault`
      forwarders: which `has` and which getter forwarder they combine;
  (d) mock_c / mock_scope_c, installComparator_c / installCopier_c / removeAllComparatorsAndCopiers_c;
  (e) the branch chain of getMockValueCFromNamedValue (type string -> enum constant, union member, getter, conversion),
      the enum order and the union members of MockValue_c;
  (f) the adaptor nodes and the C failure reporter / terminator, and MockFailureReporter::failTest for comparison;
  (g) the shapes of the C++ getters (MockSupport::xReturnValue, MockCheckedActualCall::returnXValue, ...OrDefault);
  (h) the statement order of MockSupport::actualCall(name) (previous call finished and deleted / enabled_ test / tracing_
      test / callIsIgnored test / new checked call) and the body of createActualCall.
A body that matches none of the known shapes is emitted as `.other "<text>"` (the proof obligation `wiring_correct`
then fails and the differential harness looks for a concrete failing scenario); a structure that cannot be found at
all raises TranslateError."""
import os, re
from .common import *

HDR = "include/CppUTestExt/MockSupport_c.h"
SRC = "src/CppUTestExt/MockSupport_c.cpp"
CPP_SUP = "src/CppUTestExt/MockSupport.cpp"
CPP_ACT = "src/CppUTestExt/MockActualCall.cpp"
CPP_FAIL = "src/CppUTestExt/MockFailure.cpp"

TYPES = {
    "int": "int", "unsigned int": "uint", "unsigned": "uint", "long int": "long", "unsigned long int": "ulong",
    "cpputest_longlong": "llong", "cpputest_ulonglong": "ullong", "double": "double", "const char*": "string",
    "void*": "ptr", "const void*": "cptr", "void (*)()": "fptr", "const unsigned char*": "membuf", "size_t": "size",
    "bool": "bool", "MockTypeEqualFunction_c": "equalfn", "MockTypeValueToStringFunction_c": "tostringfn",
    "MockTypeCopyFunction_c": "copyfn", "long": "long", "unsigned long": "ulong",
}


def select_long_long(src):
    """keep the CPPUTEST_USE_LONG_LONG branch of the conditionals (the checked build defines it to 1)"""
    out, stack = [], []
    for line in src.split("\n"):
        s = line.strip()
        if re.match(r"#\s*if\s+CPPUTEST_USE_LONG_LONG\b", s):
            stack.append(["ll", True]); out.append(""); continue
        if re.match(r"#\s*(if|ifdef|ifndef)\b", s):
            stack.append(["other", True]); out.append(""); continue
        if re.match(r"#\s*else\b", s) and stack:
            if stack[-1][0] == "ll":
                stack[-1][1] = False
            out.append(""); continue
        if re.match(r"#\s*endif\b", s) and stack:
            stack.pop(); out.append(""); continue
        out.append(line if all(a for _, a in stack) else "")
    return "\n".join(out)


def norm(text):
    """whitespace-insensitive form of a piece of code; string literals are left alone"""
    parts = re.split(r'("(?:[^"\\]|\\.)*")', text)
    out = []
    for i, p in enumerate(parts):
        if i % 2 == 1:
            out.append(p)
            continue
        t = re.sub(r"\s+", " ", p)
        t = re.sub(r"\s*(->|[(),;{}=&!?:<>])\s*", r"\1", t)
        out.append(t)
    return "".join(out).strip()


def lean_str(s):
    return '"' + s.replace("\\", "\\\\").replace('"', '\\"') + '"'


def balanced(src, i, open_c="(", close_c=")"):
    """src[i] is the opening bracket; returns index of the matching closing bracket"""
    depth = 0
    for j in range(i, len(src)):
        if src[j] == open_c:
            depth += 1
        elif src[j] == close_c:
            depth -= 1
            if depth == 0:
                return j
    raise TranslateError("unbalanced brackets")


def definitions(src, name_regex):
    """all function definitions whose (qualified) name matches: list of (name, params text, body text)"""
    out = []
    for m in re.finditer(r"(?<![\w:>.])(" + name_regex + r")\s*\(", src):
        i = m.end() - 1
        try:
            j = balanced(src, i)
        except TranslateError:
            continue
        mm = re.compile(r"\s*(\)\s*\(\s*(void)?\s*\))?\s*(const\s*)?(CPPUTEST_OVERRIDE\s*)?").match(src, j + 1)
        k = mm.end()
        if k < len(src) and src[k] == "{":
            e = balanced(src, k, "{", "}")
            out.append((m.group(1), src[i + 1:j], src[k + 1:e]))
    return out


def split_top(text, sep=","):
    parts, depth, cur = [], 0, ""
    for c in text:
        if c in "([{":
            depth += 1
        elif c in ")]}":
            depth -= 1
        if c == sep and depth == 0:
            parts.append(cur); cur = ""
        else:
            cur += c
    if cur.strip():
        parts.append(cur)
    return [p.strip() for p in parts]


def parse_param(p):
    p = re.sub(r"\s+", " ", p).strip()
    m = re.match(r"^void \(\s*\*\s*(\w+)\s*\)\s*\(\s*(void)?\s*\)$", p)
    if m:
        return m.group(1), "void (*)()"
    m = re.match(r"^(.*?)(\w+)$", p)
    if not m or not m.group(1).strip():
        raise TranslateError("cannot parse parameter: " + p)
    ty = m.group(1).strip()
    ty = re.sub(r"\s*\*", "*", ty)
    if "*" not in ty:
        ty = re.sub(r"^const ", "", ty)
    return m.group(2), ty


def short_type(ty):
    if ty not in TYPES:
        raise TranslateError("parameter type not in the type table: " + ty)
    return TYPES[ty]


PTRS = {"currentMockSupport": ".sup", "expectedCall": ".exp", "actualCall": ".act"}
TABLES = {"gMockSupport": ".sup", "gExpectedCall": ".exp", "gActualCall": ".act"}


def arg_expr(a, params):
    a = a.strip()
    if re.match(r"^\w+$", a) and a in params:
        return ".param %s %s" % (lean_str(a), lean_str(params[a]))
    m = re.match(r"^\(?\s*(\w+)\s*!=\s*0\s*\)?$", a) or re.match(r"^\(?\s*0\s*!=\s*(\w+)\s*\)?$", a)
    if m and m.group(1) in params:
        return ".neZero %s" % lean_str(m.group(1))
    m = re.match(r"^\(cpputest_cpp_function_pointer\)\s*(\w+)$", a)
    if m and m.group(1) in params and params[m.group(1)] == "fptr":
        return ".fnCast %s" % lean_str(m.group(1))
    m = re.match(r"^\*(comparatorList_|copierList_)$", a)
    if m:
        return ".newNode %s" % lean_str(m.group(1))
    return ".other %s" % lean_str(a)


def args_list(text, params):
    return "[" + ", ".join(arg_expr(a, params) for a in split_top(text)) + "]"


CALL = r"(currentMockSupport|expectedCall|actualCall)->(\w+)\((.*)\)"


def parse_body(name, body, params):
    b = norm(body)
    m = re.match(r"^(expectedCall|actualCall)=&" + CALL + r";return&(gExpectedCall|gActualCall|gMockSupport);$", b)
    if m:
        return ".chain %s %s %s %s %s" % (PTRS[m.group(1)], PTRS[m.group(2)], lean_str(m.group(3)),
                                          args_list(m.group(4), params), TABLES[m.group(5)])
    m = re.match(r"^" + CALL + r";$", b)
    if m and ";" not in m.group(3):
        return ".void_ %s %s %s" % (PTRS[m.group(1)], lean_str(m.group(2)), args_list(m.group(3), params))
    m = re.match(r"^if\(!(\w+)\(\)\)\{return defaultValue;\}return (\w+)\(\);$", b)
    if m:
        return ".orDefault %s %s" % (lean_str(m.group(1)), lean_str(m.group(2)))
    m = re.match(r"^return\b\s*(.*);$", b)
    if m and ";" not in m.group(1):
        e, post = m.group(1), ".id"
        mm = re.match(r"^(.*\))\s*\?\s*1\s*:\s*0$", e)
        if mm:
            e, post = mm.group(1), ".boolToInt"
        else:
            mm = re.match(r"^\(void\s*\(\*\)\(\)\)\s*(.*)$", e)
            if mm:
                e, post = mm.group(1), ".fnCastBack"
            else:
                mm = re.match(r"^getMockValueCFromNamedValue\((.*)\)$", e)
                if mm:
                    e, post = mm.group(1), ".toCValue"
        mm = re.match(r"^" + CALL + r"$", e)
        if mm:
            return ".ret %s %s %s %s" % (PTRS[mm.group(1)], lean_str(mm.group(2)), args_list(mm.group(3), params), post)
    m = re.match(r"^(comparatorList_|copierList_)=new (\w+)\(\1,(.*?)\);currentMockSupport->(\w+)\((.*)\);$", b)
    if m:
        return ".install %s %s %s %s %s" % (lean_str(m.group(1)), lean_str(m.group(2)), args_list(m.group(3), params),
                                            lean_str(m.group(4)), args_list(m.group(5), params))
    # the node-freeing loops are extracted structurally (`remove_all_loops`); here only the overall shape is required:
    # one or more brace-free `while (list) { ... }` loops, then the C++ call
    if re.match(r"^(?:while\(\w+\)\{[^{}]*\})+currentMockSupport->removeAllComparatorsAndCopiers\(\);$", b):
        return ".removeAll"
    m = re.match(r'^currentMockSupport=&mock\((""|\w+),&failureReporterForC\);return&gMockSupport;$', b)
    if m:
        return ".mock %s" % ("none" if m.group(1) == '""' else "(some %s)" % lean_str(m.group(1)))
    return ".other %s" % lean_str(b)


def struct_field_names(hdr, struct):
    m = re.search(r"struct\s+%s\s*\{(.*?)\n\};" % re.escape(struct), hdr, re.S)
    if not m:
        raise TranslateError("struct not found: " + struct)
    names = []
    for decl in m.group(1).split(";"):
        d = decl.strip()
        if not d:
            continue
        mm = re.search(r"\(\*\s*(\w+)\s*\)", d)
        if not mm:
            raise TranslateError("member of %s is not a function pointer: %s" % (struct, d))
        names.append(mm.group(1))
    return names


def initialiser(src, var):
    m = re.search(r"static\s+\w+\s+%s\s*=\s*\{(.*?)\};" % re.escape(var), src, re.S)
    if not m:
        raise TranslateError("initialiser not found: " + var)
    names = [n.strip() for n in m.group(1).split(",") if n.strip()]
    for n in names:
        if not re.match(r"^\w+$", n):
            raise TranslateError("initialiser of %s is not a list of function names: %s" % (var, n))
    return names


def value_tags(src):
    body = function_body(src, r"getMockValueCFromNamedValue\s*\(\s*const\s+MockNamedValue\s*&\s*namedValue\s*\)\s*\{")
    b = norm(body)
    if not b.startswith("MockValue_c returnValue;") or not b.endswith("return returnValue;"):
        raise TranslateError("getMockValueCFromNamedValue changed shape")
    b = b[len("MockValue_c returnValue;"):-len("return returnValue;")]
    rows = []
    pat = re.compile(r'^(?:else )?if\(SimpleString::StrCmp\(namedValue\.getType\(\)\.asCharString\(\),("(?:[^"\\]|\\.)*")\)==0\)'
                     r'\{returnValue\.type=(\w+);returnValue\.value\.(\w+)=([^;]*);\}')
    while True:
        m = pat.match(b)
        if not m:
            break
        rows.append((m.group(1), m.group(2), m.group(3), m.group(4)))
        b = b[m.end():]
    m = re.match(r"^else\{returnValue\.type=(\w+);returnValue\.value\.(\w+)=([^;]*);\}$", b)
    if not m or not rows:
        raise TranslateError("getMockValueCFromNamedValue: cannot parse the branch chain at: " + b[:120])
    rows.append((None, m.group(1), m.group(2), m.group(3)))
    out = []
    for ty, tag, member, expr in rows:
        post = ".id"
        mm = re.match(r"^namedValue\.(\w+)\(\)\s*\?\s*1\s*:\s*0$", expr)
        if mm:
            post = ".boolToInt"
        else:
            mm = re.match(r"^\(void\s*\(\*\)\(\)\)\s*namedValue\.(\w+)\(\)$", expr)
            if mm:
                post = ".fnCastBack"
            else:
                mm = re.match(r"^namedValue\.(\w+)\(\)$", expr)
        if mm:
            getter = mm.group(1)
        else:
            getter, post = "?", ".other %s" % lean_str(expr)
        out.append("{ type := %s, tag := %s, member := %s, getter := %s, post := %s }" % (
            "none" if ty is None else "some " + ty, lean_str(tag), lean_str(member), lean_str(getter), post))
    return out


def enum_and_union(hdr):
    m = re.search(r"typedef\s+enum\s*\{(.*?)\}\s*MockValueType_c\s*;", hdr, re.S)
    if not m:
        raise TranslateError("MockValueType_c not found")
    enum = [e.strip() for e in m.group(1).split(",") if e.strip()]
    for e in enum:
        if not re.match(r"^\w+$", e):
            raise TranslateError("enumerator with explicit value: " + e)
    m = re.search(r"union\s*\{(.*?)\}\s*value\s*;", hdr, re.S)
    if not m:
        raise TranslateError("union of MockValue_c not found")
    members = []
    for d in m.group(1).split(";"):
        d = re.sub(r"\s+", " ", d).strip()
        if not d:
            continue
        n, ty = parse_param(re.sub(r"\(\s*void\s*\)", "()", d))
        members.append((n, TYPES.get(ty, ty)))
    return enum, members


def getter_shapes(src, cls):
    """C++ return-value getters of `cls`: name -> shape"""
    out = []
    for name, params, body in definitions(src, re.escape(cls) + r"::\w+"):
        meth = name.split("::")[1]
        if not re.search(r"ReturnValue|return\w+Value", meth) or meth in ("returnValue", "hasReturnValue"):
            continue
        b = norm(body)
        m = re.match(r"^return returnValue\(\)\.(\w+)\(\);$", b)
        if m:
            out.append((meth, ".plain %s" % lean_str(m.group(1)))); continue
        m = re.match(r"^if\(hasReturnValue\(\)\)\{return (\w+)\(\);\}return (\w+);$", b) if cls == "MockSupport" else \
            re.match(r"^if\(!hasReturnValue\(\)\)\{return (\w+);\}return (\w+)\(\);$", b)
        if m:
            g = m.group(1) if cls == "MockSupport" else m.group(2)
            out.append((meth, ".orDefault %s" % lean_str(g))); continue
        out.append((meth, ".other %s" % lean_str(b)))
    if not out:
        raise TranslateError("no return-value getters found for " + cls)
    return out


def adaptor_call(src, method):
    """`virtual R method(params) CPPUTEST_OVERRIDE { [return] [wrap(] callee_(args) [)] [!= 0]; }` of an adaptor node:
    which parameter goes to which argument position of the wrapped C function"""
    m = re.search(r"virtual\s+[\w\s]+?\b%s\s*\(([^)]*)\)\s*CPPUTEST_OVERRIDE\s*\{" % method, src)
    if not m:
        raise TranslateError("adaptor method not found: " + method)
    params = [parse_param(p)[0] for p in split_top(m.group(1))]
    body = norm(function_body(src, r"virtual\s+[\w\s]+?\b%s\s*\([^)]*\)\s*CPPUTEST_OVERRIDE\s*\{" % method))
    mm = re.match(r"^(?:return\b\s*)?(?:(\w+)\()?(\w+_)\(([^()]*)\)\)?(!=0)?;$", body)
    if not mm:
        return "{ method := %s, callee := \"?\", order := [], wrap := %s }" % (lean_str(method), lean_str("other:" + body))
    wrap = (mm.group(1) or "") + (mm.group(4) or "")
    order = [str(params.index(a.strip())) if a.strip() in params else "99" for a in split_top(mm.group(3))]
    return "{ method := %s, callee := %s, order := [%s], wrap := %s }" % (
        lean_str(method), lean_str(mm.group(2)), ", ".join(order), lean_str(wrap))


def remove_all_loops(src):
    """the loops of removeAllComparatorsAndCopiers_c as statement lists (names of locals are not kept)"""
    body = norm(function_body(src, r"static\s+void\s+removeAllComparatorsAndCopiers_c\s*\(\s*\)\s*\{"))
    loops = []
    for m in re.finditer(r"while\((\w+)\)\{([^{}]*)\}", body):
        local, stmts = None, []
        for st in [x.strip() for x in m.group(2).split(";") if x.strip()]:
            mm = re.match(r"^\w+ ?\* ?(\w+)=(\w+)->(\w+)$", st)
            if mm:
                local = mm.group(1)
                stmts.append(".loadNext %s %s" % (lean_str(mm.group(2)), lean_str(mm.group(3)))); continue
            mm = re.match(r"^delete (\w+)$", st)
            if mm:
                stmts.append(".delete %s" % lean_str(mm.group(1))); continue
            mm = re.match(r"^(\w+)=(\w+)$", st)
            if mm and local is not None and mm.group(2) == local:
                stmts.append(".advance %s" % lean_str(mm.group(1))); continue
            stmts.append(".other %s" % lean_str(st))
        loops.append("{ cond := %s, body := [%s] }" % (lean_str(m.group(1)), ", ".join(stmts)))
    if not loops:
        raise TranslateError("removeAllComparatorsAndCopiers_c: no node-freeing loop found")
    return loops


def node_ctor(src, cls):
    """`cls(T1 p1, ...) : m1(e1), ... {}`: parameter names and member initialisers of an adaptor node class"""
    m = re.search(r"\b%s\s*\(([^)]*)\)\s*:\s*([^{}]*)\{\s*\}" % re.escape(cls), src)
    if not m:
        raise TranslateError("constructor with initialiser list not found: " + cls)
    params = [parse_param(p)[0] for p in split_top(m.group(1))]
    inits = []
    for i in split_top(m.group(2)):
        mm = re.match(r"^(\w+)\s*\((.*)\)$", i.strip(), re.S)
        if not mm:
            raise TranslateError("cannot parse member initialiser of %s: %s" % (cls, i))
        inits.append((mm.group(1), norm(mm.group(2))))
    return "{ cls := %s, params := [%s], inits := [%s] }" % (
        lean_str(cls), ", ".join(lean_str(p) for p in params),
        ", ".join("(%s, %s)" % (lean_str(a), lean_str(b)) for a, b in inits))


def list_heads(src):
    """`static Node* list_ = init;` of the two adaptor lists"""
    out = []
    for var in ("comparatorList_", "copierList_"):
        m = re.search(r"static\s+(\w+)\s*\*\s*%s\s*=\s*(\w+)\s*;" % var, src)
        if not m:
            raise TranslateError("definition of the list head not found: " + var)
        out.append("(%s, %s, %s)" % (lean_str(var), lean_str(m.group(1)), lean_str(m.group(2))))
    return out


def reporter_desc(cls, body):
    m = re.match(r"^if\((.*?)\)getTestToFail\(\)->(\w+)\(failure,(\w+)\((\w+)\)\);$", body)
    if not m or m.group(1).count("(") != m.group(1).count(")"):
        return "{ cls := %s, guard := \"?\", callee := \"?\", termClass := \"?\", termArg := %s }" % (lean_str(cls), lean_str("other:" + body))
    return "{ cls := %s, guard := %s, callee := %s, termClass := %s, termArg := %s }" % (
        lean_str(cls), lean_str(m.group(1)), lean_str(m.group(2)), lean_str(m.group(3)), lean_str(m.group(4)))


def term_desc(cls, body):
    m = re.match(r"^if\((\w+)\)(\w+)\(\);UtestShell::(\w+)\(\)\.exitCurrentTest\(\);$", body)
    if not m:
        return "{ cls := %s, crashGuard := \"?\", crashCall := \"?\", exitVia := %s }" % (lean_str(cls), lean_str("other:" + body))
    return "{ cls := %s, crashGuard := %s, crashCall := %s, exitVia := %s }" % (
        lean_str(cls), lean_str(m.group(1)), lean_str(m.group(2)), lean_str(m.group(3)))


def mock_call_desc(name, body):
    """`currentMockSupport = &mock(scope [, reporter]); return &gMockSupport;` — the reporter argument may be missing"""
    m = re.match(r"^currentMockSupport=&mock\(([^,()]*)(?:,([^()]*))?\);return&gMockSupport;$", norm(body))
    if not m:
        raise TranslateError("%s does not select a MockSupport with mock(...): %s" % (name, norm(body)))
    return "{ fwd := %s, scopeArg := %s, reporter := %s }" % (
        lean_str(name), lean_str(m.group(1)), "none" if m.group(2) is None else "some " + lean_str(m.group(2)))


def top_statements(body):
    """top-level statements of a normalised function body: split after `;` and after a closing `}` at depth 0"""
    out, depth, par, cur = [], 0, 0, ""
    for ch in body:
        cur += ch
        if ch == "(":
            par += 1
        elif ch == ")":
            par -= 1
        elif ch == "{":
            depth += 1
        elif ch == "}":
            depth -= 1
            if depth == 0 and par == 0:
                out.append(cur.strip()); cur = ""
        elif ch == ";" and depth == 0 and par == 0:
            out.append(cur.strip()); cur = ""
    if cur.strip():
        out.append(cur.strip())
    return out


AC_STEPS = [
    (r"^const SimpleString (\w+)=appendScopeToName\(functionName\);$", ".scopeName"),
    (r"^if\(lastActualFunctionCall_\)\{lastActualFunctionCall_->checkExpectations\(\);delete lastActualFunctionCall_;"
     r"lastActualFunctionCall_=NULLPTR;\}$", ".finishLast"),
    (r"^if\(!enabled_\)(?:\{)?return MockIgnoredActualCall::instance\(\);(?:\})?$", ".retIgnoredIfDisabled"),
    (r"^if\(tracing_\)(?:\{)?return MockActualCallTrace::instance\(\)\.withName\(\w+\);(?:\})?$", ".retTraceIfTracing"),
    (r"^if\(callIsIgnored\(\w+\)\)(?:\{)?return MockIgnoredActualCall::instance\(\);(?:\})?$", ".retIgnoredIfCallIgnored"),
    (r"^MockCheckedActualCall\* ?call=createActualCall\(\);$", ".createChecked"),
    (r"^call->withName\(\w+\);$", ".withName"),
    (r"^return \*call;$", ".retChecked"),
]


def actual_call_steps(sup):
    """MockSupport::actualCall(const SimpleString&) as the list of its top-level statements, in source order: where the
    previous actual call is finished and deleted relative to the `enabled_` / `tracing_` / callIsIgnored early returns"""
    body = method_body(sup, r"MockActualCall\s*&\s*MockSupport::actualCall\s*\(\s*const\s+SimpleString\s*&\s*functionName\s*\)\s*\{")
    steps = []
    for st in top_statements(body):
        for rx, con in AC_STEPS:
            if re.match(rx, st):
                steps.append(con); break
        else:
            steps.append(".other %s" % lean_str(st))
    if not steps:
        raise TranslateError("MockSupport::actualCall: empty body")
    return steps


def method_body(src, regex):
    return norm(function_body(src, regex))


def extract():
    hdr = strip_comments(select_long_long(read(HDR)))
    src = strip_comments(select_long_long(read(SRC)))
    sup = strip_comments(select_long_long(read(CPP_SUP)))
    act = strip_comments(select_long_long(read(CPP_ACT)))
    fail = strip_comments(read(CPP_FAIL))

    fields = {k: struct_field_names(hdr, s) for k, s in
              (("expected", "SMockExpectedCall_c"), ("actual", "SMockActualCall_c"), ("support", "SMockSupport_c"))}
    inits = {k: initialiser(src, v) for k, v in
             (("expected", "gExpectedCall"), ("actual", "gActualCall"), ("support", "gMockSupport"))}

    wanted = []
    for k in ("expected", "actual", "support"):
        for n in inits[k]:
            if n not in wanted:
                wanted.append(n)
    wanted += ["mock_c", "mock_scope_c"]
    # forwarders called by the ...OrDefault forwarders must be described too
    defs = {}
    for name, params, body in definitions(src, r"\w+_c"):
        defs.setdefault(name, (params, body))
    fwd_lines = []
    for n in wanted:
        if n not in defs:
            raise TranslateError("definition of forwarder not found: " + n)
        ptext, body = defs[n]
        plist = []
        ptext = ptext.strip()
        if ptext and ptext != "void":
            for p in split_top(ptext):
                pn, pt = parse_param(p)
                plist.append((pn, short_type(pt)))
        params = dict(plist)
        fwd_lines.append("  { name := %s, params := [%s], body := %s }" % (
            lean_str(n), ", ".join("(%s, %s)" % (lean_str(a), lean_str(b)) for a, b in plist), parse_body(n, body, params)))

    tags = value_tags(src)
    enum, members = enum_and_union(hdr)

    shapes = {
        "comparatorIsEqual": method_body(src, r"virtual\s+bool\s+isEqual\s*\([^)]*\)\s*CPPUTEST_OVERRIDE\s*\{"),
        "comparatorValueToString": method_body(src, r"virtual\s+SimpleString\s+valueToString\s*\([^)]*\)\s*CPPUTEST_OVERRIDE\s*\{"),
        "copierCopy": method_body(src, r"virtual\s+void\s+copy\s*\([^)]*\)\s*CPPUTEST_OVERRIDE\s*\{"),
        "cReporterFailTest": method_body(src, r"void\s+failTest\s*\(\s*const\s+MockFailure\s*&\s*failure\s*\)\s*CPPUTEST_OVERRIDE\s*\{"),
        "cTerminatorExit": method_body(src, r"virtual\s+void\s+exitCurrentTest\s*\(\s*\)\s*const\s+CPPUTEST_OVERRIDE\s*\{"),
        "cppReporterFailTest": method_body(fail, r"void\s+MockFailureReporter::failTest\s*\(\s*const\s+MockFailure\s*&\s*failure\s*\)\s*\{"),
        "cppTerminatorExit": method_body(fail, r"virtual\s+void\s+exitCurrentTest\s*\(\s*\)\s*const\s+CPPUTEST_OVERRIDE\s*\{"),
        "supReturnValue": method_body(sup, r"MockNamedValue\s+MockSupport::returnValue\s*\(\s*\)\s*\{"),
        "supHasReturnValue": method_body(sup, r"bool\s+MockSupport::hasReturnValue\s*\(\s*\)\s*\{"),
        "actReturnValue": method_body(act, r"MockNamedValue\s+MockCheckedActualCall::returnValue\s*\(\s*\)\s*\{"),
        "actHasReturnValue": method_body(act, r"bool\s+MockCheckedActualCall::hasReturnValue\s*\(\s*\)\s*\{"),
    }

    t = HEADER % ("translate/extract_cmock.py", HDR + ", " + SRC + ", " + CPP_SUP + ", " + CPP_ACT + ", " + CPP_FAIL)
    t += "import CppUModel.Model.MockCTypes\nnamespace Gen.CMock\nopen MockC\n\n"
    for k in ("expected", "actual", "support"):
        t += "/-- member order of the %s function table struct in MockSupport_c.h -/\n" % k
        t += "def %sFields : List String := [\n  %s]\n" % (k, ", ".join(lean_str(f) for f in fields[k]))
        t += "/-- positional initialiser of the %s table in MockSupport_c.cpp -/\n" % k
        t += "def %sInit : List String := [\n  %s]\n\n" % (k, ", ".join(lean_str(f) for f in inits[k]))
    t += "def forwarders : List Fwd := [\n" + ",\n".join(fwd_lines) + "]\n\n"
    t += "/-- branch chain of getMockValueCFromNamedValue, in source order (`type := none` is the final else) -/\n"
    t += "def valueTags : List TagRow := [\n  " + ",\n  ".join(tags) + "]\n\n"
    t += "def enumOrder : List String := [%s]\n" % ", ".join(lean_str(e) for e in enum)
    t += "def unionMembers : List (String × String) := [%s]\n\n" % ", ".join("(%s, %s)" % (lean_str(a), lean_str(b)) for a, b in members)
    t += "/-- C++ return-value getters of MockSupport (MockSupport.cpp) -/\n"
    t += "def supGetters : List (String × GetterShape) := [\n  %s]\n" % ",\n  ".join(
        "(%s, %s)" % (lean_str(a), b) for a, b in getter_shapes(sup, "MockSupport"))
    t += "/-- C++ return-value getters of MockCheckedActualCall (MockActualCall.cpp) -/\n"
    t += "def actGetters : List (String × GetterShape) := [\n  %s]\n\n" % ",\n  ".join(
        "(%s, %s)" % (lean_str(a), b) for a, b in getter_shapes(act, "MockCheckedActualCall"))
    t += "/-- operand order of the adaptor nodes: which parameter of the C++ virtual goes to which argument of the C function -/\n"
    t += "def adaptors : List AdaptorCall := [\n  %s]\n\n" % ",\n  ".join(adaptor_call(src, m) for m in ("isEqual", "valueToString", "copy"))
    t += "/-- the node-freeing loops of removeAllComparatorsAndCopiers_c, in source order -/\n"
    t += "def removeAllLoops : List NLoop := [\n  %s]\n" % ",\n  ".join(remove_all_loops(src))
    t += "/-- constructors of the two adaptor node classes -/\n"
    t += "def nodeCtors : List NodeCtor := [\n  %s]\n" % ",\n  ".join(
        node_ctor(src, c) for c in ("MockCFunctionComparatorNode", "MockCFunctionCopierNode"))
    t += "/-- the two list heads: (variable, node class, initial value) -/\n"
    t += "def listHeads : List (String × String × String) := [%s]\n\n" % ", ".join(list_heads(src))
    t += "/-- how mock_c / mock_scope_c select the MockSupport: scope argument and failure reporter argument -/\n"
    t += "def mockCalls : List MockCallDesc := [\n  %s]\n" % ",\n  ".join(mock_call_desc(n, defs[n][1]) for n in ("mock_c", "mock_scope_c"))
    t += "/-- MockSupport::actualCall(name) (MockSupport.cpp): its top-level statements in source order -/\n"
    t += "def actualCallSteps : List ACStep := [%s]\n" % ", ".join(actual_call_steps(sup))
    t += "/-- MockSupport::createActualCall (what `.createChecked` does to lastActualFunctionCall_) -/\n"
    t += "def createActualCallBody : String := %s\n" % lean_str(method_body(
        sup, r"MockCheckedActualCall\s*\*\s*MockSupport::createActualCall\s*\(\s*\)\s*\{"))
    t += "/-- failTest of the C failure reporter and of the C++ MockFailureReporter -/\n"
    t += "def reporters : List ReporterDesc := [\n  %s]\n" % ",\n  ".join([
        reporter_desc("MockFailureReporterForInCOnlyCode", shapes["cReporterFailTest"]),
        reporter_desc("MockFailureReporter", shapes["cppReporterFailTest"])])
    t += "/-- exitCurrentTest of the two terminator classes -/\n"
    t += "def terminators : List TermDesc := [\n  %s]\n" % ",\n  ".join([
        term_desc("MockFailureReporterTestTerminatorForInCOnlyCode", shapes["cTerminatorExit"]),
        term_desc("MockFailureReporterTestTerminator", shapes["cppTerminatorExit"])])
    m_static = re.search(r"static\s+(\w+)\s+failureReporterForC\s*;", src)
    if not m_static:
        raise TranslateError("static failureReporterForC not found")
    t += "/-- class of the static `failureReporterForC` -/\n"
    t += "def cReporterClass : String := %s\n\n" % lean_str(m_static.group(1))
    t += "/-- normalised bodies of the adaptor nodes, the C failure reporter and what they are compared with -/\n"
    t += "def shapes : List (String × String) := [\n  %s]\n" % ",\n  ".join(
        "(%s, %s)" % (lean_str(k), lean_str(v)) for k, v in shapes.items())
    t += "end Gen.CMock\n"
    return t


def run():
    text = extract()
    core.write_if_changed(os.path.join(core.LEAN, "CppUModel", "Gen", "CMockWiring.lean"), text)
    return []
