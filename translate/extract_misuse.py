"""Regenerates lean/CppUModel/Gen/MisuseCode.lean (property C06) from the leak detector / allocator sources.

Translated into DATA that the Lean model INTERPRETS (lean/CppUModel/Model/Misuse.lean), statement by statement:
  * MemoryLeakDetector::checkForCorruption   -- the if / else-if chain (condition, negated?, action)
  * MemoryLeakDetector::deallocMemory        -- the statement list incl. the hasBeenDestroyed() guard and its body
  * MemoryLeakDetector::invalidateMemory     -- lookup, fill byte, length expression
  * the three report...Failure functions     -- message, where the allocation side of the text comes from
  * reportFailure                            -- order of the text parts and of the reporter call
  * addAllocationLocation / addDeallocationLocation -- printf format and argument list
  * enable/disableAllocationTypeChecking, the constructor's initial value
  * TestMemoryAllocator::isOfEqualType, hasBeenDestroyed (constructor / destructor / getter)
  * name strings of the three default allocators, of NullUnknownAllocator, of the TestMemoryAllocator default arguments
  * MemoryLeakAllocator::alloc_memory / free_memory (forwarders to the global detector)
  * CrashOnAllocationAllocator::alloc_memory, NullUnknownAllocator::alloc_memory / free_memory
Anything that does not have a form understood here raises TranslateError (reported like a broken obligation)."""
import os, re
from .common import *
from .extract_leakdetector import drop_disabled_branches

SRC = "src/CppUTest/MemoryLeakDetector.cpp"
HDR = "include/CppUTest/MemoryLeakDetector.h"
TMA = "src/CppUTest/TestMemoryAllocator.cpp"
TMH = "include/CppUTest/TestMemoryAllocator.h"
OUT = "MisuseCode.lean"

TOK = re.compile(r'"(?:\\.|[^"\\])*"|\'(?:\\.|[^\'\\])*\'|[A-Za-z_]\w*|0[xX][0-9a-fA-F]+|\d+|->|::|==|!=|<=|>=|&&|\|\||\+\+|--|\S')


def toks(text):
    return TOK.findall(text)


def ntext(text):
    """the text without white space, string literals kept as they are"""
    return "".join(toks(text))


def cstring(lit):
    """value of a C string literal"""
    if not (len(lit) >= 2 and lit[0] == '"' and lit[-1] == '"'):
        raise TranslateError("not a string literal: " + lit)
    out, i, s = [], 0, lit[1:-1]
    esc = {"n": "\n", "t": "\t", '"': '"', "\\": "\\", "'": "'", "0": "\0"}
    while i < len(s):
        if s[i] == "\\":
            if i + 1 >= len(s) or s[i + 1] not in esc:
                raise TranslateError("escape not understood in " + lit)
            out.append(esc[s[i + 1]]); i += 2
        else:
            out.append(s[i]); i += 1
    return "".join(out)


def lean_str(v):
    r = ""
    for c in v:
        if c == "\n": r += "\\n"
        elif c == "\t": r += "\\t"
        elif c == '"': r += '\\"'
        elif c == "\\": r += "\\\\"
        elif 32 <= ord(c) < 127: r += c
        else:
            raise TranslateError("character not representable: %r" % c)
    return '"' + r + '"'


def lean_bool(b):
    return "true" if b else "false"


# ---------------------------------------------------------------- a tiny statement parser (on the space-free text)

def match_paren(t, i):
    """t[i] == '(' ; index of the matching ')' (string literals are skipped)"""
    depth, j = 0, i
    while j < len(t):
        c = t[j]
        if c == '"':
            j += 1
            while j < len(t) and t[j] != '"':
                j += 2 if t[j] == "\\" else 1
        elif c == "(":
            depth += 1
        elif c == ")":
            depth -= 1
            if depth == 0:
                return j
        j += 1
    raise TranslateError("unbalanced parentheses in " + t[i:i + 60])


def parse_stmts(t):
    """list of statements: ('if', cond, then_stmts, else_stmts|None) | ('s', text-without-semicolon)"""
    out, i = [], 0
    while i < len(t):
        st, i = parse_stmt(t, i)
        out.append(st)
    return out


def parse_stmt(t, i):
    if t.startswith("{", i):
        depth, j = 0, i
        while j < len(t):
            if t[j] == '"':
                j += 1
                while j < len(t) and t[j] != '"':
                    j += 2 if t[j] == "\\" else 1
            elif t[j] == "{":
                depth += 1
            elif t[j] == "}":
                depth -= 1
                if depth == 0:
                    break
            j += 1
        if j >= len(t):
            raise TranslateError("unbalanced braces")
        return ("block", parse_stmts(t[i + 1:j])), j + 1
    if t.startswith("if(", i):
        j = match_paren(t, i + 2)
        cond = t[i + 3:j]
        then, k = parse_stmt(t, j + 1)
        els = None
        if t.startswith("else", k) and (t.startswith("elseif(", k) or t.startswith("else{", k) or not re.match(r"else\w", t[k:k + 5])):
            els, k = parse_stmt(t, k + 4)
        return ("if", cond, flat(then), flat(els) if els is not None else None), k
    j = i
    while j < len(t) and t[j] != ";":
        if t[j] == '"':
            j += 1
            while j < len(t) and t[j] != '"':
                j += 2 if t[j] == "\\" else 1
        elif t[j] == "(":
            j = match_paren(t, j)
        j += 1
    if j >= len(t):
        raise TranslateError("statement without ';': " + t[i:i + 60])
    return ("s", t[i:j]), j + 1


def flat(st):
    return st[1] if st[0] == "block" else [st]


def call_args(text, prefix):
    """arguments of `prefix(...)` when text is exactly that call"""
    if not (text.startswith(prefix + "(") and text.endswith(")") and match_paren(text, len(prefix)) == len(text) - 1):
        return None
    inner, args, depth, cur, i = text[len(prefix) + 1:-1], [], 0, "", 0
    while i < len(inner):
        c = inner[i]
        if c == '"':
            j = i + 1
            while j < len(inner) and inner[j] != '"':
                j += 2 if inner[j] == "\\" else 1
            cur += inner[i:j + 1]; i = j + 1; continue
        if c == "(": depth += 1
        if c == ")": depth -= 1
        if c == "," and depth == 0:
            args.append(cur); cur = ""
        else:
            cur += c
        i += 1
    if cur or args:
        args.append(cur)
    return args


# ---------------------------------------------------------------- the pieces

def check_chain(src):
    body = ntext(function_body(src, r"void\s+MemoryLeakDetector::checkForCorruption\s*\("))
    stmts = parse_stmts(body)
    if len(stmts) != 1 or stmts[0][0] != "if":
        raise TranslateError("checkForCorruption is not one if / else-if chain: " + body)
    atoms = {"matchingAllocation(node->allocator_->actualAllocator(),allocator->actualAllocator())": "matching",
             "validMemoryCorruptionInformation(node->memory_+node->size_)": "validGuard",
             "allocateNodesSeperately": "separate"}
    chain, st = [], stmts[0]
    while st is not None:
        if st[0] != "if":
            raise TranslateError("checkForCorruption: unconditional else branch: %r" % (st,))
        cond = st[1]
        neg = cond.startswith("!")
        if neg:
            cond = cond[1:]
        if cond.startswith("(") and match_paren(cond, 0) == len(cond) - 1:
            cond = cond[1:-1]
        if cond not in atoms:
            raise TranslateError("checkForCorruption: condition not understood: " + st[1])
        if len(st[2]) != 1 or st[2][0][0] != "s":
            raise TranslateError("checkForCorruption: branch is not one statement: %r" % (st[2],))
        chain.append((neg, atoms[cond], check_action(st[2][0][1])))
        els = st[3]
        if els is None:
            st = None
        elif len(els) == 1:
            st = els[0]
        else:
            raise TranslateError("checkForCorruption: else branch not understood: %r" % (els,))
    return chain


def check_action(s):
    for fn in ("reportAllocationDeallocationMismatchFailure", "reportMemoryCorruptionFailure"):
        a = call_args(s, "outputBuffer_." + fn)
        if a is not None:
            if a[:3] != ["node", "file", "line"] or a[4:] != ["reporter_"] or a[3] not in ("allocator->actualAllocator()", "allocator"):
                raise TranslateError("checkForCorruption: arguments of %s not understood: %r" % (fn, a))
            return ("report", fn, a[3] != "allocator")
    if s == "allocator->freeMemoryLeakNode((char*)node)":
        return ("freeNode",)
    raise TranslateError("checkForCorruption: action not understood: " + s)


def dealloc_stmts(src):
    body = ntext(function_body(src, r"void\s+MemoryLeakDetector::deallocMemory\s*\(\s*TestMemoryAllocator\s*\*\s*allocator\s*,\s*void\s*\*\s*memory\s*,\s*const\s+char\s*\*\s*file"))
    out = []
    for st in parse_stmts(body):
        if st[0] == "if" and st[1] in ("memory==NULLPTR", "!memory", "NULLPTR==memory") and st[2] == [("s", "return")] and st[3] is None:
            out.append("DStmt.returnIfNull")
        elif st == ("s", "MemoryLeakDetectorNode*node=memoryTable_.removeNode((char*)memory)"):
            out.append("DStmt.removeNode")
        elif st[0] == "if" and st[1] in ("node==NULLPTR", "!node", "NULLPTR==node") and st[3] is None:
            if len(st[2]) != 2 or st[2][1] != ("s", "return") or st[2][0][0] != "s":
                raise TranslateError("deallocMemory: missing-record branch not understood: %r" % (st[2],))
            a = call_args(st[2][0][1], "outputBuffer_.reportDeallocateNonAllocatedMemoryFailure")
            if a is None or a[:2] != ["file", "line"] or a[3:] != ["reporter_"] or a[2] not in ("allocator", "allocator->actualAllocator()"):
                raise TranslateError("deallocMemory: non-allocated report not understood: " + st[2][0][1])
            out.append('DStmt.ifMissingReportReturn "reportDeallocateNonAllocatedMemoryFailure" %s' % lean_bool(a[2] != "allocator"))
        elif st[0] == "if" and st[1] in ("!allocator->hasBeenDestroyed()", "allocator->hasBeenDestroyed()") and st[3] is None:
            inner, local = [], None
            for b in st[2]:
                mloc = re.fullmatch(r"(?:const)?size_t(?:const)?(\w+)=node->size_", b[1]) if b[0] == "s" else None
                if mloc:
                    local = mloc.group(1)          # whatever the local is called
                    inner.append("DBody.readSize")
                elif b == ("s", "checkForCorruption(node,file,line,allocator,allocatNodesSeperately)"):
                    inner.append("DBody.check")
                elif local and b == ("s", "allocator->free_memory((char*)memory,%s,file,line)" % local):
                    inner.append("DBody.freeMemory")
                else:
                    raise TranslateError("deallocMemory: statement under the hasBeenDestroyed guard not understood: %r" % (b,))
            out.append("DStmt.ifDestroyedIs %s [%s]" % (lean_bool(not st[1].startswith("!")), ", ".join(inner)))
        else:
            raise TranslateError("deallocMemory: statement not understood: %r" % (st,))
    return out


def invalidate(src):
    body = ntext(function_body(src, r"MemoryLeakDetector::invalidateMemory\s*\(\s*char\s*\*\s*memory\s*\)\s*\{"))
    sts = parse_stmts(body)
    if len(sts) != 2 or sts[0] != ("s", "MemoryLeakDetectorNode*node=memoryTable_.retrieveNode(memory)"):
        raise TranslateError("invalidateMemory: lookup not understood: " + body)
    st = sts[1]
    if not (st[0] == "if" and st[1] in ("node", "node!=NULLPTR") and st[3] is None and len(st[2]) == 1 and st[2][0][0] == "s"):
        raise TranslateError("invalidateMemory: guard not understood: " + body)
    a = call_args(st[2][0][1], "PlatformSpecificMemset")
    if a is None or len(a) != 3 or a[0] != "memory" or not re.fullmatch(r"0[xX][0-9a-fA-F]+|\d+", a[1]):
        raise TranslateError("invalidateMemory: memset not understood: " + st[2][0][1])
    m = re.fullmatch(r"node->size_(?:([+-])(\d+))?", a[2])
    if not m:
        raise TranslateError("invalidateMemory: length not understood: " + a[2])
    delta = int(m.group(2) or 0) * (-1 if m.group(1) == "-" else 1)
    return int(a[1], 0) & 0xFF, delta


def report_fns(src):
    out = []
    for fn in ("reportDeallocateNonAllocatedMemoryFailure", "reportAllocationDeallocationMismatchFailure", "reportMemoryCorruptionFailure"):
        m = re.search(r"void\s+MemoryLeakOutputStringBuffer::%s\s*\(([^)]*)\)\s*\{" % fn, src)
        if not m:
            raise TranslateError(fn + " not found")
        params = [p.strip().split()[-1].lstrip("*") for p in m.group(1).split(",")]
        body = ntext(function_body(src, r"void\s+MemoryLeakOutputStringBuffer::%s\s*\(" % fn))
        sts = parse_stmts(body)
        if len(sts) != 1 or sts[0][0] != "s":
            raise TranslateError(fn + ": body not understood: " + body)
        a = call_args(sts[0][1], "reportFailure")
        if a is None or len(a) != 9:
            raise TranslateError(fn + ": reportFailure call not understood: " + body)
        msg = cstring(a[0])
        if a[1:5] == ["node->file_", "node->line_", "node->size_", "node->allocator_"]:
            from_node = True
        elif a[1:5] == ['"<unknown>"', "0", "0", "NullUnknownAllocator::defaultAllocator()"]:
            from_node = False
        else:
            raise TranslateError(fn + ": allocation side of the report not understood: %r" % a[1:5])
        # the deallocation side: the function's own file / line / allocator / reporter parameters, in this order
        tail = params[-4:] if from_node else params
        if a[5:] != tail or len(tail) != 4:
            raise TranslateError(fn + ": deallocation side of the report not understood: %r vs parameters %r" % (a[5:], params))
        out.append((fn, msg, from_node))
    return out


def report_steps(src):
    body = ntext(function_body(src, r"void\s+MemoryLeakOutputStringBuffer::reportFailure\s*\("))
    names = {'outputBuffer_.add("%s",message)': "ReportStep.message",
             "addAllocationLocation(allocFile,allocLine,allocSize,allocAllocator)": "ReportStep.allocLocation",
             "addDeallocationLocation(freeFile,freeLine,freeAllocator)": "ReportStep.freeLocation",
             "reporter->fail(toString())": "ReportStep.fail"}
    out = []
    for st in parse_stmts(body):
        if st[0] != "s" or st[1] not in names:
            raise TranslateError("reportFailure: statement not understood: %r" % (st,))
        out.append(names[st[1]])
    return out


def location_format(src, fn, params, argmap):
    body = ntext(function_body(src, r"void\s+MemoryLeakOutputStringBuffer::%s\s*\(" % fn))
    sts = parse_stmts(body)
    if len(sts) != 1 or sts[0][0] != "s":
        raise TranslateError(fn + ": body not understood: " + body)
    a = call_args(sts[0][1], "outputBuffer_.add")
    if a is None or len(a) < 1:
        raise TranslateError(fn + ": not one outputBuffer_.add call: " + body)
    fmt = cstring(a[0])
    args = []
    for x in a[1:]:
        if x not in argmap:
            raise TranslateError("%s: argument not understood: %s" % (fn, x))
        args.append(argmap[x])
    specs = re.findall(r"%(?:lu|d|s|u|%)", fmt)
    if len(re.findall(r"%", fmt)) != len(specs) or "%%" in fmt:
        raise TranslateError("%s: conversion not understood in %r" % (fn, fmt))
    want = {"FArg.file": "%s", "FArg.lineInt": "%d", "FArg.sizeULong": "%lu", "FArg.allocName": "%s", "FArg.freeName": "%s"}
    if [want[x] for x in args] != specs:
        raise TranslateError("%s: conversions %r do not fit the arguments %r" % (fn, specs, args))
    return fmt, args


def type_checking(src):
    vals = {}
    for fn in ("enableAllocationTypeChecking", "disableAllocationTypeChecking"):
        body = ntext(function_body(src, r"void\s+MemoryLeakDetector::%s\s*\(\s*\)\s*\{" % fn))
        m = re.fullmatch(r"doAllocationTypeChecking_=(true|false);", body)
        if not m:
            raise TranslateError(fn + " changed shape: " + body)
        vals[fn] = m.group(1) == "true"
    body = ntext(function_body(src, r"MemoryLeakDetector::MemoryLeakDetector\s*\(\s*MemoryLeakFailure\s*\*\s*reporter\s*\)\s*\{"))
    m = re.search(r"doAllocationTypeChecking_=(true|false);", body)
    if not m:
        raise TranslateError("the constructor no longer initialises doAllocationTypeChecking_")
    return vals["enableAllocationTypeChecking"], vals["disableAllocationTypeChecking"], m.group(1) == "true"


def three_strings(text, what):
    a = [x for x in toks(text) if x.startswith('"')]
    if len(a) != 3:
        raise TranslateError("%s: three name strings expected, found %r" % (what, a))
    return tuple(cstring(x) for x in a)


def allocator_names(tma, tmh):
    out = {}
    for fn in ("defaultNewAllocator", "defaultNewArrayAllocator", "defaultMallocAllocator"):
        body = ntext(function_body(tma, r"TestMemoryAllocator\s*\*\s*%s\s*\(\s*\)\s*\{" % fn))
        m = re.fullmatch(r"staticTestMemoryAllocatorallocator\((.*)\);return&allocator;", body)
        if not m:
            raise TranslateError(fn + " changed shape: " + body)
        out[fn] = three_strings(m.group(1), fn)
    m = re.search(r"NullUnknownAllocator::NullUnknownAllocator\s*\(\s*\)\s*:\s*TestMemoryAllocator\s*\(([^)]*)\)\s*\{\s*\}", tma)
    if not m:
        raise TranslateError("NullUnknownAllocator constructor changed shape")
    out["nullUnknown"] = three_strings(m.group(1), "NullUnknownAllocator")
    m = re.search(r"\n\s*TestMemoryAllocator\s*\(\s*const\s+char\s*\*\s*name_str\s*=\s*(\"[^\"]*\")\s*,\s*const\s+char\s*\*\s*alloc_name_str\s*=\s*(\"[^\"]*\")\s*,"
                  r"\s*const\s+char\s*\*\s*free_name_str\s*=\s*(\"[^\"]*\")\s*\)\s*;", tmh)
    if not m:
        raise TranslateError("TestMemoryAllocator constructor declaration changed shape")
    out["generic"] = tuple(cstring(m.group(i)) for i in (1, 2, 3))
    if not re.search(r"CrashOnAllocationAllocator::CrashOnAllocationAllocator\s*\(\s*\)\s*:\s*allocationToCrashOn_\s*\(\s*0\s*\)", tma):
        raise TranslateError("CrashOnAllocationAllocator constructor changed shape")
    m = re.search(r"TestMemoryAllocator::TestMemoryAllocator\s*\([^)]*\)\s*:\s*name_\(name_str\)\s*,\s*alloc_name_\(alloc_name_str\)\s*,\s*free_name_\(free_name_str\)\s*,\s*hasBeenDestroyed_\((true|false)\)", tma)
    if not m:
        raise TranslateError("TestMemoryAllocator constructor changed shape")
    out["ctorDestroyed"] = m.group(1) == "true"
    for fn, member in (("name", "name_"), ("alloc_name", "alloc_name_"), ("free_name", "free_name_")):
        b = ntext(function_body(tma, r"const\s+char\s*\*\s*TestMemoryAllocator::%s\s*\(\s*\)\s*const\s*\{" % fn))
        if b != "return%s;" % member:
            raise TranslateError("TestMemoryAllocator::%s changed shape: %s" % (fn, b))
    for cls in ("MemoryLeakAllocator", "AccountingTestMemoryAllocator"):
        for fn in ("alloc_name", "free_name"):
            b = ntext(function_body(tma, r"const\s+char\s*\*\s*%s::%s\s*\(\s*\)\s*const\s*\{" % (cls, fn)))
            if b != "returnoriginalAllocator_->%s();" % fn:
                raise TranslateError("%s::%s changed shape: %s" % (cls, fn, b))
    b = ntext(function_body(tma, r"TestMemoryAllocator::~TestMemoryAllocator\s*\(\s*\)\s*\{"))
    m = re.fullmatch(r"hasBeenDestroyed_=(true|false);", b)
    if not m:
        raise TranslateError("~TestMemoryAllocator changed shape: " + b)
    out["dtorDestroyed"] = m.group(1) == "true"
    b = ntext(function_body(tma, r"bool\s+TestMemoryAllocator::hasBeenDestroyed\s*\(\s*\)\s*\{"))
    if b not in ("returnhasBeenDestroyed_;", "return!hasBeenDestroyed_;"):
        raise TranslateError("hasBeenDestroyed changed shape: " + b)
    out["getterNegates"] = "!" in b
    b = ntext(function_body(tma, r"bool\s+TestMemoryAllocator::isOfEqualType\s*\(\s*TestMemoryAllocator\s*\*\s*allocator\s*\)\s*\{"))
    m = re.fullmatch(r"returnSimpleString::StrCmp\((this->name\(\)|name\(\)),allocator->name\(\)\)(==|!=)0;", b) or \
        re.fullmatch(r"returnSimpleString::StrCmp\(allocator->name\(\),(this->name\(\)|name\(\))\)(==|!=)0;", b)
    if not m:
        raise TranslateError("isOfEqualType changed shape: " + b)
    out["equalTypeOp"] = m.group(2)
    return out


def forwarders(tma, hdr):
    m = re.search(r"void\s+deallocMemory\s*\(\s*TestMemoryAllocator\s*\*\s*allocator\s*,\s*void\s*\*\s*memory\s*,\s*const\s+char\s*\*\s*file\s*,\s*size_t\s+line\s*,\s*bool\s+allocatNodesSeperately\s*=\s*(true|false)\s*\)", hdr)
    m2 = re.search(r"char\s*\*\s*allocMemory\s*\(\s*TestMemoryAllocator\s*\*\s*allocator\s*,\s*size_t\s+size\s*,\s*const\s+char\s*\*\s*file\s*,\s*size_t\s+line\s*,\s*bool\s+allocatNodesSeperately\s*=\s*(true|false)\s*\)", hdr)
    if not m or not m2:
        raise TranslateError("default argument of allocMemory / deallocMemory not found")
    out = []
    b = ntext(function_body(tma, r"char\s*\*\s*MemoryLeakAllocator::alloc_memory\s*\("))
    a = call_args(b[len("return"):-1], "MemoryLeakWarningPlugin::getGlobalDetector()->allocMemory") if b.startswith("return") and b.endswith(";") else None
    if a not in (["originalAllocator_", "size", "file", "line"], ["originalAllocator_", "size"], ["this", "size", "file", "line"]):
        raise TranslateError("MemoryLeakAllocator::alloc_memory changed shape: " + b)
    out.append(("mlaAlloc", a[0] == "originalAllocator_", len(a) == 4, m2.group(1) == "true"))
    b = ntext(function_body(tma, r"void\s+MemoryLeakAllocator::free_memory\s*\("))
    a = call_args(b[:-1], "MemoryLeakWarningPlugin::getGlobalDetector()->deallocMemory") if b.endswith(";") else None
    if a not in (["originalAllocator_", "memory", "file", "line"], ["originalAllocator_", "memory"], ["this", "memory", "file", "line"]):
        raise TranslateError("MemoryLeakAllocator::free_memory changed shape: " + b)
    out.append(("mlaFree", a[0] == "originalAllocator_", len(a) == 4, m.group(1) == "true"))
    b = ntext(function_body(tma, r"char\s*\*\s*CrashOnAllocationAllocator::alloc_memory\s*\("))
    mm = re.fullmatch(r"if\(MemoryLeakWarningPlugin::getGlobalDetector\(\)->getCurrentAllocationNumber\(\)(==|!=|<|<=|>|>=)allocationToCrashOn_\)UT_CRASH\(\);returnTestMemoryAllocator::alloc_memory\(size,file,line\);", b)
    if not mm:
        raise TranslateError("CrashOnAllocationAllocator::alloc_memory changed shape: " + b)
    crash_op = mm.group(1)
    b = ntext(function_body(tma, r"char\s*\*\s*NullUnknownAllocator::alloc_memory\s*\("))
    if b != "returnNULLPTR;":
        raise TranslateError("NullUnknownAllocator::alloc_memory changed shape: " + b)
    b = ntext(function_body(tma, r"void\s+NullUnknownAllocator::free_memory\s*\("))
    if b != "":
        raise TranslateError("NullUnknownAllocator::free_memory changed shape: " + b)
    return out, crash_op


def extract():
    src = drop_disabled_branches(strip_comments(read(SRC)), "CPPUTEST_DISABLE_MEM_CORRUPTION_CHECK")
    src = drop_disabled_branches(src, "CPPUTEST_DISABLE_HEAP_POISON")
    hdr = strip_comments(read(HDR))
    tma = strip_comments(read(TMA))
    tmh = strip_comments(read(TMH))

    chain = check_chain(src)
    dst = dealloc_stmts(src)
    fill, delta = invalidate(src)
    rfns = report_fns(src)
    steps = report_steps(src)
    afmt, aargs = location_format(src, "addAllocationLocation", None,
                                  {"allocationFile": "FArg.file", "(int)allocationLineNumber": "FArg.lineInt",
                                   "(unsignedlong)allocationSize": "FArg.sizeULong", "allocator->alloc_name()": "FArg.allocName"})
    ffmt, fargs = location_format(src, "addDeallocationLocation", None,
                                  {"freeFile": "FArg.file", "(int)freeLineNumber": "FArg.lineInt", "allocator->free_name()": "FArg.freeName"})
    tc_on, tc_off, tc_init = type_checking(src)
    names = allocator_names(tma, tmh)
    fwd, crash_op = forwarders(tma, hdr)

    t = HEADER % ("translate/extract_misuse.py", ", ".join([SRC, HDR, TMA, TMH]))
    t += "namespace Gen.Misuse\n\n"
    t += "/-- conditions of `checkForCorruption`: `matchingAllocation(node->allocator_->actualAllocator(), allocator->actualAllocator())`,\n"
    t += "    `validMemoryCorruptionInformation(node->memory_ + node->size_)`, `allocateNodesSeperately` -/\n"
    t += "inductive CondAtom | matching | validGuard | separate\nderiving DecidableEq, Repr, Inhabited\n\n"
    t += "/-- `outputBuffer_.<fn>(node, file, line, allocator[->actualAllocator()], reporter_)` / `allocator->freeMemoryLeakNode((char*) node)` -/\n"
    t += "inductive Act\n  | report (fn : String) (freeActual : Bool)\n  | freeNode\nderiving DecidableEq, Repr, Inhabited\n\n"
    t += "structure Branch where\n  negated : Bool\n  atom : CondAtom\n  act : Act\nderiving DecidableEq, Repr, Inhabited\n\n"
    t += "/-- `MemoryLeakDetector::checkForCorruption`: the if / else-if chain in source order -/\n"
    t += "def checkChain : List Branch := [\n"
    rows = []
    for neg, atom, act in chain:
        a = "Act.freeNode" if act[0] == "freeNode" else 'Act.report "%s" %s' % (act[1], lean_bool(act[2]))
        rows.append("  { negated := %s, atom := CondAtom.%s, act := %s }" % (lean_bool(neg), atom, a))
    t += ",\n".join(rows) + "\n]\n\n"
    t += "/-- statements under the `hasBeenDestroyed()` guard of `deallocMemory` -/\n"
    t += "inductive DBody | readSize | check | freeMemory\nderiving DecidableEq, Repr, Inhabited\n\n"
    t += "/-- statements of `MemoryLeakDetector::deallocMemory(allocator, memory, file, line, allocatNodesSeperately)`;\n"
    t += "    `ifDestroyedIs v body` is `if (allocator->hasBeenDestroyed() == v) { body }` -/\n"
    t += "inductive DStmt\n  | returnIfNull\n  | removeNode\n  | ifMissingReportReturn (fn : String) (freeActual : Bool)\n  | ifDestroyedIs (v : Bool) (body : List DBody)\n"
    t += "deriving DecidableEq, Repr, Inhabited\n\n"
    t += "def deallocStmts : List DStmt := [\n" + ",\n".join("  " + s for s in dst) + "\n]\n\n"
    t += "/-- `invalidateMemory`: `node = retrieveNode(memory); if (node) PlatformSpecificMemset(memory, fill, node->size_ + delta)` -/\n"
    t += "def invalidateFill : UInt8 := 0x%02X\n" % fill
    t += "def invalidateLenDelta : Int := %d\n\n" % delta
    t += "/-- the three report functions: name, first line of the text, whether the allocation side of the text is the record's\n"
    t += "    (`node->file_, node->line_, node->size_, node->allocator_`) or `\"<unknown>\", 0, 0, NullUnknownAllocator` -/\n"
    t += "structure ReportFn where\n  name : String\n  message : String\n  allocFromNode : Bool\nderiving DecidableEq, Repr, Inhabited\n\n"
    t += "def reportFns : List ReportFn := [\n"
    t += ",\n".join('  { name := "%s", message := %s, allocFromNode := %s }' % (n, lean_str(m_), lean_bool(f)) for n, m_, f in rfns) + "\n]\n\n"
    t += "/-- `reportFailure`: its statements in source order -/\n"
    t += "inductive ReportStep | message | allocLocation | freeLocation | fail\nderiving DecidableEq, Repr, Inhabited\n\n"
    t += "def reportSteps : List ReportStep := [%s]\n\n" % ", ".join(steps)
    t += "/-- arguments of the two location lines -/\n"
    t += "inductive FArg | file | lineInt | sizeULong | allocName | freeName\nderiving DecidableEq, Repr, Inhabited\n\n"
    t += "/-- `addAllocationLocation` -/\ndef allocLocationFormat : String := %s\ndef allocLocationArgs : List FArg := [%s]\n" % (lean_str(afmt), ", ".join(aargs))
    t += "/-- `addDeallocationLocation` -/\ndef freeLocationFormat : String := %s\ndef freeLocationArgs : List FArg := [%s]\n\n" % (lean_str(ffmt), ", ".join(fargs))
    t += "/-- `doAllocationTypeChecking_` after `enableAllocationTypeChecking()`, after `disableAllocationTypeChecking()`, after the constructor -/\n"
    t += "def typeCheckingAfterEnable : Bool := %s\ndef typeCheckingAfterDisable : Bool := %s\ndef typeCheckingInitial : Bool := %s\n\n" % (
        lean_bool(tc_on), lean_bool(tc_off), lean_bool(tc_init))
    t += "/-- (name, alloc_name, free_name) of the allocator objects the library itself creates -/\n"
    for key, leanname in (("defaultNewAllocator", "defaultNewNames"), ("defaultNewArrayAllocator", "defaultNewArrayNames"),
                          ("defaultMallocAllocator", "defaultMallocNames"), ("nullUnknown", "nullUnknownNames"), ("generic", "genericNames")):
        t += "def %s : String × String × String := (%s, %s, %s)\n" % ((leanname,) + tuple(lean_str(x) for x in names[key]))
    t += "\n/-- `TestMemoryAllocator::isOfEqualType`: `StrCmp(this->name(), allocator->name()) == 0` -/\n"
    t += "def isOfEqualType (thisName otherName : String) : Bool := %s(thisName == otherName)\n\n" % ("" if names["equalTypeOp"] == "==" else "!")
    t += "/-- `hasBeenDestroyed()` of an allocator object after its constructor / after its destructor -/\n"
    t += "def destroyedAfterConstructor : Bool := %s\n" % lean_bool(names["ctorDestroyed"] != names["getterNegates"])
    t += "def destroyedAfterDestructor : Bool := %s\n\n" % lean_bool(names["dtorDestroyed"] != names["getterNegates"])
    t += "/-- `MemoryLeakAllocator::alloc_memory` / `free_memory`: forwards to the global detector with the wrapped allocator,\n"
    t += "    passes file/line, bookkeeping layout (the default argument of `allocMemory` / `deallocMemory`) -/\n"
    t += "structure Forwarder where\n  name : String\n  usesOriginal : Bool\n  withLocation : Bool\n  separateNode : Bool\nderiving DecidableEq, Repr, Inhabited\n\n"
    t += "def forwarders : List Forwarder := [\n"
    t += ",\n".join('  { name := "%s", usesOriginal := %s, withLocation := %s, separateNode := %s }' % (n, lean_bool(a), lean_bool(b), lean_bool(c)) for n, a, b, c in fwd)
    t += "\n]\n\n"
    t += "/-- `CrashOnAllocationAllocator::alloc_memory`: `if (globalDetector->getCurrentAllocationNumber() <op> allocationToCrashOn_) UT_CRASH();`\n"
    t += "    then the base class allocation -/\n"
    t += "def crashCompare : String := \"%s\"\n\n" % crash_op
    t += "end Gen.Misuse\n"
    return t


def run():
    text = extract()
    core.write_if_changed(os.path.join(core.LEAN, "CppUModel", "Gen", OUT), text)
    return []


if __name__ == "__main__":
    print(extract())
