"""Regenerates lean/CppUModel/Gen/PointerArray.lean (property C02) from the CURRENT source of
src/CppUTest/Utest.cpp on every check run.

Route: clang++-14 typed JSON AST of `UtestShellPointerArray::{swap, shuffle, reverse,
relinkTestsInOrder}` -> one Lean function per method, statement by statement, over the object
state `Registry.PA.St` and the primitives of lean/CppUModel/Model/PointerArrayRt.lean
(array read/write, `p->addTest(q)`, `PlatformSpecificSrand/Rand`, `for` loops with fuel, `return`,
method calls).  Props/C02.lean proves the generated functions EQUAL to the hand-written array model
(`swap`, `shuffleArr`, `reverseArr`, `relink`), so the permutation / exact-reverse / relink theorems
speak about the loops the source has at check time; the driver executes the generated functions in
the `shuffle` / `reverse` operations, so the translator itself is validated by the correspondence.

Translated subset (anything else raises TranslateError = "cannot translate", handled like a broken
obligation):
  statements   CompoundStmt; `if (c) return;`; `return;`; `size_t x = e;` (at most one
               `PlatformSpecificRand()` inside e); `UtestShell* p = arrayOfTests_[e];`;
               `UtestShell* t = NULLPTR;` (one loop-carried pointer local per method);
               `arrayOfTests_[e] = p;`; `t = arrayOfTests_[e]->addTest(t);`;
               `PlatformSpecificSrand((unsigned int) e);`; `this->method(args);` for translated methods;
               `for (size_t i = e0; c; ++i | i++ | --i | i--) stmt`
  expressions  size_t / unsigned long arithmetic `+ - * / %`, comparisons `== != < <= > >=`, `&& || !`,
               integer literals, parameters, locals, `count_`, casts that keep a 64-bit unsigned value
               (`(unsigned int)` = `% 2^32`)
`size_t` is `Nat` (see PointerArrayRt.lean for what that leaves to the harness).
"""
import json, os, subprocess
from .common import TranslateError, HEADER, core

SRC = "src/CppUTest/Utest.cpp"
METHODS = ["swap", "shuffle", "reverse", "relinkTestsInOrder"]
U64 = ("size_t", "unsigned long", "const size_t", "const unsigned long")
PASS = ("ParenExpr", "ExprWithCleanups", "MaterializeTemporaryExpr")
LEAN_KEYWORDS = {"s", "fun", "let", "if", "then", "else", "match", "with", "do", "at", "from", "have", "show", "end", "in"}


def clang_ast():
    src = os.path.join(core.REPO, SRC)
    cmd = ["clang++-14", "-std=gnu++17", "-fsyntax-only", "-w",
           "-I" + os.path.join(core.REPO, "include"), "-I" + os.path.join(core.VERIF, "harness", "config"),
           "-DHAVE_CONFIG_H", "-Xclang", "-ast-dump=json", "-Xclang", "-ast-dump-filter=UtestShellPointerArray::", src]
    try:
        p = subprocess.run(cmd, stdout=subprocess.PIPE, stderr=subprocess.PIPE, text=True, timeout=300)
    except OSError as e:
        raise TranslateError("clang++-14 cannot be run: %s" % e)
    if p.returncode != 0:
        raise TranslateError("clang cannot parse %s: %s" % (SRC, p.stderr[-1500:]))
    docs, dec, i, s = [], json.JSONDecoder(), 0, p.stdout
    n = len(s)
    while True:
        while i < n and s[i].isspace():
            i += 1
        if i >= n:
            break
        o, i = dec.raw_decode(s, i)
        docs.append(o)
    return docs


def qt(node):
    t = node.get("type", {})
    return (t.get("qualType") or "").strip()


def where(node):
    r = node.get("range", {}).get("begin", {})
    line = r.get("line") or r.get("expansionLoc", {}).get("line") or r.get("spellingLoc", {}).get("line")
    return " (near line %s)" % line if line else ""


def kids(node):
    return [c for c in node.get("inner", [])]


def strip(node):
    """remove parentheses and value-preserving wrappers"""
    while True:
        k = node.get("kind")
        if k in PASS:
            node = kids(node)[0]
        elif k == "ImplicitCastExpr" and node.get("castKind") in ("LValueToRValue", "NoOp"):
            node = kids(node)[0]
        else:
            return node


def ident(name):
    if not name.isidentifier() or name in LEAN_KEYWORDS or name.endswith("_"):
        return "v_" + "".join(c if c.isalnum() else "_" for c in name)
    return name


class Method:
    def __init__(self, name, decl):
        self.name, self.decl = name, decl
        self.params = [c for c in kids(decl) if c.get("kind") == "ParmVarDecl"]
        self.body = next(c for c in kids(decl) if c.get("kind") == "CompoundStmt")
        self.nat_vars = {}        # C name -> Lean name (parameters, immutable size_t locals, loop variables)
        self.ptr_vals = {}        # immutable pointer locals -> Lean name
        self.reg = None           # the loop-carried pointer local
        self.rand_used = False
        for p in self.params:
            if qt(p) not in U64:
                raise TranslateError("%s: parameter `%s` has type `%s`, only size_t is translated" % (name, p.get("name"), qt(p)))
            self.nat_vars[p["name"]] = ident(p["name"])

    def fail(self, what, node):
        raise TranslateError("UtestShellPointerArray::%s: %s%s" % (self.name, what, where(node)))

    # ----- expressions
    def is_this_member(self, node, member):
        node = strip(node)
        return (node.get("kind") == "MemberExpr" and node.get("name") == member and
                kids(node) and strip(kids(node)[0]).get("kind") == "CXXThisExpr")

    def nat(self, node):
        k = node.get("kind")
        if k in PASS:
            return self.nat(kids(node)[0])
        if k in ("ImplicitCastExpr", "CStyleCastExpr", "CXXStaticCastExpr", "CXXFunctionalCastExpr"):
            ck = node.get("castKind")
            inner = kids(node)[-1]
            if ck in ("LValueToRValue", "NoOp"):
                return self.nat(inner)
            if ck == "IntegralCast":
                t = qt(node)
                if t in U64:
                    si = strip(inner)
                    if si.get("kind") == "IntegerLiteral":
                        return self.nat(si)
                    if si.get("kind") == "CallExpr":           # (size_t) PlatformSpecificRand(): the stream holds the cast values
                        return self.nat(si)
                    if qt(si) in U64 or qt(inner) in U64:
                        return self.nat(inner)
                    self.fail("conversion from `%s` to `%s` is not translated" % (qt(inner), t), node)
                if t == "unsigned int":
                    return "(%s %% 4294967296)" % self.nat(inner)
                self.fail("conversion to `%s` is not translated" % t, node)
            self.fail("cast kind %s is not translated" % ck, node)
        if k == "IntegerLiteral":
            v = int(node.get("value"))
            if v < 0:
                self.fail("negative literal", node)
            return str(v)
        if k == "DeclRefExpr":
            n = node.get("referencedDecl", {}).get("name")
            if n in self.nat_vars:
                return self.nat_vars[n]
            self.fail("`%s` is not a size_t parameter/local of the translated subset" % n, node)
        if k == "MemberExpr":
            if self.is_this_member(node, "count_"):
                return "s.count"
            self.fail("member `%s` is not translated" % node.get("name"), node)
        if k == "BinaryOperator":
            op = node.get("opcode")
            if op in ("+", "-", "*", "/", "%"):
                if qt(node) not in U64:
                    self.fail("arithmetic in type `%s` (only size_t / unsigned long)" % qt(node), node)
                a, b = kids(node)
                return "(%s %s %s)" % (self.nat(a), op, self.nat(b))
            self.fail("operator `%s` in an integer expression" % op, node)
        if k == "CallExpr":
            callee = strip(kids(node)[0])
            if callee.get("kind") == "DeclRefExpr" and callee.get("referencedDecl", {}).get("name") == "PlatformSpecificRand" and len(kids(node)) == 1:
                if self.rand_used:
                    self.fail("more than one PlatformSpecificRand() in one statement", node)
                self.rand_used = True
                return "r_"
            self.fail("call is not translated", node)
        self.fail("expression kind %s is not translated" % k, node)

    def boolean(self, node):
        k = node.get("kind")
        if k in PASS or (k == "ImplicitCastExpr" and node.get("castKind") in ("LValueToRValue", "NoOp")):
            return self.boolean(kids(node)[0])
        if k == "BinaryOperator":
            op = node.get("opcode")
            a, b = kids(node)
            if op in ("&&", "||"):
                return "(%s %s %s)" % (self.boolean(a), op, self.boolean(b))
            if op in ("==", "!=", "<", "<=", ">", ">="):
                if qt(strip(a)) not in U64 and qt(a) not in U64:
                    self.fail("comparison of `%s` values (only size_t)" % qt(a), node)
                lop = {"==": "==", "!=": "!="}.get(op)
                if lop:
                    return "(%s %s %s)" % (self.nat(a), lop, self.nat(b))
                return "(decide (%s %s %s))" % (self.nat(a), {"<": "<", "<=": "≤", ">": ">", ">=": "≥"}[op], self.nat(b))
        if k == "UnaryOperator" and node.get("opcode") == "!":
            return "(!%s)" % self.boolean(kids(node)[0])
        if k == "CXXBoolLiteralExpr":
            return "true" if node.get("value") else "false"
        self.fail("condition kind %s is not translated" % k, node)

    def array_index(self, node):
        """`arrayOfTests_[e]` -> Lean index expression, else None"""
        node = strip(node)
        if node.get("kind") != "ArraySubscriptExpr":
            return None
        base, idx = kids(node)
        if not self.is_this_member(base, "arrayOfTests_"):
            self.fail("subscript of something that is not arrayOfTests_", node)
        return self.nat(idx)

    def ptr_value(self, node):
        """an rvalue of type UtestShell*: immutable local or array element -> Lean Nat expression"""
        n = strip(node)
        if n.get("kind") == "DeclRefExpr":
            name = n.get("referencedDecl", {}).get("name")
            if name in self.ptr_vals:
                return self.ptr_vals[name]
            self.fail("pointer `%s` is not an immutable local" % name, node)
        idx = self.array_index(n)
        if idx is not None:
            return "(Rt.get s %s)" % idx
        self.fail("pointer expression kind %s is not translated" % n.get("kind"), node)

    def is_reg(self, node):
        n = strip(node)
        return n.get("kind") == "DeclRefExpr" and self.reg is not None and n.get("referencedDecl", {}).get("name") == self.reg

    # ----- statements: `block(stmts, tail)` = Lean term of type `Ctl St` with the state in `s`
    def block(self, stmts, tail="Ctl.go s"):
        if not stmts:
            return tail
        st, rest = stmts[0], stmts[1:]
        k = st.get("kind")
        if k == "CompoundStmt":
            if rest:
                self.fail("nested block followed by statements", st)
            return self.block(kids(st), tail)
        if k == "NullStmt":
            return self.block(rest, tail)
        if k == "ReturnStmt":
            if kids(st):
                self.fail("return with a value", st)
            return "Ctl.ret s"
        if k == "IfStmt":
            c = kids(st)
            if len(c) != 2 or strip(c[1]).get("kind") not in ("ReturnStmt", "CompoundStmt"):
                self.fail("only `if (c) return;` is translated", st)
            then = c[1]
            inner = kids(then) if then.get("kind") == "CompoundStmt" else [then]
            if len(inner) != 1 or inner[0].get("kind") != "ReturnStmt" or kids(inner[0]):
                self.fail("only `if (c) return;` is translated", st)
            return "if %s then Ctl.ret s else\n  %s" % (self.boolean(c[0]), self.block(rest, tail))
        if k == "DeclStmt":
            decls = kids(st)
            if len(decls) != 1 or decls[0].get("kind") != "VarDecl" or not kids(decls[0]):
                self.fail("declaration without initialiser / several declarators", st)
            d = decls[0]
            name, t, init = d["name"], qt(d), kids(d)[0]
            if t in U64:
                self.rand_used = False
                e = self.nat(init)
                lean = ident(name)
                pre = "let r_ := Rt.peekRand s;\n  let s := Rt.popRand s;\n  " if self.rand_used else ""
                self.rand_used = False
                self.nat_vars[name] = lean
                return "%slet %s := %s;\n  %s" % (pre, lean, e, self.block(rest, tail))
            if t == "UtestShell *":
                si = strip(init)
                if si.get("kind") == "ImplicitCastExpr" and si.get("castKind") == "NullToPointer":
                    if self.reg is not None:
                        self.fail("more than one nullable pointer local", st)
                    self.reg = name
                    return "let s := Rt.setPtr s none;\n  %s" % self.block(rest, tail)
                v = self.ptr_value(init)
                lean = ident(name)
                self.ptr_vals[name] = lean
                return "let %s := %s;\n  %s" % (lean, v, self.block(rest, tail))
            self.fail("local of type `%s` is not translated" % t, st)
        if k == "BinaryOperator" and st.get("opcode") == "=":
            lhs, rhs = kids(st)
            idx = self.array_index(lhs)
            if idx is not None:
                return "let s := Rt.set s %s %s;\n  %s" % (idx, self.ptr_value(rhs), self.block(rest, tail))
            if self.is_reg(lhs):
                r = strip(rhs)
                if r.get("kind") == "CXXMemberCallExpr":
                    callee = kids(r)[0]
                    args = kids(r)[1:]
                    if callee.get("kind") == "MemberExpr" and callee.get("name") == "addTest" and callee.get("isArrow") and len(args) == 1 and self.is_reg(args[0]):
                        obj = self.ptr_value(kids(callee)[0])
                        return ("let p_ := %s;\n  let s := Rt.addTest s p_ s.ptr;\n  let s := Rt.setPtr s (some p_);\n  %s"
                                % (obj, self.block(rest, tail)))
                self.fail("assignment to the pointer local is not `t = arrayOfTests_[e]->addTest(t)`", st)
            self.fail("assignment target is not translated", st)
        if k == "CallExpr":
            callee = strip(kids(st)[0])
            if callee.get("kind") == "DeclRefExpr" and callee.get("referencedDecl", {}).get("name") == "PlatformSpecificSrand" and len(kids(st)) == 2:
                return "let s := Rt.srand s %s;\n  %s" % (self.nat(kids(st)[1]), self.block(rest, tail))
            self.fail("call is not translated", st)
        if k == "CXXMemberCallExpr":
            callee = kids(st)[0]
            if callee.get("kind") == "MemberExpr" and strip(kids(callee)[0]).get("kind") == "CXXThisExpr" and callee.get("name") in METHODS:
                args = " ".join(self.nat(a) for a in kids(st)[1:])
                return "(%s s%s).call (fun s =>\n  %s)" % (callee["name"], (" " + args) if args else "", self.block(rest, tail))
            self.fail("member call `%s` is not translated" % callee.get("name"), st)
        if k == "ForStmt":
            init, _condvar, cond, inc, body = (st.get("inner") + [None] * 5)[:5]
            if not init or init.get("kind") != "DeclStmt" or len(kids(init)) != 1 or qt(kids(init)[0]) not in U64 or not kids(kids(init)[0]):
                self.fail("for-init is not `size_t i = e`", st)
            var = kids(init)[0]["name"]
            e0 = self.nat(kids(kids(init)[0])[0])
            lv = ident(var)
            saved = dict(self.nat_vars)
            self.nat_vars[var] = lv
            if not cond or not cond.get("kind"):
                self.fail("for without a condition", st)
            c = self.boolean(cond)
            if not inc or inc.get("kind") != "UnaryOperator" or inc.get("opcode") not in ("++", "--") or \
               strip(kids(inc)[0]).get("referencedDecl", {}).get("name") != var:
                self.fail("for-increment is not ++/-- of the loop variable", st)
            step = "%s %s 1" % (lv, "+" if inc["opcode"] == "++" else "-")
            if body is None or not body.get("kind"):
                self.fail("for without a body", st)
            saved_reg_vals = dict(self.ptr_vals)
            b = self.block([body], "Ctl.go s")
            self.nat_vars, self.ptr_vals = saved, saved_reg_vals
            return ("(Rt.forLoop (fun %s s => %s) (fun %s => %s)\n    (fun %s s =>\n  %s)\n    (s.count + 1) %s s).bind (fun s =>\n  %s)"
                    % (lv, c, lv, step, lv, b, e0, self.block(rest, tail)))
        self.fail("statement kind %s is not translated" % k, st)

    def lean(self):
        params = "".join(" (%s : Nat)" % self.nat_vars[p["name"]] for p in self.params)
        return "def %s (s : St)%s : Ctl St :=\n  %s\n" % (self.name, params, self.block(kids(self.body)))


def extract():
    docs = clang_ast()
    found = {}
    for d in docs:
        if d.get("kind") == "CXXMethodDecl" and d.get("name") in METHODS and any(c.get("kind") == "CompoundStmt" for c in kids(d)):
            found[d["name"]] = d
    missing = [m for m in METHODS if m not in found]
    if missing:
        raise TranslateError("UtestShellPointerArray::%s has no definition in %s" % (missing[0], SRC))
    # callees first
    order, done = [], set()

    def calls(node, acc):
        if node.get("kind") == "CXXMemberCallExpr":
            c = kids(node)[0]
            if c.get("kind") == "MemberExpr" and c.get("name") in METHODS:
                acc.add(c["name"])
        for c in node.get("inner", []):
            if isinstance(c, dict):
                calls(c, acc)
        return acc

    def visit(m, stack=()):
        if m in done:
            return
        if m in stack:
            raise TranslateError("recursive calls between UtestShellPointerArray methods")
        for c in sorted(calls(found[m], set())):
            visit(c, stack + (m,))
        done.add(m)
        order.append(m)

    for m in METHODS:
        visit(m)
    text = HEADER % ("translate/extract_ptrarray.py", SRC + " (clang JSON AST)")
    text += "import CppUModel.Model.PointerArrayRt\nset_option linter.unusedVariables false\nnamespace Gen.PointerArray\nopen Registry.PA\n"
    for m in order:
        text += Method(m, found[m]).lean()
    text += "end Gen.PointerArray\n"
    return text


def run():
    text = extract()
    core.write_if_changed(os.path.join(core.LEAN, "CppUModel", "Gen", "PointerArray.lean"), text)
    return []


if __name__ == "__main__":
    print(extract())
