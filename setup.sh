#!/bin/sh
# Builds the framework from files on disk only (offline): Lean library, drivers, implementation cache.
set -e
cd "$(dirname "$0")"
python3 tools/regen_all.py
cd lean
lake build CppUModel
for d in $(ls Driver/*.lean | sed 's|Driver/\(.*\)\.lean|\1|' | tr 'A-Z' 'a-z'); do
  lake build driver_$d
done
cd ..
python3 -c "
import sys; sys.path.insert(0,'.')
from vlib import core
core.build_impl('asan')
"
