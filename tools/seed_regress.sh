#!/bin/bash
# re-runs every kept seeded change against the current checks (check only; confirmation data is kept)
cd "$(dirname "$0")/.."
for d in seeded/*/; do
  n=$(basename $d); p=${n%%_*}
  python3 tools/seed_eval.py $p $d $n --check-only > /tmp/seedreg_$n.log 2>&1
  echo "$n $(grep -E '"caught"|caught_with' /tmp/seedreg_$n.log | tr -d '\n ' )"
done
