#!/usr/bin/env python3
"""tools/harness_coverage.py Cnn [Cnn ...] [--tier quick] [--seed N] [--out coverage/harness_lines.json]

Measures what the correspondence harness of a property actually executes in /repo's sources: every source
file is compiled with gcc's --coverage (no sanitizer), the property's harness is linked against it, the
corpus and the generated cases of the given tier are run exactly as a check would run them, and gcov's
line/function counts are collected for the files the property is anchored in (properties.jsonl).
Lines of anchored code that no case executes are lines on which the hand-written model is NOT validated
against the implementation by this check (they may still be covered by a regenerated definition or by
another property's harness).  Scratch lives under /tmp/cov_<Cnn> and is removed."""
import importlib, json, os, random, shutil, subprocess, sys, gzip
from concurrent.futures import ThreadPoolExecutor

VERIF = os.path.dirname(os.path.dirname(os.path.abspath(__file__)))
sys.path.insert(0, VERIF)
from vlib import core  # noqa: E402
from vlib import flow  # noqa: E402

FLAGS = ["-O0", "-g", "--coverage", "-DVERIF_COVERAGE"]


def anchors(pid):
    for l in open(os.path.join(VERIF, "properties.jsonl")):
        p = json.loads(l)
        if p["id"] == pid:
            return [f for f in p["anchors"]["files"] if f.endswith((".cpp", ".c"))]
    return []


def measure(pid, tier, seed):
    mod = importlib.import_module("vlib.props." + pid.lower())
    flags = FLAGS + (["-fsanitize=thread"] if getattr(mod, "VARIANT", "asan") == "tsan" else [])
    work = "/tmp/cov_%s" % pid
    shutil.rmtree(work, ignore_errors=True)
    os.makedirs(work + "/obj")
    srcs = core._impl_sources()

    def one(src):
        obj = os.path.join(work, "obj", src.replace(core.REPO, "").strip("/").replace("/", "_") + ".o")
        p = core.sh(["g++"] + flags + core.COMMON_FLAGS + ["-c", src, "-o", obj])
        if p.returncode != 0:
            raise SystemExit("compile failed: %s\n%s" % (src, p.stderr[-2000:]))
        return obj

    with ThreadPoolExecutor(core.NCPU) as ex:
        objs = list(ex.map(one, srcs))
    exe = os.path.join(work, "harness")
    hsrc = os.path.join(VERIF, "harness", mod.HARNESS + ".cpp")
    p = core.sh(["g++"] + flags + core.COMMON_FLAGS + list(getattr(mod, "HARNESS_FLAGS", ())) + [hsrc] + objs + ["-o", exe, "-lpthread"],
                cwd=work)
    if p.returncode != 0:
        raise SystemExit("harness link failed:\n" + p.stderr[-3000:])
    rng = random.Random(seed)
    cases = flow.read_corpus(mod.ID)
    for i, (tag, ops) in enumerate(mod.generate(rng, tier)):
        cases.append(("%s:%d" % (tag, i), ops))
    out, err = core.run_harness(exe, cases, env=getattr(mod, "ENV", None), timeout=getattr(mod, "HARNESS_TIMEOUT", 3600))
    crashes = out.count("\ncrash ")
    res = {"property": pid, "tier": tier, "seed": seed, "cases": len(cases), "crashed_cases": crashes, "files": {}}
    want = anchors(pid)
    for rel in want:
        src = os.path.join(core.REPO, rel)
        obj = os.path.join(work, "obj", rel.replace("/", "_") + ".gcda")
        if not os.path.exists(obj):
            res["files"][rel] = {"error": "no coverage data (file not executed at all)"}
            continue
        g = core.sh(["gcov", "-j", "-t", obj], cwd=os.path.join(work, "obj"))
        try:
            data = json.loads(g.stdout)
        except Exception:
            res["files"][rel] = {"error": "gcov output not understood"}
            continue
        for f in data["files"]:
            if os.path.abspath(os.path.join(work, "obj", f["file"])) != os.path.abspath(src) and not f["file"].endswith(rel):
                continue
            lines = f["lines"]
            total = len(lines)
            hit = sum(1 for l in lines if l["count"] > 0)
            fns = f.get("functions", [])
            never = sorted({fn.get("demangled_name", fn["name"]) for fn in fns if fn["execution_count"] == 0})
            res["files"][rel] = {"lines": total, "lines_executed": hit, "functions": len(fns),
                                 "functions_never_executed": never,
                                 "lines_never_executed": [l["line_number"] for l in lines if l["count"] == 0]}
    shutil.rmtree(work, ignore_errors=True)
    return res


def main():
    args = sys.argv[1:]
    tier, seed, outp, pids = "quick", 1, os.path.join(VERIF, "coverage", "harness_lines.json"), []
    i = 0
    while i < len(args):
        if args[i] == "--tier":
            tier = args[i + 1]; i += 2
        elif args[i] == "--seed":
            seed = int(args[i + 1]); i += 2
        elif args[i] == "--out":
            outp = args[i + 1]; i += 2
        else:
            pids.append(args[i]); i += 1
    try:
        allres = json.load(open(outp))
    except Exception:
        allres = {}
    for pid in pids:
        try:
            r = measure(pid, tier, seed)
        except (SystemExit, Exception) as e:
            print("%s: %s" % (pid, str(e)[:500]))
            continue
        allres[pid] = r
        for rel, f in r["files"].items():
            if "error" in f:
                print("%s %-45s %s" % (pid, rel, f["error"]))
            else:
                print("%s %-45s lines %4d/%4d (%.0f%%)  functions never executed: %d/%d" % (
                    pid, rel, f["lines_executed"], f["lines"], 100.0 * f["lines_executed"] / max(1, f["lines"]),
                    len(f["functions_never_executed"]), f["functions"]))
        os.makedirs(os.path.dirname(outp), exist_ok=True)
        json.dump(allres, open(outp, "w"), indent=1, sort_keys=True)


main()
