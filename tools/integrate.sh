#!/bin/bash
# tools/integrate.sh Cnn : clean-tree runs at several seeds, evidence validation, seeded-change evaluation
cd "$(dirname "$0")/.."
P=$1
LOG=/tmp/integrate_$P.log
: > $LOG
for s in 1 2 3; do
  echo "== seed $s" >> $LOG
  ( time VERIF_SEED=$s ./check $P --tier quick ) >> $LOG 2>&1
  echo "exit=$?" >> $LOG
done
python3-vt - >> $LOG 2>&1 <<PY
import json, jsonschema
jsonschema.validate(json.load(open('evidence/$P.json')), json.load(open('/root/.vp/EVIDENCE.schema.json')))
e=json.load(open('evidence/$P.json'))
print('evidence valid; obligations', e['coverage'].get('obligations'), 'discharged', e['coverage'].get('discharged'), 'evals', e['coverage'].get('evaluations'), 'distinct', e['coverage'].get('distinct_nontrivial'), 'wall', e['wall_s'])
PY
if [ -d /tmp/mut_out/$P ]; then
  echo "== seeded" >> $LOG
  python3 tools/seed_eval.py $P >> $LOG 2>&1
fi
echo "== done" >> $LOG
