#!/usr/bin/env python3
"""tools/seed_eval.py <ID> [<dir with patch.diff, demo, run_demo.sh, meta.json>] [--skip-baseline]

Confirms a seeded property-breaking change independently and records it under seeded/<ID>[_k]/:
  1. the patch applies to a clean worktree of /repo HEAD;
  2. cpputest's own test suite still passes with it (tools/baseline.sh);
  3. the demonstration passes on the clean tree and fails on the changed tree;
  4. our check for the property, run against the changed tree (VERIF_REPO), reports a VIOLATION.
Scratch worktrees live under /tmp and are removed."""
import json, os, shutil, subprocess, sys, time

VERIF = os.path.dirname(os.path.dirname(os.path.abspath(__file__)))


def sh(cmd, **kw):
    return subprocess.run(cmd, shell=True, stdout=subprocess.PIPE, stderr=subprocess.STDOUT, text=True, errors='replace', **kw)


def main():
    args = [a for a in sys.argv[1:] if not a.startswith("--")]
    pid = args[0]
    src = args[1] if len(args) > 1 else "/tmp/mut_out/" + pid
    name = args[2] if len(args) > 2 else pid
    skip_baseline = "--skip-baseline" in sys.argv or "--check-only" in sys.argv
    check_only = "--check-only" in sys.argv
    dst = os.path.join(VERIF, "seeded", name)
    if os.path.abspath(src) != os.path.abspath(dst):
        os.makedirs(dst, exist_ok=True)
        for f in os.listdir(src):
            if os.path.isfile(os.path.join(src, f)):
                shutil.copy(os.path.join(src, f), os.path.join(dst, f))
    meta_path = os.path.join(dst, "meta.json")
    try:
        meta = json.load(open(meta_path))
    except Exception:
        meta = {"property": pid}
    wt_clean = "/tmp/seedeval_%s_clean" % name
    wt_mut = "/tmp/seedeval_%s_mut" % name
    for w in (wt_clean, wt_mut):
        sh("git -C /repo worktree remove --force %s" % w)
        shutil.rmtree(w, ignore_errors=True)
    sh("git -C /repo worktree prune")
    ver = {"at": time.strftime("%Y-%m-%d %H:%M:%S"), "repo_head": sh("git -C /repo rev-parse --short HEAD").stdout.strip()}
    if check_only:      # regression run: keep what was confirmed before (baseline, demonstration), redo only our check
        old = meta.get("verified", {})
        for k in ("baseline_tail", "baseline_passes", "demo_clean_exit", "demo_mutated_exit", "demo_mutated_tail"):
            if k in old:
                ver[k] = old[k]
    try:
        p = sh("git -C /repo worktree add --detach %s HEAD && git -C /repo worktree add --detach %s HEAD" % (wt_clean, wt_mut))
        p = sh("git -C %s apply %s" % (wt_mut, os.path.join(dst, "patch.diff")))
        ver["patch_applies"] = p.returncode == 0
        if p.returncode != 0:
            ver["patch_error"] = p.stdout[-500:]
            raise SystemExit
        if not skip_baseline:
            p = sh("%s/tools/baseline.sh %s" % (VERIF, wt_mut), timeout=1800)
            out = p.stdout
            ver["baseline_tail"] = out[-600:]
            ver["baseline_passes"] = ("100% tests passed" in out) and ("OK (" in out.split("CppUTestExt tests")[-1])
        demo = os.path.join(dst, "run_demo.sh")
        if os.path.exists(demo) and not check_only:
            p1 = sh("bash %s %s" % (demo, wt_clean), timeout=1800, cwd=dst)
            p2 = sh("bash %s %s" % (demo, wt_mut), timeout=1800, cwd=dst)
            ver["demo_clean_exit"] = p1.returncode
            ver["demo_mutated_exit"] = p2.returncode
            ver["demo_mutated_tail"] = p2.stdout[-400:]
        env = dict(os.environ, VERIF_REPO=wt_mut)
        for tier in ("quick",):
            t0 = time.time()
            p = subprocess.run(["./check", pid, "--tier", tier], cwd=VERIF, env=env, stdout=subprocess.PIPE,
                               stderr=subprocess.STDOUT, text=True, timeout=7200)
            vio = [l for l in p.stdout.split("\n") if l.startswith("VIOLATION")]
            ver["check_%s_exit" % tier] = p.returncode
            ver["check_%s_violation_lines" % tier] = vio[:4]
            ver["check_%s_detail" % tier] = [l for l in p.stdout.split("\n") if l.startswith("property ")][:3]
            ver["check_%s_wall_s" % tier] = round(time.time() - t0, 1)
        ver["caught"] = ver.get("check_quick_exit") == 1 and bool(ver.get("check_quick_violation_lines"))
        ver["caught_with_failing_input"] = ver["caught"] and not all(
            "no-failing-input-found" in l for l in ver["check_quick_violation_lines"])
    except SystemExit:
        pass
    finally:
        for w in (wt_clean, wt_mut):
            sh("git -C /repo worktree remove --force %s" % w)
            shutil.rmtree(w, ignore_errors=True)
        sh("git -C /repo worktree prune")
    # the run above regenerated lean/CppUModel/Gen from the changed tree: put the clean tree's back
    sh("rm -f %s/.cache/gen_tree_stamp; python3 %s/tools/regen_all.py" % (VERIF, VERIF))
    meta["verified"] = ver
    meta["what_i_ran"] = ("tools/seed_eval.py: git apply on a scratch worktree of /repo HEAD; tools/baseline.sh (ctest + hand-built "
                          "CppUTestExt suite); run_demo.sh on clean and changed tree; VERIF_REPO=<changed tree> ./check %s --tier quick" % pid)
    json.dump(meta, open(meta_path, "w"), indent=1)
    # generated demo binaries are not kept
    for f in os.listdir(dst):
        full = os.path.join(dst, f)
        if os.path.isfile(full) and os.access(full, os.X_OK) and not f.endswith(".sh"):
            os.remove(full)
    print(json.dumps({k: v for k, v in ver.items() if "tail" not in k}, indent=1))


main()
