#!/usr/bin/env python3
"""tools/update_design.py: refreshes the generated parts of DESIGN.md
   * the catch matrix between <!-- CATCH-MATRIX-BEGIN/END --> (tools/catch_matrix.py);
   * the harness line-coverage table between <!-- HARNESS-COVERAGE-BEGIN/END --> (coverage/harness_lines.json)."""
import json, os, re, subprocess
ROOT = os.path.dirname(os.path.dirname(os.path.abspath(__file__)))
p = os.path.join(ROOT, "DESIGN.md")
s = open(p).read()

matrix = subprocess.run(["python3", os.path.join(ROOT, "tools", "catch_matrix.py")], stdout=subprocess.PIPE, text=True).stdout.strip()
s = re.sub(r"<!-- CATCH-MATRIX-BEGIN -->.*?<!-- CATCH-MATRIX-END -->",
           lambda m: "<!-- CATCH-MATRIX-BEGIN -->\n" + matrix + "\n<!-- CATCH-MATRIX-END -->", s, flags=re.S)

try:
    cov = json.load(open(os.path.join(ROOT, "coverage", "harness_lines.json")))
except Exception:
    cov = {}
rows = ["| property | anchored source file | lines executed by the property's own harness (quick tier, seed 1) | functions never executed |",
        "|---|---|---|---|"]
for pid in sorted(cov):
    for rel, f in sorted(cov[pid]["files"].items()):
        if "error" in f:
            rows.append("| %s | %s | %s | |" % (pid, rel, f["error"]))
        else:
            rows.append("| %s | %s | %d / %d (%.0f%%) | %d / %d |" % (pid, rel, f["lines_executed"], f["lines"],
                        100.0 * f["lines_executed"] / max(1, f["lines"]), len(f["functions_never_executed"]), f["functions"]))
table = "\n".join(rows)
s = re.sub(r"<!-- HARNESS-COVERAGE-BEGIN -->.*?<!-- HARNESS-COVERAGE-END -->",
           lambda m: "<!-- HARNESS-COVERAGE-BEGIN -->\n" + table + "\n<!-- HARNESS-COVERAGE-END -->", s, flags=re.S)
open(p, "w").write(s)
print("DESIGN.md refreshed: %d matrix rows, %d coverage rows" % (matrix.count("\n") - 1, len(rows) - 2))
