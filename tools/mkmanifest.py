#!/usr/bin/env python3
"""Regenerates /verif/MANIFEST.json from the property modules (vlib/props/cNN.py)."""
import importlib, json, os, sys
ROOT = os.path.dirname(os.path.dirname(os.path.abspath(__file__)))
sys.path.insert(0, ROOT)

PENDING_REASON = {}
try:
    PENDING_REASON = json.load(open(os.path.join(ROOT, "tools", "pending.json")))
except OSError:
    pass

checks, na = [], []
for i in range(1, 21):
    pid = "C%02d" % i
    try:
        m = importlib.import_module("vlib.props." + pid.lower())
    except ModuleNotFoundError:
        na.append({"property_id": pid, "reason": PENDING_REASON.get(pid, "no check built yet: the Lean model, theorems and correspondence harness for this property are not finished (see DESIGN.md section 5 for the plan); nothing is claimed until they are")})
        continue
    if getattr(m, "NOT_CLAIMED", None):
        na.append({"property_id": pid, "reason": m.NOT_CLAIMED})
        continue
    checks.append({
        "property_id": pid,
        "quick_cmd": "./check %s --tier quick" % pid,
        "thorough_cmd": "./check %s --tier thorough" % pid,
        "evidence_file": "/verif/evidence/%s.json" % pid,
        "replay_cmd_template": "./check %s --replay {path}" % pid,
        "engine": "lean-model+harness",
        "level_claimed": {"category": "proof", "text": m.LEVEL_TEXT, "design_ref": "DESIGN.md section 5, " + pid},
        "level_note": m.LEVEL_NOTE,
        "technique": getattr(m, "TECHNIQUE", "Lean 4 theorems over an executable model + differential correspondence harness against the real code"),
    })

hooks_commits = []
try:
    hooks_commits = json.load(open(os.path.join(ROOT, "tools", "hook_commits.json")))
except OSError:
    pass

manifest = {
    "version": 1,
    "setup_cmd": "./setup.sh",
    "hooks": {
        "guard": "CPPUTEST_VERIF_HOOKS",
        "enable": "checks compile /repo's sources themselves with -DCPPUTEST_VERIF_HOOKS (vlib/core.py COMMON_FLAGS)",
        "baseline_off_cmd": "(cmake --build /repo/_build -j16 -- -k 0 || true) && ctest --test-dir /repo/_build -j8 --timeout 900",
        "source_commits": hooks_commits,
        "add_only": True,
    },
    "engines": [
        {"name": "lean-model", "path": "/verif/lean", "serves_properties": [c["property_id"] for c in checks],
         "kind_free_text": "Lean 4 executable models, specifications and theorems (lake project, no Mathlib in models/drivers); per-property line-protocol drivers"},
        {"name": "translators", "path": "/verif/translate", "serves_properties": [c["property_id"] for c in checks],
         "kind_free_text": "extractors regenerating lean/CppUModel/Gen/*.lean from /repo's current sources on every run"},
        {"name": "harness", "path": "/verif/harness", "serves_properties": [c["property_id"] for c in checks],
         "kind_free_text": "C++ correspondence harnesses linked against an ASan/UBSan build of /repo's working tree; python runner in /verif/vlib"},
    ],
    "checks": checks,
    "not_applicable": na,
    "notes": "Every check: regenerate Gen/ from /repo, rebuild and audit the Lean obligations (#print axioms), build /repo's sources with sanitizers and the hook guard, run corpus + generated histories through the real code and the Lean model, judge the implementation's observations with the Lean specification oracle. See DESIGN.md.",
}
with open(os.path.join(ROOT, "MANIFEST.json"), "w") as f:
    json.dump(manifest, f, indent=1)
    f.write("\n")
print("claimed:", [c["property_id"] for c in checks])
print("not claimed:", [n["property_id"] for n in na])
