#!/usr/bin/env python3
"""tools/par_seed_eval.py [--slots N] [--check-only] PID:SRCDIR:NAME ...

Runs tools/seed_eval.py for several seeded changes in parallel.  Checks must not run concurrently inside
one framework directory (shared lean/.lake and Gen files), so every slot works in its own copy of the
framework under /tmp/ev_slot_<k> (rsync incl. build output); the confirmed seeded/<NAME>/ directory is copied
back here afterwards.  The copies are removed at the end."""
import os, shutil, subprocess, sys, threading, queue

VERIF = os.path.dirname(os.path.dirname(os.path.abspath(__file__)))


def main():
    args = sys.argv[1:]
    slots = 4
    extra = []
    jobs = []
    i = 0
    while i < len(args):
        a = args[i]
        if a == "--slots":
            slots = int(args[i + 1]); i += 2; continue
        if a.startswith("--"):
            extra.append(a); i += 1; continue
        jobs.append(a.split(":")); i += 1
    q = queue.Queue()
    for j in jobs:
        q.put(j)
    lock = threading.Lock()

    def worker(k):
        slot = "/tmp/ev_slot_%d_%d" % (os.getpid(), k)
        subprocess.run("rsync -a --delete --exclude .git --exclude replays %s/ %s/" % (VERIF, slot), shell=True)
        while True:
            try:
                pid, src, name = q.get_nowait()
            except queue.Empty:
                break
            p = subprocess.run(["python3", os.path.join(slot, "tools/seed_eval.py"), pid, src, name] + extra,
                               stdout=subprocess.PIPE, stderr=subprocess.STDOUT, text=True)
            dst = os.path.join(VERIF, "seeded", name)
            shutil.rmtree(dst, ignore_errors=True)
            shutil.copytree(os.path.join(slot, "seeded", name), dst)
            # keep the replay the check wrote (for inspection), under /tmp
            with lock:
                print("=== %s (%s)\n%s" % (name, pid, p.stdout[-1500:]), flush=True)
        shutil.rmtree(slot, ignore_errors=True)

    ts = [threading.Thread(target=worker, args=(k,)) for k in range(min(slots, len(jobs)))]
    for t in ts:
        t.start()
    for t in ts:
        t.join()


main()
