#!/bin/bash
# tools/baseline.sh <tree>: cpputest's own test suite on a source tree (a scratch worktree of /repo),
# built out of tree under /tmp and removed afterwards.
#   == core tests (ctest)          cmake/Ninja configuration like /repo/_build, ctest -j8
#   == CppUTestExt tests (hand build)   tests/CppUTestExt without the GTest-dependent files (no GTest in this sandbox)
# Exit 0 iff both pass.
T=$(cd "$1" && pwd)
B=$(mktemp -d /tmp/bl_XXXXXX)
trap 'rm -rf "$B"' EXIT
rc=0
echo "== core tests (ctest)"
cmake -G Ninja -S "$T" -B "$B/b" -DCMAKE_BUILD_TYPE=RelWithDebInfo -DCMAKE_CXX_FLAGS=-Wno-error -DCMAKE_C_FLAGS=-Wno-error \
      -DCPPUTEST_SPLIT_TESTS=ON -DCPPUTEST_EXAMPLES=ON -DCPPUTEST_EXTENSIONS=ON > "$B/cfg.log" 2>&1 || { tail -20 "$B/cfg.log"; rc=1; }
(cmake --build "$B/b" -j16 -- -k 0 > "$B/build.log" 2>&1 || true)
ctest --test-dir "$B/b" -j8 --timeout 900 2>&1 | tail -8
[ "${PIPESTATUS[0]}" = 0 ] || rc=1
echo "== CppUTestExt tests (hand build)"
EXT=$(ls "$T"/tests/CppUTestExt/*.cpp "$T"/tests/CppUTestExt/*.c | grep -v -E 'GMockTest|GTest1Test|GTest2ConvertorTest')
LIBS=$(find "$B/b" -name 'libCppUTest.a' -o -name 'libCppUTestExt.a' | sort -r | tr '\n' ' ')
mkdir -p "$B/ext"
i=0
for f in $EXT; do
  i=$((i+1))
  case "$f" in *.c) CC=gcc; STD="";; *) CC=g++; STD="";; esac
  ( $CC $STD -O1 -w -DHAVE_CONFIG_H -I"$T/include" -I"$B/b" -I"$B/b/generated" -I"$T/tests/CppUTestExt" -include "$T/include/CppUTest/MemoryLeakDetectorNewMacros.h" -c "$f" -o "$B/ext/o$i.o" 2>"$B/ext/e$i.log" \
    || $CC $STD -O1 -w -DHAVE_CONFIG_H -I"$T/include" -I"$B/b" -I"$B/b/generated" -I"$T/tests/CppUTestExt" -c "$f" -o "$B/ext/o$i.o" 2>>"$B/ext/e$i.log" || { echo "compile failed: $f"; tail -5 "$B/ext/e$i.log"; } ) &
  [ $((i % 16)) = 0 ] && wait
done
wait
LEXT=$(find "$B/b" -name 'libCppUTestExt.a' | head -1); LCORE=$(find "$B/b" -name 'libCppUTest.a' | head -1)
if g++ -o "$B/ext/ExtTests" "$B"/ext/*.o "$LEXT" "$LCORE" -lpthread 2>"$B/ext/link.log"; then
  (cd "$T/tests/CppUTestExt" && "$B/ext/ExtTests") 2>&1 | tail -4
  [ "${PIPESTATUS[0]}" = 0 ] || rc=1
else
  echo "link failed"; tail -10 "$B/ext/link.log"; rc=1
fi
exit $rc
