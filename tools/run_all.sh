#!/bin/bash
# tools/run_all.sh [tier] [seed]: every check once on /repo; summary on stdout
cd "$(dirname "$0")/.."
TIER=${1:-quick}; SEED=${2:-1}
for i in $(seq -w 1 20); do
  P=C$i
  s=$(date +%s)
  out=$(VERIF_SEED=$SEED ./check $P --tier $TIER 2>&1); rc=$?
  e=$(date +%s)
  echo "$P rc=$rc $((e-s))s $(echo "$out" | grep -c '^VIOLATION') violations $(echo "$out" | grep -c '^KNOWN-FINDING') known"
  if [ $rc -ne 0 ]; then echo "$out" | tail -5; fi
done
