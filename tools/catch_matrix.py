#!/usr/bin/env python3
"""prints the seeded-change catch matrix (markdown) from seeded/*/meta.json"""
import json, os, glob
ROOT = os.path.dirname(os.path.dirname(os.path.abspath(__file__)))
rows = []
for d in sorted(glob.glob(os.path.join(ROOT, "seeded", "*"))):
    try:
        m = json.load(open(os.path.join(d, "meta.json")))
    except Exception:
        continue
    v = m.get("verified", {})
    name = os.path.basename(d)
    summ = (m.get("summary") or "").replace("\n", " ").replace("|", "\\|")
    if len(summ) > 230:
        summ = summ[:227] + "..."
    needs = (m.get("needs_to_manifest") or "").replace("\n", " ").replace("|", "\\|")
    if len(needs) > 160:
        needs = needs[:157] + "..."
    if v.get("caught_with_failing_input"):
        res = "caught, concrete replay"
    elif v.get("caught"):
        res = "caught, no-failing-input-found"
    else:
        res = "**missed**"
    conf = "yes" if (v.get("patch_applies") and v.get("baseline_passes") and v.get("demo_clean_exit") == 0 and v.get("demo_mutated_exit") not in (0, None)) else "NO"
    rows.append("| %s | %s | %s | %s | %s | %s |" % (name, m.get("property", "?"), summ, needs, conf, res))
print("| seeded change | property | change | needs to manifest | confirmed (applies, suite passes, demo clean 0 / changed ≠ 0) | `./check` quick on the changed tree |")
print("|---|---|---|---|---|---|")
print("\n".join(rows))
