#!/usr/bin/env python3
"""runs every translator once (setup): regenerates lean/CppUModel/Gen/*.lean from /repo"""
import importlib, os, sys
ROOT = os.path.dirname(os.path.dirname(os.path.abspath(__file__)))
sys.path.insert(0, ROOT)
for i in range(1, 21):
    try:
        m = importlib.import_module("vlib.props.c%02d" % i)
    except ModuleNotFoundError:
        continue
    if hasattr(m, "translate"):
        class Ctx: pass
        try:
            r = m.translate(Ctx())
            print("C%02d translators:" % i, r or "ok")
        except Exception as e:
            print("C%02d translators FAILED: %s" % (i, e))
