#!/usr/bin/env python3
"""tools/par_integrate.py [--slots N] [--seeds 1,2,3] [--no-regress] Cnn:OUTDIR ...

Integration test of a builder's delivery (a directory holding changed/new files with their relative paths)
WITHOUT touching this framework directory: per property a private copy /tmp/int_<Cnn> (rsync incl. build
output) + overlay, then
  * ./check Cnn --tier quick on /repo at each seed (must exit 0 without VIOLATION), evidence schema validation;
  * every kept seeded change of that property (seeded/Cnn*/patch.diff) applied to a scratch worktree and
    checked with VERIF_REPO (must be caught).
Prints one JSON line per property; the copy is removed.  Apply a green delivery with:  rsync -a OUTDIR/ <framework>/"""
import json, os, shutil, subprocess, sys, threading, queue, glob, time

VERIF = os.path.dirname(os.path.dirname(os.path.abspath(__file__)))


def sh(cmd, **kw):
    return subprocess.run(cmd, shell=True, stdout=subprocess.PIPE, stderr=subprocess.STDOUT, text=True, errors="replace", **kw)


def one(pid, out, seeds, regress):
    w = "/tmp/int_%s" % pid
    shutil.rmtree(w, ignore_errors=True)
    sh("rsync -a --exclude .git --exclude replays %s/ %s/" % (VERIF, w))
    sh("rsync -a --exclude REPORT.md %s/ %s/" % (out, w))
    res = {"property": pid, "seeds": {}, "seeded": {}}
    ok = True
    for s in seeds:
        t0 = time.time()
        p = subprocess.run(["./check", pid, "--tier", "quick"], cwd=w, env=dict(os.environ, VERIF_SEED=str(s)),
                           stdout=subprocess.PIPE, stderr=subprocess.STDOUT, text=True, errors="replace")
        vio = [l for l in p.stdout.split("\n") if l.startswith("VIOLATION")]
        res["seeds"][s] = {"rc": p.returncode, "violations": vio[:3], "wall": round(time.time() - t0)}
        if p.returncode != 0 or vio:
            ok = False
            res["seeds"][s]["tail"] = p.stdout[-1500:]
    v = sh("python3-vt -c \"import json,jsonschema; jsonschema.validate(json.load(open('%s/evidence/%s.json')), json.load(open('/root/.vp/EVIDENCE.schema.json'))); e=json.load(open('%s/evidence/%s.json')); print(e['coverage'].get('obligations'), e['coverage'].get('discharged'))\"" % (w, pid, w, pid))
    res["evidence"] = v.stdout.strip()[-200:]
    if v.returncode != 0:
        ok = False
    if regress and ok:
        for d in sorted(glob.glob(os.path.join(VERIF, "seeded", pid + "*"))):
            name = os.path.basename(d)
            if name.split("_")[0] != pid:
                continue
            wt = "/tmp/intwt_%s" % name
            sh("git -C /repo worktree remove --force %s; rm -rf %s; git -C /repo worktree prune" % (wt, wt))
            a = sh("git -C /repo worktree add --detach %s HEAD && git -C %s apply %s/patch.diff" % (wt, wt, d))
            if a.returncode != 0:
                res["seeded"][name] = "patch does not apply"
                sh("git -C /repo worktree remove --force %s; git -C /repo worktree prune" % wt)
                continue
            p = subprocess.run(["./check", pid, "--tier", "quick"], cwd=w, env=dict(os.environ, VERIF_REPO=wt),
                               stdout=subprocess.PIPE, stderr=subprocess.STDOUT, text=True, errors="replace")
            vio = [l for l in p.stdout.split("\n") if l.startswith("VIOLATION")]
            caught = p.returncode == 1 and bool(vio)
            conc = caught and not all("no-failing-input-found" in l for l in vio)
            res["seeded"][name] = "caught+input" if conc else ("caught(no input)" if caught else "MISSED rc=%d" % p.returncode)
            if not caught:
                ok = False
            sh("git -C /repo worktree remove --force %s; rm -rf %s; git -C /repo worktree prune" % (wt, wt))
    res["ok"] = ok
    shutil.rmtree(w, ignore_errors=True)
    return res


def main():
    args = sys.argv[1:]
    slots, seeds, regress, jobs = 4, [1, 2, 3], True, []
    i = 0
    while i < len(args):
        a = args[i]
        if a == "--slots":
            slots = int(args[i + 1]); i += 2; continue
        if a == "--seeds":
            seeds = [int(x) for x in args[i + 1].split(",")]; i += 2; continue
        if a == "--no-regress":
            regress = False; i += 1; continue
        jobs.append(a.split(":")); i += 1
    q = queue.Queue()
    for j in jobs:
        q.put(j)
    lock = threading.Lock()

    def worker():
        while True:
            try:
                pid, out = q.get_nowait()
            except queue.Empty:
                return
            r = one(pid, out, seeds, regress)
            with lock:
                print(json.dumps(r), flush=True)

    ts = [threading.Thread(target=worker) for _ in range(min(slots, len(jobs)))]
    for t in ts:
        t.start()
    for t in ts:
        t.join()


main()
