import CppUModel.Model.SeparateProcess
import CppUModel.Model.CommandLine
/-!
# From the argument vector to separate-process mode (C11 over C12's parser model, read-only)

`CommandLineTestRunner::runAllTestsMain` hands `argv` to `CommandLineArguments::parse`; only the
*parsed* configuration reaches `initializeTestRun`.  Whether `-p` on the command line switches
separate-process mode on therefore depends on how the arguments before it are read: an option that
takes its value from the next argument swallows a `-p` standing there.  The repeat option is the
delicate one: `-r` has an *optional* count, which is taken from the next argument only when that
argument is a non-zero number — `-r -p` is (repeat 2, separate process on).

This file composes `CommandLine.parse` (model of the parser, property C12) with the `-p` path of
`Model/SeparateProcess.lean`; nothing of either model is changed.
-/
namespace SepProc

/-- the environment of the parse as far as this property is concerned: no plugin takes `-p<x>`
    arguments, the clock only seeds a shuffle -/
def argvEnv : CommandLine.Env := { time := 1, plugins := [] }

/-- `CommandLineArguments(ac, av).parse(plugin)` for `av = {"runner", args…}` -/
def parseArgs (args : List Text.Bytes) : CommandLine.ParseResult :=
  CommandLine.parse argvEnv ([114, 117, 110, 110, 101, 114] :: args)

def parsedConfig (args : List Text.Bytes) : CommandLine.Config := (parseArgs args).cfg

/-- the getters `initializeTestRun` reads -/
def cliArgsOfConfig (c : CommandLine.Config) : CliArgs :=
  { verbose := c.verbose, veryVerbose := c.veryVerbose, color := c.color,
    separateProcess := c.separateProcess, runIgnored := c.runIgnored, crashOnFail := c.crashOnFail }

/-- one repetition of the run the command-line runner makes for this argument vector -/
def runArgv (args : List Text.Bytes) (ts : List KTest) : RunState :=
  runCommandLineKinds (cliArgsOfConfig (parsedConfig args)) ts

/-- how often `runAllTests` repeats the run (`-r`) -/
def repeatsOf (args : List Text.Bytes) : Nat := (parsedConfig args).repeatCount

/-- `failedTestCount != 0 ? failedTestCount : failedExecutionCount` over the repetitions:
    `rounds` = (failure count, run reported as failed) of every repetition -/
def exitCodeOfRounds (rounds : List (Nat × Bool)) : Nat :=
  if (rounds.map (·.1)).sum != 0 then (rounds.map (·.1)).sum else (rounds.filter (·.2)).length

end SepProc
