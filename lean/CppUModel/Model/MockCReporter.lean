import CppUModel.Model.MockCTypes
import CppUModel.Gen.CMockWiring
/-!
# C19 — which failure reporter is active behind the C interface, and what a mock failure does

`mock_c()` / `mock_scope_c(s)` select a `MockSupport` with `mock(scope, &failureReporterForC)`: that call sets the
object's `activeReporter_` (`MockSupport::setActiveReporter`: the argument, or the standard reporter when it is null /
omitted).  `crashOnFailure(b)` sets the flag of the ACTIVE reporter of the selected object; a mock failure goes to the
active reporter of the object that detects it (call objects keep the reporter that was active in their scope when they
were made): `failTest` = `if (!hasFailed) failWith(failure, Terminator(crashOnFailure_))`, and the terminator calls the
crash hook iff the flag is set, then leaves the test — the C one without exceptions (longjmp), the C++ one by throwing.

Everything is interpreted from `Gen.CMock.mockCalls / reporters / terminators` (regenerated on every run).
The C++ program of the scenario uses `mock()` / `mock(s)` (standard reporter, shared by all scopes).
-/
namespace MockC.Rep

/-- the two reporter objects in play -/
inductive Rk
  | c      -- the static `failureReporterForC` of MockSupport_c.cpp
  | std    -- the standard reporter (`defaultReporter_` of the global MockSupport, handed to every scope)
deriving DecidableEq, Repr, Inhabited

inductive Exit | longjmp | exception | unknown
deriving DecidableEq, Repr, Inhabited

inductive Ev
  | crash                -- the crash hook (`UtestShell::crash`) was called
  | exit (how : Exit)    -- the current test was left
deriving DecidableEq, Repr, Inhabited

structure RWorld where
  /-- `activeReporter_` of every MockSupport reached so far, newest first -/
  active    : List (String × Rk) := []
  /-- the selected MockSupport and its active reporter -/
  cur       : Option (String × Rk) := none
  crashC    : Bool := false
  crashStd  : Bool := false
  hasFailed : Bool := false
  events    : List Ev := []
deriving DecidableEq, Repr, Inhabited

inductive ROp
  | mockGlobal                  -- `mock_c()` / `mock()`
  | mockScope (s : String)      -- `mock_scope_c(s)` / `mock(s)`
  | crashOnFailure (b : Bool)   -- on the selected MockSupport
  | fail                        -- a mock failure detected by the selected MockSupport
  | failIn (s : String)         -- ... by an object of scope `s` (a call made there earlier)
  | newTest                     -- the next test starts: the reporters and their flags stay
deriving DecidableEq, Repr, Inhabited

/-! ## interpretation of the regenerated descriptions -/

/-- which reporter `mock(scope, arg)` makes active -/
def reporterOfArg : Option String → Rk
  | some "&failureReporterForC" => .c
  | _ => .std          -- omitted / null / anything else: `setActiveReporter` falls back to the standard reporter

def mockReporter (calls : List MockCallDesc) (fwd : String) : Rk :=
  match calls.find? (fun c => c.fwd = fwd) with
  | some c => reporterOfArg c.reporter
  | none => .std

def classOf (cCls : String) : Rk → String
  | .c => cCls
  | .std => "MockFailureReporter"

def exitOf (t : TermDesc) : Exit :=
  if t.exitVia = "getCurrentTestTerminatorWithoutExceptions" then .longjmp
  else if t.exitVia = "getCurrentTestTerminator" then .exception
  else .unknown

/-- what `reporter.failTest(failure)` does: the events, given the reporter's flag and whether the test already failed -/
def failEvents (rs : List ReporterDesc) (ts : List TermDesc) (cls : String) (flag hasFailed : Bool) : List Ev :=
  match rs.find? (fun r => r.cls = cls) with
  | none => [.exit .unknown]
  | some r =>
    let guardOk := if r.guard = "!getTestToFail()->hasFailed()" then !hasFailed else true
    if !guardOk then []
    else
      match ts.find? (fun t => t.cls = r.termClass) with
      | none => [.exit .unknown]
      | some t =>
        let crash := if t.crashGuard = "crashOnFailure_" ∧ r.termArg = "crashOnFailure_" ∧ t.crashCall = "UT_CRASH" then flag else false
        (if crash then [Ev.crash] else []) ++ [.exit (exitOf t)]

structure Tables where
  calls : List MockCallDesc
  reps  : List ReporterDesc
  terms : List TermDesc
  cCls  : String
deriving DecidableEq, Repr

def genTables : Tables := ⟨Gen.CMock.mockCalls, Gen.CMock.reporters, Gen.CMock.terminators, Gen.CMock.cReporterClass⟩

def flagOf (w : RWorld) : Rk → Bool
  | .c => w.crashC
  | .std => w.crashStd

def setFlag (w : RWorld) (b : Bool) : Rk → RWorld
  | .c => { w with crashC := b }
  | .std => { w with crashStd := b }

def failVia (T : Tables) (w : RWorld) (r : Rk) : RWorld :=
  let evs := failEvents T.reps T.terms (classOf T.cCls r) (flagOf w r) w.hasFailed
  { w with events := w.events ++ evs, hasFailed := w.hasFailed || !evs.isEmpty }

def select (w : RWorld) (s : String) (r : Rk) : RWorld :=
  { w with active := (s, r) :: w.active, cur := some (s, r) }

/-- the scenario through the C interface, on the tables `T` -/
def stepCWith (T : Tables) (w : RWorld) : ROp → RWorld
  | .mockGlobal => select w "" (mockReporter T.calls "mock_c")
  | .mockScope s => select w s (mockReporter T.calls "mock_scope_c")
  | .crashOnFailure b => match w.cur with | some (_, r) => setFlag w b r | none => w
  | .fail => match w.cur with | some (_, r) => failVia T w r | none => w
  | .failIn s => match w.active.lookup s with | some r => failVia T w r | none => w
  | .newTest => { w with hasFailed := false }

/-- the scenario through the C++ interface: `mock()` / `mock(s)` pass no reporter -/
def stepXWith (T : Tables) (w : RWorld) : ROp → RWorld
  | .mockGlobal => select w "" .std
  | .mockScope s => select w s .std
  | .crashOnFailure b => match w.cur with | some (_, r) => setFlag w b r | none => w
  | .fail => match w.cur with | some (_, r) => failVia T w r | none => w
  | .failIn s => match w.active.lookup s with | some r => failVia T w r | none => w
  | .newTest => { w with hasFailed := false }

def stepC (w : RWorld) (o : ROp) : RWorld := stepCWith genTables w o
def stepX (w : RWorld) (o : ROp) : RWorld := stepXWith genTables w o
def runC (w : RWorld) (os : List ROp) : RWorld := os.foldl stepC w
def runX (w : RWorld) (os : List ROp) : RWorld := os.foldl stepX w

def Ev.isCrash : Ev → Bool
  | .crash => true
  | .exit _ => false

end MockC.Rep
