/-!
# Thread-safe allocation mode (C10): lock discipline and interleaving model

Written from `src/CppUTest/MemoryLeakWarningPlugin.cpp` (the `threadsafe_mem_leak_*` wrappers,
`MemLeakScopedMutex`), `src/CppUTest/SimpleMutex.cpp` (`ScopedMutexLock`), the pthread seams in
`src/Platforms/Gcc/UtestPlatform.cpp` and the detector operations the wrappers call
(`MemoryLeakDetector::allocMemory / deallocMemory / reallocMemory`).

Part 1 (lock discipline).  Every wrapper is

    MemLeakScopedMutex lock;          -- acquire  (pthread_mutex_lock on ONE non-recursive mutex)
    detector->operation(...)          -- body
                                      -- release  (~ScopedMutexLock at the closing brace)

The body can end in a *misuse report*: `MemoryLeakWarningReporter::fail` calls
`UtestShell::failWith(.., getCurrentTestTerminatorWithoutExceptions())`, which leaves by
`longjmp`.  A `longjmp` does not run destructors, so the release is skipped: the model mirrors
the code as it is (`finish`).

Part 2 (interleaving).  Threads are lists of operations; because of Part 1 plus the generated
wiring obligation (`Gen/ThreadSafeWiring.lean`: every entry point is switched to a function that
locks first) a schedule is an interleaving of WHOLE wrappers.  The detector is an abstract finite
map of outstanding block ids (the full table model is C04's); ids stand for addresses, the
environment (underlying allocator) only hands out ids that are not live.
-/
namespace ThreadSafe

/-- which allocator family a block came from (`new`, `new[]`, `malloc`) -/
inductive Kind
  | new | newArray | malloc
deriving DecidableEq, Repr, Inhabited

inductive LockState
  | free | held
deriving DecidableEq, Repr, Inhabited

/-- how a wrapper's body ends: normally (falls off the closing brace) or by a misuse report
    (non-local exit by `longjmp`) -/
inductive Outcome
  | normal | misuse
deriving DecidableEq, Repr, Inhabited

/-- outstanding blocks, newest first (`storeLeakInformation` adds, `removeNode` removes) -/
abbrev Det := List (Nat × Kind)

def ids (d : Det) : List Nat := d.map (·.1)

/-- `memoryTable_.retrieveNode(memory)`: the first outstanding block with that address -/
def lookup : Det → Nat → Option Kind
  | [], _ => none
  | (i, k) :: d, id => if i = id then some k else lookup d id

/-- `memoryTable_.removeNode(memory)`: drop the first outstanding block with that address -/
def remove : Det → Nat → Det
  | [], _ => []
  | (i, k) :: d, id => if i = id then d else (i, k) :: remove d id

/-- one detector operation, as called by a wrapper -/
inductive DetOp
  /-- `allocMemory`: the underlying allocator returned block `id` -/
  | alloc (id : Nat) (k : Kind)
  /-- `deallocMemory` of address `id` through the allocator family `k`; `corrupt` = the guard
      bytes behind the block were overwritten -/
  | free (id : Nat) (k : Kind) (corrupt : Bool)
  /-- `reallocMemory` (malloc family only): old address, address returned by the underlying
      realloc -/
  | realloc (old new : Nat) (corrupt : Bool)
deriving DecidableEq, Repr, Inhabited

/-- `checkForCorruption`: mismatch of allocator families is reported first, then corruption -/
def checkRelease (stored used : Kind) (corrupt : Bool) : Outcome :=
  if stored ≠ used then .misuse else if corrupt then .misuse else .normal

/-- the body of `deallocMemory` once the node was looked up -/
def freeFound (d : Det) (id : Nat) (used : Kind) (corrupt : Bool) : Option Kind → Det × Outcome
  | none => (d, .misuse)                                  -- "Deallocating non-allocated memory"
  | some stored => (remove d id, checkRelease stored used corrupt)

/-- the body of `reallocMemory` once the old node was removed and checked -/
def reallocChecked (d : Det) (old new : Nat) : Outcome → Det × Outcome
  | .misuse => (remove d old, .misuse)                    -- the report leaves before the new node is stored
  | .normal => ((new, .malloc) :: remove d old, .normal)

def reallocFound (d : Det) (old new : Nat) (corrupt : Bool) : Option Kind → Det × Outcome
  | none => (d, .misuse)                                  -- "Deallocating non-allocated memory"
  | some stored => reallocChecked d old new (checkRelease stored .malloc corrupt)

/-- a detector operation on the table: new table and how the body ended -/
def body : DetOp → Det → Det × Outcome
  | .alloc id k, d => ((id, k) :: d, .normal)
  | .free id k c, d => freeFound d id k c (lookup d id)
  | .realloc old new c, d => reallocFound d old new c (lookup d old)

/-! ## Part 1: the lock around one operation -/

structure Sys where
  lock : LockState
  det  : Det
deriving DecidableEq, Repr, Inhabited

/-- `pthread_mutex_lock` on the detector's non-recursive mutex: `none` = the caller blocks
    (forever, if nobody will release) -/
def acquire (s : Sys) : Option Sys :=
  match s.lock with
  | .free => some { s with lock := .held }
  | .held => none

def runBody (op : DetOp) (s : Sys) : Sys × Outcome :=
  ({ s with det := (body op s.det).1 }, (body op s.det).2)

/-- `~ScopedMutexLock` → `pthread_mutex_unlock` -/
def release (s : Sys) : Sys := { s with lock := .free }

/-- end of the wrapper's scope: the destructor runs on a normal exit and is skipped by `longjmp` -/
def finish : Sys × Outcome → Sys
  | (s, .normal) => release s
  | (s, .misuse) => s

/-- a whole `threadsafe_mem_leak_*` call -/
def wrapper (op : DetOp) (s : Sys) : Option Sys :=
  (acquire s).map (fun s1 => finish (runBody op s1))

/-- the unlocked `mem_leak_*` call of the default mode (no lock involved) -/
def plainCall (op : DetOp) (s : Sys) : Sys := (runBody op s).1

def isMisuse (op : DetOp) (d : Det) : Bool := (body op d).2 == .misuse

/-! ## Part 2: threads and schedules -/

/-- what a thread does: detector operations, and hand-over of a block to / from another thread
    (hand-overs do not touch the detector) -/
inductive TOp
  | det (op : DetOp)
  | give (id : Nat) (k : Kind) (to : Nat)
  | take (id : Nat) (k : Kind)
deriving DecidableEq, Repr, Inhabited

/-- one scheduled step: thread id and its operation (a whole wrapper) -/
abbrev Event := Nat × TOp

/-- the detector operations of a schedule, in schedule order -/
def detOps : List Event → List DetOp
  | [] => []
  | (_, .det op) :: es => op :: detOps es
  | (_, .give _ _ _) :: es => detOps es
  | (_, .take _ _) :: es => detOps es

/-- the table after a list of detector operations (outcomes ignored) -/
def runDet : List DetOp → Det → Det
  | [], d => d
  | op :: ops, d => runDet ops (body op d).1

/-- the system run: every operation as a whole wrapper; `none` = some wrapper blocks -/
def runSys : List DetOp → Sys → Option Sys
  | [], s => some s
  | op :: ops, s => (wrapper op s).bind (runSys ops)

/-- environment contract: the underlying allocator never returns a block that is live -/
def fresh : DetOp → Det → Bool
  | .alloc id _, d => !(ids d).contains id
  | .free _ _ _, _ => true
  | .realloc old new _, d => !(ids (remove d old)).contains new

/-- one step is fine: the allocator kept its contract and no misuse was reported -/
def stepOk (op : DetOp) (d : Det) : Bool := fresh op d && ((body op d).2 == .normal)

/-- misuse-free run with distinct live ids -/
def RunOk : List DetOp → Det → Bool
  | [], _ => true
  | op :: ops, d => stepOk op d && RunOk ops (body op d).1

/-- thread `t`'s own operations, in its program order -/
def proj (t : Nat) : List Event → List TOp
  | [] => []
  | (u, op) :: es => if u = t then op :: proj t es else proj t es

/-! ### what a thread holds, from its own script only -/

def holdStep (o : List (Nat × Kind)) : TOp → List (Nat × Kind)
  | .det (.alloc id k) => (id, k) :: o
  | .det (.free id k _) => o.erase (id, k)
  | .det (.realloc old new _) => (new, .malloc) :: o.erase (old, .malloc)
  | .give id k _ => o.erase (id, k)
  | .take id k => (id, k) :: o

def holds : List TOp → List (Nat × Kind) → List (Nat × Kind)
  | [], o => o
  | op :: ops, o => holds ops (holdStep o op)

/-- the thread releases / hands over only what it holds at that moment -/
def opOwned (o : List (Nat × Kind)) : TOp → Bool
  | .det (.alloc _ _) => true
  | .det (.free id k _) => o.contains (id, k)
  | .det (.realloc old _ _) => o.contains (old, .malloc)
  | .give id k _ => o.contains (id, k)
  | .take _ _ => true

def ThreadOk : List TOp → List (Nat × Kind) → Bool
  | [], _ => true
  | op :: ops, o => opOwned o op && ThreadOk ops (holdStep o op)

/-- per-operation bookkeeping lists used by the conservation statements -/
def allocdOf : TOp → List (Nat × Kind)
  | .det (.alloc id k) => [(id, k)]
  | .det (.realloc _ new _) => [(new, .malloc)]
  | _ => []

def freedOf : TOp → List (Nat × Kind)
  | .det (.free id k _) => [(id, k)]
  | .det (.realloc old _ _) => [(old, .malloc)]
  | _ => []

def givenOf : TOp → List (Nat × Kind)
  | .give id k _ => [(id, k)]
  | _ => []

def takenOf : TOp → List (Nat × Kind)
  | .take id k => [(id, k)]
  | _ => []

/-- the union over threads `0 .. n-1` of what each still holds after its part of the schedule -/
def unionHeld (n : Nat) (sched : List Event) : List (Nat × Kind) :=
  (List.range n).flatMap (fun t => holds (proj t sched) [])

/-- the schedule that runs the threads one after another -/
def sequential : List (List TOp) → Nat → List Event
  | [], _ => []
  | ops :: rest, t => ops.map (fun op => (t, op)) ++ sequential rest (t + 1)

/-- `sched` is an interleaving of the thread scripts `ts` -/
def IsInterleaving (sched : List Event) (ts : List (List TOp)) : Prop :=
  (∀ e ∈ sched, e.1 < ts.length) ∧ ∀ t, (h : t < ts.length) → proj t sched = ts[t]

/-- the block ids an operation mentions -/
def opIds : DetOp → List Nat
  | .alloc id _ => [id]
  | .free id _ _ => [id]
  | .realloc old new _ => [old, new]


end ThreadSafe
