import CppUModel.Model.ThreadSafeSyntax
import CppUModel.Gen.ThreadSafeWiring
/-!
# Thread-safe allocation mode (C10): lock discipline and interleaving model

Written from `src/CppUTest/MemoryLeakWarningPlugin.cpp` (the `threadsafe_mem_leak_*` wrappers,
`MemLeakScopedMutex`, `MemoryLeakWarningReporter::fail`), `src/CppUTest/SimpleMutex.cpp`
(`ScopedMutexLock`), the pthread seams in `src/Platforms/Gcc/UtestPlatform.cpp` and the detector
operations the wrappers call (`MemoryLeakDetector::allocMemory / deallocMemory / reallocMemory`).

Part 1 (lock discipline).  Every wrapper is

    MemLeakScopedMutex lock;          -- constructor: member `ScopedMutexLock lock(getMutex())`
                                      --   = `mutex->Lock()` on ONE non-recursive pthread mutex,
                                      --   then the body `memLeakMutexIsHeld = true;`
    detector->operation(...)          -- body
                                      -- destructor at the closing brace: `memLeakMutexIsHeld = false;`
                                      --   then the member's destructor = `mutex->Unlock()`

The body can end in a *misuse report*: `MemoryLeakWarningReporter::fail` calls
`MemLeakScopedMutex::releaseBeforeFailing()` (`if (memLeakMutexIsHeld) { memLeakMutexIsHeld = false;
getMutex()->Unlock(); }`) and then `UtestShell::failWith(.., getCurrentTestTerminatorWithoutExceptions())`,
which leaves by `longjmp`.  A `longjmp` does not run destructors, so the destructor's statements are
skipped on that path.  The four statement lists are NOT written here: they are regenerated from the
source on every run (`Gen.ThreadSafe.code`) and executed by `exec` / `execFail` below, so the model
is the code as it is at check time (a constructor that forgets the flag, a `fail` that does not call
`releaseBeforeFailing`, a release that unlocks before it clears the flag all change what this model
does and break the obligations of `Props/C10.lean`).

Part 2 (interleaving).  Threads are lists of operations; because of Part 1 plus the generated
wiring obligation (`Gen/ThreadSafeWiring.lean`: every entry point is switched to a function that
locks first) a schedule is an interleaving of WHOLE wrappers.  The detector is an abstract finite
map of outstanding block ids (the full table model is C04's); ids stand for addresses, the
environment (underlying allocator) only hands out ids that are not live.
-/
namespace ThreadSafe

/-- which allocator family a block came from (`new`, `new[]`, `malloc`) -/
inductive Kind
  | new | newArray | malloc
deriving DecidableEq, Repr, Inhabited

/-- how a wrapper's body ends: normally (falls off the closing brace) or by a misuse report
    (non-local exit by `longjmp`) -/
inductive Outcome
  | normal | misuse
deriving DecidableEq, Repr, Inhabited

/-- outstanding blocks, newest first (`storeLeakInformation` adds, `removeNode` removes) -/
abbrev Det := List (Nat × Kind)

def ids (d : Det) : List Nat := d.map (·.1)

/-- `memoryTable_.retrieveNode(memory)`: the first outstanding block with that address -/
def lookup : Det → Nat → Option Kind
  | [], _ => none
  | (i, k) :: d, id => if i = id then some k else lookup d id

/-- `memoryTable_.removeNode(memory)`: drop the first outstanding block with that address -/
def remove : Det → Nat → Det
  | [], _ => []
  | (i, k) :: d, id => if i = id then d else (i, k) :: remove d id

/-- one detector operation, as called by a wrapper -/
inductive DetOp
  /-- `allocMemory`: the underlying allocator returned block `id` -/
  | alloc (id : Nat) (k : Kind)
  /-- `deallocMemory` of address `id` through the allocator family `k`; `corrupt` = the guard
      bytes behind the block were overwritten -/
  | free (id : Nat) (k : Kind) (corrupt : Bool)
  /-- `reallocMemory` (malloc family only): old address, address returned by the underlying
      realloc -/
  | realloc (old new : Nat) (corrupt : Bool)
deriving DecidableEq, Repr, Inhabited

/-- `checkForCorruption`: mismatch of allocator families is reported first, then corruption -/
def checkRelease (stored used : Kind) (corrupt : Bool) : Outcome :=
  if stored ≠ used then .misuse else if corrupt then .misuse else .normal

/-- the body of `deallocMemory` once the node was looked up -/
def freeFound (d : Det) (id : Nat) (used : Kind) (corrupt : Bool) : Option Kind → Det × Outcome
  | none => (d, .misuse)                                  -- "Deallocating non-allocated memory"
  | some stored => (remove d id, checkRelease stored used corrupt)

/-- the body of `reallocMemory` once the old node was removed and checked -/
def reallocChecked (d : Det) (old new : Nat) : Outcome → Det × Outcome
  | .misuse => (remove d old, .misuse)                    -- the report leaves before the new node is stored
  | .normal => ((new, .malloc) :: remove d old, .normal)

def reallocFound (d : Det) (old new : Nat) (corrupt : Bool) : Option Kind → Det × Outcome
  | none => (d, .misuse)                                  -- "Deallocating non-allocated memory"
  | some stored => reallocChecked d old new (checkRelease stored .malloc corrupt)

/-- a detector operation on the table: new table and how the body ended -/
def body : DetOp → Det → Det × Outcome
  | .alloc id k, d => ((id, k) :: d, .normal)
  | .free id k c, d => freeFound d id k c (lookup d id)
  | .realloc old new c, d => reallocFound d old new c (lookup d old)

/-! ## Part 1: the lock around one operation -/

/-- the detector's mutex and the file-static flag `memLeakMutexIsHeld` -/
structure LF where
  lock : LockState
  flag : Bool
deriving DecidableEq, Repr, Inhabited

/-- nobody inside a wrapper -/
def LF.idle : LF := { lock := .free, flag := false }
/-- where a wrapper's body runs: mutex taken, flag set -/
def LF.inside : LF := { lock := .held, flag := true }

/-- one simple statement.  `pthread_mutex_lock` on the detector's non-recursive mutex: `none` = the
    caller blocks (for ever, if nobody will release) -/
def execSimple : Simple → LF → Option LF
  | .lock, s => if s.lock = .free then some { s with lock := .held } else none
  | .unlock, s => some { s with lock := .free }
  | .setFlag b, s => some { s with flag := b }

def execSimples : List Simple → LF → Option LF
  | [], s => some s
  | x :: xs, s => (execSimple x s).bind (execSimples xs)

def execStmt : LStmt → LF → Option LF
  | .simple x, s => execSimple x s
  | .ifFlag b, s => if s.flag then execSimples b s else some s

/-- a statement list in source order -/
def exec : List LStmt → LF → Option LF
  | [], s => some s
  | x :: xs, s => (execStmt x s).bind (exec xs)

/-- `MemoryLeakWarningReporter::fail`: statements up to and including the `failWith` that leaves by
    `longjmp`; what follows it is never executed -/
def execFail (c : Code) : List FStmt → LF → Option LF
  | [], s => some s
  | .other :: fs, s => execFail c fs s
  | .releaseBeforeFailing :: fs, s => (exec c.release s).bind (execFail c fs)
  | .failWith :: _, s => some s
  | .addFailure :: fs, s => execFail c fs s
  | .exitCurrentTest :: _, s => some s

/-! ### recording the failure is a callback into the installed output

`failWith` = `addFailure` (-> `TestResult::addFailure` -> `TestOutput::printFailure`), then the terminator's
`longjmp`.  `execFail` above is the report with an output whose `printFailure` does not allocate through
`operator new` (console, verbose, TeamCity, the string buffer of the test fixture: they only use
`SimpleString`, whose allocator bypasses the overloads).  `JUnitTestOutput::printFailure` does
`new TestFailure(failure)`: with the thread-safe table installed that is one more whole wrapper call made
by the SAME thread, from inside `fail` - if `fail` has not given the non-recursive mutex back yet, the
constructor's `Lock()` blocks for ever. -/

/-- the environment of a misuse report: `alloc` = the installed output's `printFailure` allocates through
    `operator new` (JUnit, alone or inside a CompositeTestOutput); `locked` = `operator new` is on its
    thread-safe wrapper right now -/
structure Out where
  alloc  : Bool
  locked : Bool
deriving DecidableEq, Repr, Inhabited

/-- an output that does not allocate (what `execFail` assumes) -/
def Out.quiet : Out := { alloc := false, locked := false }

/-- the allocating callback: a whole wrapper call without misuse (constructor, `allocMemory`, destructor)
    started in the state the reporter is in; `none` = blocks.  The block it registers is released again
    when the output finishes the group (`resetTestGroupResult`), before the next observation. -/
def callback (c : Code) (o : Out) (s : LF) : Option LF :=
  if o.alloc && o.locked then (exec c.ctor s).bind (exec c.dtor) else some s

/-- `MemoryLeakWarningReporter::fail` with the output `o` installed -/
def execFailOut (c : Code) (o : Out) : List FStmt → LF → Option LF
  | [], s => some s
  | .other :: fs, s => execFailOut c o fs s
  | .releaseBeforeFailing :: fs, s => (exec c.release s).bind (execFailOut c o fs)
  | .failWith :: _, s => callback c o s
  | .addFailure :: fs, s => (callback c o s).bind (execFailOut c o fs)
  | .exitCurrentTest :: _, s => some s

structure Sys where
  lf  : LF
  det : Det
deriving DecidableEq, Repr, Inhabited

/-- lock free, flag clear, table `d` -/
def Sys.idle (d : Det) : Sys := { lf := LF.idle, det := d }

def Sys.lock (s : Sys) : LockState := s.lf.lock

/-- how the scope of a wrapper is left: the destructor runs on a normal exit; a misuse report runs
    `fail`, whose `longjmp` skips the destructor -/
def leave (c : Code) : Outcome → LF → Option LF
  | .normal, s => exec c.dtor s
  | .misuse, s => execFail c c.fail s

def withDet (d : Det) (l : LF) : Sys := { lf := l, det := d }

/-- a whole `threadsafe_mem_leak_*` call, for the code `c` -/
def wrapperWith (c : Code) (op : DetOp) (s : Sys) : Option Sys :=
  ((exec c.ctor s.lf).bind (leave c (body op s.det).2)).map (withDet (body op s.det).1)

/-- the unlocked `mem_leak_*` call of the default mode: no scoped lock; a misuse report still goes
    through `MemoryLeakWarningReporter::fail` -/
def plainCallWith (c : Code) (op : DetOp) (s : Sys) : Option Sys :=
  (match (body op s.det).2 with
   | .normal => some s.lf
   | .misuse => execFail c c.fail s.lf).map (withDet (body op s.det).1)

/-- the same two calls with the output `o` installed -/
def leaveOut (c : Code) (o : Out) : Outcome → LF → Option LF
  | .normal, s => exec c.dtor s
  | .misuse, s => execFailOut c o c.fail s

def wrapperOutWith (c : Code) (o : Out) (op : DetOp) (s : Sys) : Option Sys :=
  ((exec c.ctor s.lf).bind (leaveOut c o (body op s.det).2)).map (withDet (body op s.det).1)

def plainCallOutWith (c : Code) (o : Out) (op : DetOp) (s : Sys) : Option Sys :=
  (match (body op s.det).2 with
   | .normal => some s.lf
   | .misuse => execFailOut c o c.fail s.lf).map (withDet (body op s.det).1)

/-- the code as it is in the source tree at check time -/
def wrapperOut (o : Out) (op : DetOp) (s : Sys) : Option Sys := wrapperOutWith Gen.ThreadSafe.code o op s
def plainCallOut (o : Out) (op : DetOp) (s : Sys) : Option Sys := plainCallOutWith Gen.ThreadSafe.code o op s

/-- the code as it is in the source tree at check time -/
def wrapper (op : DetOp) (s : Sys) : Option Sys := wrapperWith Gen.ThreadSafe.code op s
def plainCall (op : DetOp) (s : Sys) : Option Sys := plainCallWith Gen.ThreadSafe.code op s

def isMisuse (op : DetOp) (d : Det) : Bool := (body op d).2 == .misuse

/-! ### the states a wrapper goes through, statement by statement (for the flag invariant) -/

def traceSimples : List Simple → LF → List LF
  | [], _ => []
  | x :: xs, s =>
    match execSimple x s with
    | some s' => s' :: traceSimples xs s'
    | none => []

def traceStmt : LStmt → LF → List LF
  | .simple x, s => traceSimples [x] s
  | .ifFlag b, s => if s.flag then traceSimples b s else []

/-- every state reached while the list runs from `s` (after each simple statement) -/
def trace : List LStmt → LF → List LF
  | [], _ => []
  | x :: xs, s =>
    traceStmt x s ++ (match execStmt x s with
                      | some s' => trace xs s'
                      | none => [])

def traceFail (c : Code) : List FStmt → LF → List LF
  | [], _ => []
  | .other :: fs, s => traceFail c fs s
  | .releaseBeforeFailing :: fs, s =>
    trace c.release s ++ (match exec c.release s with
                          | some s' => traceFail c fs s'
                          | none => [])
  | .failWith :: _, _ => []
  | .addFailure :: fs, s => traceFail c fs s
  | .exitCurrentTest :: _, _ => []

/-- all states of one wrapper call that starts with nobody inside: constructor, the point where the
    body runs, then destructor (normal exit) or `fail` (misuse report) -/
def wrapperTrace (c : Code) (o : Outcome) : List LF :=
  LF.idle :: trace c.ctor LF.idle ++
    (match exec c.ctor LF.idle with
     | some s1 => (match o with
                   | .normal => trace c.dtor s1
                   | .misuse => traceFail c c.fail s1)
     | none => [])

/-- the state in which the body (and therefore a misuse report) runs -/
def bodyPoint (c : Code) : Option LF := exec c.ctor LF.idle

/-! ## Part 2: threads and schedules -/

/-- what a thread does: detector operations, and hand-over of a block to / from another thread
    (hand-overs do not touch the detector) -/
inductive TOp
  | det (op : DetOp)
  | give (id : Nat) (k : Kind) (to : Nat)
  | take (id : Nat) (k : Kind)
deriving DecidableEq, Repr, Inhabited

/-- one scheduled step: thread id and its operation (a whole wrapper) -/
abbrev Event := Nat × TOp

/-- the detector operations of a schedule, in schedule order -/
def detOps : List Event → List DetOp
  | [] => []
  | (_, .det op) :: es => op :: detOps es
  | (_, .give _ _ _) :: es => detOps es
  | (_, .take _ _) :: es => detOps es

/-- the table after a list of detector operations (outcomes ignored) -/
def runDet : List DetOp → Det → Det
  | [], d => d
  | op :: ops, d => runDet ops (body op d).1

/-- the system run: every operation as a whole wrapper; `none` = some wrapper blocks -/
def runSysWith (c : Code) : List DetOp → Sys → Option Sys
  | [], s => some s
  | op :: ops, s => (wrapperWith c op s).bind (runSysWith c ops)

def runSys (ops : List DetOp) (s : Sys) : Option Sys := runSysWith Gen.ThreadSafe.code ops s

/-- environment contract: the underlying allocator never returns a block that is live -/
def fresh : DetOp → Det → Bool
  | .alloc id _, d => !(ids d).contains id
  | .free _ _ _, _ => true
  | .realloc old new _, d => !(ids (remove d old)).contains new

/-- one step is fine: the allocator kept its contract and no misuse was reported -/
def stepOk (op : DetOp) (d : Det) : Bool := fresh op d && ((body op d).2 == .normal)

/-- misuse-free run with distinct live ids -/
def RunOk : List DetOp → Det → Bool
  | [], _ => true
  | op :: ops, d => stepOk op d && RunOk ops (body op d).1

/-- thread `t`'s own operations, in its program order -/
def proj (t : Nat) : List Event → List TOp
  | [] => []
  | (u, op) :: es => if u = t then op :: proj t es else proj t es

/-! ### what a thread holds, from its own script only -/

def holdStep (o : List (Nat × Kind)) : TOp → List (Nat × Kind)
  | .det (.alloc id k) => (id, k) :: o
  | .det (.free id k _) => o.erase (id, k)
  | .det (.realloc old new _) => (new, .malloc) :: o.erase (old, .malloc)
  | .give id k _ => o.erase (id, k)
  | .take id k => (id, k) :: o

def holds : List TOp → List (Nat × Kind) → List (Nat × Kind)
  | [], o => o
  | op :: ops, o => holds ops (holdStep o op)

/-- the thread releases / hands over only what it holds at that moment -/
def opOwned (o : List (Nat × Kind)) : TOp → Bool
  | .det (.alloc _ _) => true
  | .det (.free id k _) => o.contains (id, k)
  | .det (.realloc old _ _) => o.contains (old, .malloc)
  | .give id k _ => o.contains (id, k)
  | .take _ _ => true

def ThreadOk : List TOp → List (Nat × Kind) → Bool
  | [], _ => true
  | op :: ops, o => opOwned o op && ThreadOk ops (holdStep o op)

/-- per-operation bookkeeping lists used by the conservation statements -/
def allocdOf : TOp → List (Nat × Kind)
  | .det (.alloc id k) => [(id, k)]
  | .det (.realloc _ new _) => [(new, .malloc)]
  | _ => []

def freedOf : TOp → List (Nat × Kind)
  | .det (.free id k _) => [(id, k)]
  | .det (.realloc old _ _) => [(old, .malloc)]
  | _ => []

def givenOf : TOp → List (Nat × Kind)
  | .give id k _ => [(id, k)]
  | _ => []

def takenOf : TOp → List (Nat × Kind)
  | .take id k => [(id, k)]
  | _ => []

/-- the union over threads `0 .. n-1` of what each still holds after its part of the schedule -/
def unionHeld (n : Nat) (sched : List Event) : List (Nat × Kind) :=
  (List.range n).flatMap (fun t => holds (proj t sched) [])

/-- the schedule that runs the threads one after another -/
def sequential : List (List TOp) → Nat → List Event
  | [], _ => []
  | ops :: rest, t => ops.map (fun op => (t, op)) ++ sequential rest (t + 1)

/-- `sched` is an interleaving of the thread scripts `ts` -/
def IsInterleaving (sched : List Event) (ts : List (List TOp)) : Prop :=
  (∀ e ∈ sched, e.1 < ts.length) ∧ ∀ t, (h : t < ts.length) → proj t sched = ts[t]

/-- the block ids an operation mentions -/
def opIds : DetOp → List Nat
  | .alloc id _ => [id]
  | .free id _ _ => [id]
  | .realloc old new _ => [old, new]


end ThreadSafe
