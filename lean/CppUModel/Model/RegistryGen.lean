import CppUModel.Gen.PointerArray
/-!
`TestRegistry::shuffleTests` / `reverseTests` executed through the REGENERATED
`UtestShellPointerArray` methods (`Gen/PointerArray.lean`, translated from the clang AST on every
run):

    UtestShellPointerArray array(getFirstTest());  array.shuffle(seed) | array.reverse();
    tests_ = array.getFirstTest();

The constructor (`mkArray`) and `getFirstTest` (`firstOf`) are the hand-written ones of
Model/Registry.lean.  `Props/C02.lean` proves these functions equal to `Reg.shuffleTests` /
`Reg.reverseTests` (the hand-written array model); the C02 driver executes THESE, so the
translator's output is what the correspondence harness compares with the real code.
-/
namespace Registry
open PA

/-- the pointer array object `UtestShellPointerArray array(getFirstTest())` -/
def Reg.pointerArray (r : Reg) (rs : List Nat) : St :=
  { arr := mkArray r.next r.objs.size r.head, count := (mkArray r.next r.objs.size r.head).size,
    next := r.next, rands := rs }

/-- `tests_ = array.getFirstTest()` after a method of the array ran -/
def Reg.afterArray (r : Reg) (s : St) : Reg := { r with next := s.next, head := firstOf s.arr }

structure GenResult where
  reg    : Reg
  srands : List Nat          -- seeds `PlatformSpecificSrand` got
  rest   : List Nat          -- random numbers not consumed

/-- `TestRegistry::shuffleTests(seed)` through the regenerated `shuffle`; `none` = the loop fuel
    the translator chose was exhausted (never, see `gen_shuffleTests_eq`) -/
def Reg.shuffleTestsGen (r : Reg) (seed : Nat) (rs : List Nat) : Option GenResult :=
  match (Gen.PointerArray.shuffle (r.pointerArray rs) seed).state? with
  | some s => some { reg := r.afterArray s, srands := s.srands, rest := s.rands }
  | none => none

/-- `TestRegistry::reverseTests()` through the regenerated `reverse` -/
def Reg.reverseTestsGen (r : Reg) : Option GenResult :=
  match (Gen.PointerArray.reverse (r.pointerArray [])).state? with
  | some s => some { reg := r.afterArray s, srands := s.srands, rest := s.rands }
  | none => none

end Registry
