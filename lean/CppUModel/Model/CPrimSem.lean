import CppUModel.Base.CString
/-!
# C semantics used by the REGENERATED primitives (`Gen/StringPrims.lean`)

`translate/extract_string_prims.py` turns the clang AST of the C-library-like primitives of
`src/CppUTest/SimpleString.cpp` into Lean; every typed AST node maps to one of the operations below
(LP64, `char` signed).  Pointers are (buffer, offset) pairs read through `CStr.rd` / `CStr.wr`.
Core Lean only.
-/
namespace CPrim
open CStr

/-- `char → int` (`char` is signed: sign extension) -/
def sx8 (c : UInt8) : Int := if c.toNat < 128 then (c.toNat : Int) else (c.toNat : Int) - 256
/-- `unsigned char → int` -/
def zx8 (c : UInt8) : Int := (c.toNat : Int)
/-- `int → char` / `int → unsigned char` (value modulo 256) -/
def i2c (i : Int) : UInt8 := UInt8.ofNat (i % 256).toNat
/-- `int → unsigned` (value modulo 2^32) -/
def i2u32 (i : Int) : Nat := (i % 4294967296).toNat
/-- result of an `int` operation: outside the range of `int` the C code has undefined behaviour -/
def ckInt (i : Int) : Except Err Int :=
  if -2147483648 ≤ i ∧ i ≤ 2147483647 then .ok i else .error .overflow
/-- read through a pointer that may be NULL -/
def rdN (isNull : Bool) (b : Buf) (i : Nat) : Except Err UInt8 := if isNull then .error .oob else rd b i
/-- write through a pointer that may be NULL -/
def wrN (isNull : Bool) (b : Buf) (i : Nat) (v : UInt8) : Except Err Buf := if isNull then .error .oob else wr b i v

/-- `p - n` on a pointer: a pointer before the start of its buffer is outside the model -/
def psub (p n : Nat) : Except Err Nat := if n ≤ p then .ok (p - n) else .error .oob

end CPrim
