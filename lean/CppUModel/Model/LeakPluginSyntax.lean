/-!
Syntax shared by the regenerated file `Gen/LeakPluginCode.lean` (written by
`translate/extract_leakplugin.py` from `MemoryLeakWarningPlugin.cpp`, `MemoryLeakDetector.cpp`,
`Utest.cpp`) and the hand-written interpreter `Model/LeakPlugin.lean`.

The statement lists of the small functions the C07 property rests on are not copied by hand:
the extractor turns each C++ statement into one micro-step below, and the model executes those
lists.  A source edit that drops, reorders or changes a statement therefore changes the model
the theorems are about.
-/
namespace LeakPlugin

/-- `enum MemLeakPeriod` -/
inductive Period
  | all | disabled | enabled | checking
deriving DecidableEq, Repr, Inhabited

/-- statements of the detector functions `startChecking`, `stopChecking`, `enable` -/
inductive DStep
  | clearOutput                    -- `outputBuffer_.clear();`
  | setPeriod (p : Period)         -- `current_period_ = p;`
deriving DecidableEq, Repr, Inhabited

/-- statements of `MemoryLeakWarningPlugin::preTestAction` / `postTestAction` -/
inductive PStep
  | startChecking                  -- `memLeakDetector_->startChecking();`
  | stopChecking                   -- `memLeakDetector_->stopChecking();`
  | saveFailureCount               -- `failureCount_ = result.getFailureCount();`
  | countLeaks (p : Period)        -- `size_t leaks = memLeakDetector_->totalMemoryLeaks(p);`
  | verdict (p : Period)           -- `if (failCond) { if (overloaded) addFailure(report(p)) else if (warnCond) print }`
  | demote                         -- `memLeakDetector_->markCheckingPeriodLeaksAsNonCheckingPeriod();`
  | setIgnore (b : Bool)           -- `ignoreAllWarnings_ = b;`
  | setExpected (n : Nat)          -- `expectedLeaks_ = n;`
deriving DecidableEq, Repr, Inhabited

/-- where a field of the node that `reallocMemory` re-registers after a FAILED platform realloc
    comes from: the saved copy of the old node (`oldNode.x_`), or the detector's current value
    (`current_period_`, `allocationSequenceNumber_++`, the requested `size`) -/
inductive FieldSrc
  | old | fresh
deriving DecidableEq, Repr, Inhabited

/-- the static `MemoryLeakWarningPlugin::firstPlugin_`, through which the macros
    `EXPECT_N_LEAKS` / `IGNORE_ALL_LEAKS_IN_TEST` reach a plugin object: not set yet, the installed
    plugin, or some other plugin object (constructed, never installed) -/
inductive FirstPlugin
  | unset | installed | other
deriving DecidableEq, Repr, Inhabited

/-- the calls of `UtestShell::runOneTestInCurrentProcess`, in source order -/
inductive RStep
  | preActions | createTest | runTest | destroyTest | postActions
deriving DecidableEq, Repr, Inhabited

end LeakPlugin
