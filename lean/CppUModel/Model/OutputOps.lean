import CppUModel.Base.Proto
import CppUModel.Model.OutputEvents
/-!
Decoding of the operation lines shared by the C16 and C20 harnesses into the scripted registry
(`OutEv.Script`).  Operations:

    package <hex>                              (C16 only)
    filter <hex pattern> <strict 0|1> <invert 0|1>
    realio                                     (real-I/O sub-mode of the harness; the writers' output is the same)
    separate                                   (C20 with realio: `-p`, every test in its own process)
    repeat <n>                                 (`-r<n>`: the same output object receives n runs of the registry)
    verbose <0|1|2>                            (quiet, -v, -vv: `TestOutput::verbose(level)` before the run)
    test <hex group> <hex name> <hex file> <line> <run|ign>
    print <hex file> <line> <hex text>         (actions belong to the latest test)
    fail  <hex file> <line> <hex message>
    failx <hex file> <line> <hex message>
    failmsg <hex message>                      (TestFailure without a location)
    failloc <hex file> <line>                  (TestFailure without a message)
    postfail <hex message>                     (added by a plugin's post-test action)
    checks <n>
    tick <ms>
    run
-/
namespace OutOps
open OutEv

structure Reg where
  package : Text.Bytes := []
  filter  : Option Filter := none
  verbosity : Nat := 0
  repeats   : Nat := 1
  realio    : Bool := false
  separate  : Bool := false
  tests   : List Script := []        -- newest first
deriving Inhabited

def Reg.scripts (r : Reg) : List Script := r.tests.reverse

def addAct (r : Reg) (a : Act) : Reg :=
  match r.tests with
  | [] => r
  | t :: rest => { r with tests := { t with acts := t.acts ++ [a] } :: rest }

/-- `none` = malformed line (the harness prints `> skip` for those and ignores them) -/
def applyOp (r : Reg) (w : List String) : Option Reg :=
  match w with
  | ["package", p] => (Proto.unhex? p).map fun p => { r with package := p }
  | ["repeat", n] => n.toNat?.bind fun n => if 1 ≤ n ∧ n ≤ 9 then some { r with repeats := n } else none
  | ["realio"] => some { r with realio := true }
  | ["separate"] => some { r with separate := true }
  | ["verbose", n] => n.toNat?.bind fun n => if n ≤ 2 then some { r with verbosity := n } else none
  | ["filter", p, s, i] =>
    (Proto.unhex? p).map fun p => { r with filter := some { pat := p, strict := s == "1", invert := i == "1" } }
  | ["test", g, n, f, l, k] =>
    match Proto.unhex? g, Proto.unhex? n, Proto.unhex? f, l.toNat? with
    | some g, some n, some f, some l =>
      some { r with tests := { info := { group := g, name := n, file := f, line := l, willRun := k != "ign" }, acts := [] } :: r.tests }
    | _, _, _, _ => none
  | ["print", f, l, x] =>
    match Proto.unhex? f, l.toNat?, Proto.unhex? x with
    | some f, some l, some x => some (addAct r (.print f l x))
    | _, _, _ => none
  | ["fail", f, l, x] =>
    match Proto.unhex? f, l.toNat?, Proto.unhex? x with
    | some f, some l, some x => some (addAct r (.fail f l x))
    | _, _, _ => none
  | ["failx", f, l, x] =>
    match Proto.unhex? f, l.toNat?, Proto.unhex? x with
    | some f, some l, some x => some (addAct r (.failExit f l x))
    | _, _, _ => none
  | ["failmsg", x] => (Proto.unhex? x).map fun x => addAct r (.failMsg x)
  | ["failloc", f, l] =>
    match Proto.unhex? f, l.toNat? with
    | some f, some l => some (addAct r (.failLoc f l))
    | _, _ => none
  | ["postfail", x] => (Proto.unhex? x).map fun x => addAct r (.postFail x)
  | ["checks", n] => n.toNat?.map fun n => addAct r (.checks n)
  | ["tick", n] => n.toNat?.map fun n => addAct r (.tick n)
  | _ => none

/-- the registry described by the operations of a case up to (not including) the first `run` -/
def regOfOps (ops : List (List String)) : Reg :=
  ops.foldl (fun r w => match applyOp r w with | some r' => r' | none => r) {}

end OutOps
