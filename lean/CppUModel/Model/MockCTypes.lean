/-!
# C19 — syntax of the wiring descriptors of the C mocking layer

`translate/extract_cmock.py` regenerates `Gen/CMockWiring.lean` in these types from
`MockSupport_c.h` / `MockSupport_c.cpp`; `Spec/MockC.lean` states the REQUIRED wiring in the same types, so
that `wiring_correct` is an equality of closed terms.
-/
namespace MockC

/-- the three static pointers of MockSupport_c.cpp (`currentMockSupport`, `expectedCall`, `actualCall`);
    also used for the three function tables (`gMockSupport`, `gExpectedCall`, `gActualCall`) -/
inductive Ptr | sup | exp | act
deriving DecidableEq, Repr, Inhabited

/-- how a forwarder builds one argument of the C++ call from its own parameters -/
inductive ArgExpr
  | param (name ty : String)      -- the parameter itself; `ty` = its declared type (selects the C++ overload)
  | neZero (name : String)        -- `(name != 0)`: int → bool
  | fnCast (name : String)        -- `(cpputest_cpp_function_pointer) name`
  | newNode (listVar : String)    -- `*comparatorList_` / `*copierList_`: the adaptor node just created
  | other (text : String)         -- anything else (never required)
deriving DecidableEq, Repr, Inhabited

/-- how a forwarder converts the C++ result -/
inductive Post
  | id | boolToInt | fnCastBack | toCValue
  | other (text : String)
deriving DecidableEq, Repr, Inhabited

/-- body of a forwarder -/
inductive Body
  /-- `store = &recv->method(args); return &gTable;` -/
  | chain (store recv : Ptr) (method : String) (args : List ArgExpr) (table : Ptr)
  /-- `recv->method(args);` -/
  | void_ (recv : Ptr) (method : String) (args : List ArgExpr)
  /-- `return post(recv->method(args));` -/
  | ret (recv : Ptr) (method : String) (args : List ArgExpr) (post : Post)
  /-- `if (!hasFn()) { return defaultValue; } return getFn();` -/
  | orDefault (hasFn getFn : String)
  /-- `listVar = new cls(listVar, ctorArgs); currentMockSupport->method(args);` -/
  | install (listVar cls : String) (ctorArgs : List ArgExpr) (method : String) (args : List ArgExpr)
  /-- delete both adaptor lists, then `currentMockSupport->removeAllComparatorsAndCopiers();` -/
  | removeAll
  /-- `currentMockSupport = &mock(scope, &failureReporterForC); return &gMockSupport;` (`none` = `""`) -/
  | mock (scopeParam : Option String)
  | other (text : String)
deriving DecidableEq, Repr, Inhabited

structure Fwd where
  name   : String
  params : List (String × String)      -- (parameter name, short type)
  body   : Body
deriving DecidableEq, Repr, Inhabited

/-- one branch of `getMockValueCFromNamedValue` -/
structure TagRow where
  type   : Option String      -- the C++ type string compared with; `none` = the final `else`
  tag    : String             -- enum constant stored in `.type`
  member : String             -- union member written
  getter : String             -- MockNamedValue getter read
  post   : Post
deriving DecidableEq, Repr, Inhabited

/-- shape of a C++ return-value getter -/
inductive GetterShape
  | plain (namedValueGetter : String)       -- `return returnValue().getX();`
  | orDefault (plainGetter : String)        -- default iff `!hasReturnValue()`, else `plainGetter()`
  | other (text : String)
deriving DecidableEq, Repr, Inhabited

/-- how a virtual method of an adaptor node (`MockCFunctionComparatorNode`, `MockCFunctionCopierNode`) calls the C
    function it wraps -/
structure AdaptorCall where
  method : String      -- `isEqual`, `valueToString`, `copy`
  callee : String      -- the stored C function pointer
  /-- for every argument of the C function, in order: the position of the method's parameter that is passed
      (99 = not a parameter) -/
  order  : List Nat
  wrap   : String      -- what happens to the result: `!=0`, `SimpleString`, or nothing
deriving DecidableEq, Repr, Inhabited

/-- one statement of the node-freeing loops of `removeAllComparatorsAndCopiers_c` -/
inductive NStmt
  | loadNext (list : String) (member : String)   -- `T* next = L->member;`
  | delete (list : String)                       -- `delete L;`
  | advance (list : String)                      -- `L = next;`
  | other (text : String)
deriving DecidableEq, Repr, Inhabited

/-- `while (cond) { body }` -/
structure NLoop where
  cond : String
  body : List NStmt
deriving DecidableEq, Repr, Inhabited

/-- constructor of an adaptor node class: parameter names in order, and the member initialiser list
    (member, expression) -/
structure NodeCtor where
  cls    : String
  params : List String
  inits  : List (String × String)
deriving DecidableEq, Repr, Inhabited

/-- `failTest` of a `MockFailureReporter` class: `if (guard) getTestToFail()->callee(failure, termClass(termArg));` -/
structure ReporterDesc where
  cls       : String
  guard     : String
  callee    : String
  termClass : String
  termArg   : String
deriving DecidableEq, Repr, Inhabited

/-- `exitCurrentTest` of a terminator class: `if (crashGuard) crashCall(); UtestShell::exitVia().exitCurrentTest();` -/
structure TermDesc where
  cls        : String
  crashGuard : String
  crashCall  : String
  exitVia    : String
deriving DecidableEq, Repr, Inhabited

/-- `currentMockSupport = &mock(scopeArg [, reporterArg]);` of `mock_c` / `mock_scope_c` -/
structure MockCallDesc where
  fwd      : String
  scopeArg : String
  reporter : Option String
deriving DecidableEq, Repr, Inhabited

/-- one top-level statement of `MockSupport::actualCall(const SimpleString&)` (MockSupport.cpp) -/
inductive ACStep
  | scopeName                  -- `const SimpleString scopeFunctionName = appendScopeToName(functionName);`
  | finishLast                 -- `if (last) { last->checkExpectations(); delete last; last = NULLPTR; }`
  | retIgnoredIfDisabled       -- `if (!enabled_) return MockIgnoredActualCall::instance();`
  | retTraceIfTracing          -- `if (tracing_) return MockActualCallTrace::instance().withName(..);`
  | retIgnoredIfCallIgnored    -- `if (callIsIgnored(..)) return MockIgnoredActualCall::instance();`
  | createChecked              -- `MockCheckedActualCall* call = createActualCall();` (sets lastActualFunctionCall_)
  | withName                   -- `call->withName(..);`
  | retChecked                 -- `return *call;`
  | other (text : String)
deriving DecidableEq, Repr, Inhabited

end MockC
