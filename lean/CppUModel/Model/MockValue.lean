import CppUModel.Spec.Text
/-!
# Model of `MockNamedValue` (src/CppUTestExt/MockNamedValue.cpp) — hand-written part

`MVal` is the tagged union: the constructor is the active union member, `type_` the type-name
string the setter stores with it (LP64: `int`/`unsigned` 32 bits, `long`/`long long` 64 bits).
The readers below are named after the C++ members (`self.intValue_`, `p.longIntValue_`, …) so
that the REGENERATED functions in `Gen/MockEquals.lean` (translator `translate/cxx2lean_c09.py`,
clang AST → Lean) read like the source.  A reader applied to a value whose active member is a
different one is a read of an inactive union member (undefined behaviour in C++); the translator
refuses to translate a function that does that (`TranslateError`), so the fall-back arms of the
readers are never evaluated by generated code on well-formed values (`Mock.WF`).

Hand-written here (tied to the code by the `h_c09` correspondence): `SimpleString(const char*)`
and `operator==` on it (content through `Text.cmp`, NULL = empty string), `SimpleString::MemCmp`,
`doubles_equal` (class model `D` over NaN / ±inf / finite with the finite comparison as a
parameter), the comparator call.  Core Lean only.
-/
namespace Mock

abbrev Bytes := List UInt8

/-- class of a `double`: the theorems are about this class logic; `F` is the carrier of the
    finite values (`Float` in the driver) -/
inductive D (F : Type) where
  | nan
  | inf (neg : Bool)
  | fin (x : F)

/-- a failing `STRCMP_EQUAL(expected, type_.asCharString())`: the test fails and the getter does
    not return -/
inductive Fail where
  | typeMismatch (expected : String)
deriving Repr, DecidableEq

/-- the value held by a `MockNamedValue` -/
inductive MVal where
  | bool (b : Bool)
  | int (v : BitVec 32)
  | uint (v : BitVec 32)
  | long (v : BitVec 64)
  | ulong (v : BitVec 64)
  | llong (v : BitVec 64)
  | ullong (v : BitVec 64)
  | dbl (v tol : D Float)
  | str (s : Option Bytes)              -- `const char*`; `none` = NULL; bytes without terminator
  | ptr (a : Nat)                       -- `void*` (address; identity only)
  | cptr (a : Nat)                      -- `const void*`
  | fptr (a : Nat)                      -- `void (*)()`
  | mem (bytes : Bytes)                 -- `const unsigned char*` + `size_` = number of bytes
  | obj (ty : String) (a : Nat) (cmp : Option (Nat → Nat → Bool))   -- custom type, comparator of the type if installed

/-- `type_`: the string the setter stores -/
def MVal.type_ : MVal → String
  | .bool _ => "bool"
  | .int _ => "int"
  | .uint _ => "unsigned int"
  | .long _ => "long int"
  | .ulong _ => "unsigned long int"
  | .llong _ => "long long int"
  | .ullong _ => "unsigned long long int"
  | .dbl _ _ => "double"
  | .str _ => "const char*"
  | .ptr _ => "void*"
  | .cptr _ => "const void*"
  | .fptr _ => "void (*)()"
  | .mem _ => "const unsigned char*"
  | .obj ty _ _ => ty

/-- (type name, union member(s) written, C type of the member) for every setter with a literal
    type name, in source order — compared with the table the translator extracts from the
    `setValue` overloads (`Gen.MockEquals.setters`) -/
def modelledSetters : List (String × String × String) :=
  [ ("bool", "boolValue_", "bool"),
    ("unsigned int", "unsignedIntValue_", "unsigned int"),
    ("int", "intValue_", "int"),
    ("long int", "longIntValue_", "long"),
    ("unsigned long int", "unsignedLongIntValue_", "unsigned long"),
    ("long long int", "longLongIntValue_", "long long"),
    ("unsigned long long int", "unsignedLongLongIntValue_", "unsigned long long"),
    ("double", "doubleValue_value", "double"),
    ("double", "doubleValue_tolerance", "double"),
    ("void*", "pointerValue_", "void *"),
    ("const void*", "constPointerValue_", "const void *"),
    ("void (*)()", "functionPointerValue_", "void (*)()"),
    ("const char*", "stringValue_", "const char *"),
    ("const unsigned char*", "memoryBufferValue_", "const unsigned char *") ]

/-! ## readers, named after the members -/

def MVal.boolValue_ : MVal → Bool
  | .bool b => b
  | _ => false
def MVal.intValue_ : MVal → BitVec 32
  | .int v => v
  | _ => 0
def MVal.unsignedIntValue_ : MVal → BitVec 32
  | .uint v => v
  | _ => 0
def MVal.longIntValue_ : MVal → BitVec 64
  | .long v => v
  | _ => 0
def MVal.unsignedLongIntValue_ : MVal → BitVec 64
  | .ulong v => v
  | _ => 0
def MVal.longLongIntValue_ : MVal → BitVec 64
  | .llong v => v
  | _ => 0
def MVal.unsignedLongLongIntValue_ : MVal → BitVec 64
  | .ullong v => v
  | _ => 0
def MVal.doubleValue_value : MVal → D Float
  | .dbl v _ => v
  | _ => .nan
def MVal.doubleValue_tolerance : MVal → D Float
  | .dbl _ t => t
  | _ => .nan
def MVal.stringValue_ : MVal → Option Bytes
  | .str s => s
  | _ => none
def MVal.pointerValue_ : MVal → Nat
  | .ptr a => a
  | _ => 0
def MVal.constPointerValue_ : MVal → Nat
  | .cptr a => a
  | _ => 0
def MVal.functionPointerValue_ : MVal → Nat
  | .fptr a => a
  | _ => 0
def MVal.memoryBufferValue_ : MVal → Bytes
  | .mem b => b
  | _ => []
def MVal.constObjectPointerValue_ : MVal → Nat
  | .obj _ a _ => a
  | _ => 0
def MVal.objectPointerValue_ : MVal → Nat
  | .obj _ a _ => a
  | _ => 0
/-- `size_` (`size_t`): set by `setMemoryBuffer`, 0 from the constructor otherwise -/
def MVal.size_ : MVal → BitVec 64
  | .mem b => BitVec.ofNat 64 b.length
  | _ => 0
/-- `comparator_`: only `setObjectPointer`/`setConstObjectPointer` look one up -/
def MVal.comparator_ : MVal → Option (Nat → Nat → Bool)
  | .obj _ _ c => c
  | _ => none

/-! ## C conversions used by the generated code -/

/-- `bool` → integer type of width `w` (integral promotion of a `bool`) -/
def boolToBV (w : Nat) (b : Bool) : BitVec w := (BitVec.ofBool b).setWidth w

/-! ## hand-written callees -/

/-- `SimpleString(const char*)`: NULL gives the empty string -/
def simpleStringOfCStr : Option Bytes → Bytes
  | none => []
  | some b => b

/-- `operator==(SimpleString, SimpleString)`: `0 == StrCmp(left, right)` -/
def simpleStringEq (a b : Bytes) : Bool := Text.cmp a b == 0

/-- `SimpleString::MemCmp(s1, s2, n)`: the C loop over the first `n` bytes; the result is the
    `int` difference of the first differing bytes.  A buffer shorter than `n` would be an
    out-of-bounds read in C; `equals` calls it only after `size_ != p.size_` was excluded, i.e. with
    two buffers of `n` bytes, so the last two arms are not reached from there (the harness runs the
    real loop under ASan). -/
def MemCmp : Bytes → Bytes → Nat → BitVec 32
  | _, _, 0 => 0
  | x :: xs, y :: ys, n + 1 =>
    if x ≠ y then BitVec.ofInt 32 ((x.toNat : Int) - (y.toNat : Int)) else MemCmp xs ys n
  | [], _, _ + 1 => 0
  | _ :: _, [], _ + 1 => 0

/-- `MemCmp` called with a `size_t` count -/
def MemCmpSz (a b : Bytes) (n : BitVec 64) : BitVec 32 := MemCmp a b n.toNat

/-- `doubles_equal(d1, d2, threshold)` (src/CppUTest/Utest.cpp) over the classes; `close x y t`
    stands for `fabs(x - y) <= t` on finite operands (false when the difference overflows) -/
def doublesEqual {F : Type} (close : F → F → F → Bool) : D F → D F → D F → Bool
  | .nan, _, _ => false
  | .inf _, .nan, _ => false
  | .fin _, .nan, _ => false
  | .inf _, .inf _, .nan => false
  | .inf _, .fin _, .nan => false
  | .fin _, .inf _, .nan => false
  | .fin _, .fin _, .nan => false
  | .inf n1, .inf n2, .inf neg => n1 == n2 || !neg  -- the same infinity is equal; opposite ones are compared by
  | .inf n1, .inf n2, .fin _ => n1 == n2            --   fabs(d1 − d2) = +inf ≤ t, true only for t = +inf
  | .inf _, .fin _, .inf neg => !neg               -- fabs(±inf − y) = +inf ≤ t  iff  t = +inf
  | .inf _, .fin _, .fin _ => false
  | .fin _, .inf _, .inf neg => !neg
  | .fin _, .inf _, .fin _ => false
  | .fin _, .fin _, .inf neg => !neg               -- fabs(x − y) ≤ +inf always, ≤ −inf never
  | .fin x, .fin y, .fin t => close x y t

/-- the hardware comparison on finite doubles -/
def floatClose (x y t : Float) : Bool := Float.abs (x - y) ≤ t

def doubles_equal (d1 d2 t : D Float) : Bool := doublesEqual floatClose d1 d2 t

/-- classification of a hardware double (driver side) -/
def classify (x : Float) : D Float :=
  if x.isNaN then .nan else if x.isInf then .inf (x < 0) else .fin x

/-- `comparator_->isEqual(o1, o2)`; the comparator is a parameter (environment) -/
def comparatorIsEqual (c : Option (Nat → Nat → Bool)) (o1 o2 : Nat) : Bool :=
  match c with
  | some f => f o1 o2
  | none => false

end Mock
