import CppUModel.Spec.Text
/-!
# Model of `MockNamedValue` (src/CppUTestExt/MockNamedValue.cpp) — hand-written part

`MVal` is the tagged union: the constructor is the active union member, `type_` the type-name
string the setter stores with it (LP64: `int`/`unsigned` 32 bits, `long`/`long long` 64 bits).
The readers below are named after the C++ members (`self.intValue_`, `p.longIntValue_`, …) so
that the REGENERATED functions in `Gen/MockEquals.lean` (translator `translate/cxx2lean_c09.py`,
clang AST → Lean) read like the source.  A reader applied to a value whose active member is a
different one is a read of an inactive union member (undefined behaviour in C++); the translator
refuses to translate a function that does that (`TranslateError`), so the fall-back arms of the
readers are never evaluated by generated code on well-formed values (`Mock.WF`).

Hand-written here (tied to the code by the `h_c09` correspondence): `SimpleString(const char*)`
and `operator==` on it (content through `Text.cmp`, NULL = empty string), `SimpleString::MemCmp`,
`doubles_equal` (class model `D` over NaN / ±inf / finite with the finite comparison as a
parameter), the comparator call.  Core Lean only.
-/
namespace Mock

abbrev Bytes := List UInt8

/-- class of a `double`: the theorems are about this class logic; `F` is the carrier of the
    finite values (`Float` in the driver) -/
inductive D (F : Type) where
  | nan
  | inf (neg : Bool)
  | fin (x : F)

/-- a failing `STRCMP_EQUAL(expected, type_.asCharString())`: the test fails and the getter does
    not return -/
inductive Fail where
  | typeMismatch (expected : String)
deriving Repr, DecidableEq

/-- the value held by a `MockNamedValue` -/
inductive MVal where
  | bool (b : Bool)
  | int (v : BitVec 32)
  | uint (v : BitVec 32)
  | long (v : BitVec 64)
  | ulong (v : BitVec 64)
  | llong (v : BitVec 64)
  | ullong (v : BitVec 64)
  | dbl (v tol : D Float)
  | str (s : Option Bytes)              -- `const char*`; `none` = NULL; bytes without terminator
  | ptr (a : Nat)                       -- `void*` (address; identity only)
  | cptr (a : Nat)                      -- `const void*`
  | fptr (a : Nat)                      -- `void (*)()`
  | mem (bytes : Bytes)                 -- `const unsigned char*` + `size_` = number of bytes
  | obj (ty : String) (a : Nat) (cmp : Option (Nat → Nat → Bool))   -- custom type, comparator of the type if installed

/-- `type_`: the string the setter stores -/
def MVal.type_ : MVal → String
  | .bool _ => "bool"
  | .int _ => "int"
  | .uint _ => "unsigned int"
  | .long _ => "long int"
  | .ulong _ => "unsigned long int"
  | .llong _ => "long long int"
  | .ullong _ => "unsigned long long int"
  | .dbl _ _ => "double"
  | .str _ => "const char*"
  | .ptr _ => "void*"
  | .cptr _ => "const void*"
  | .fptr _ => "void (*)()"
  | .mem _ => "const unsigned char*"
  | .obj ty _ _ => ty

/-- (type name, union member(s) written, C type of the member) for every setter with a literal
    type name, in source order — compared with the table the translator extracts from the
    `setValue` overloads (`Gen.MockEquals.setters`) -/
def modelledSetters : List (String × String × String) :=
  [ ("bool", "boolValue_", "bool"),
    ("unsigned int", "unsignedIntValue_", "unsigned int"),
    ("int", "intValue_", "int"),
    ("long int", "longIntValue_", "long"),
    ("unsigned long int", "unsignedLongIntValue_", "unsigned long"),
    ("long long int", "longLongIntValue_", "long long"),
    ("unsigned long long int", "unsignedLongLongIntValue_", "unsigned long long"),
    ("double", "doubleValue_value", "double"),
    ("double", "doubleValue_tolerance", "double"),
    ("void*", "pointerValue_", "void *"),
    ("const void*", "constPointerValue_", "const void *"),
    ("void (*)()", "functionPointerValue_", "void (*)()"),
    ("const char*", "stringValue_", "const char *"),
    ("const unsigned char*", "memoryBufferValue_", "const unsigned char *") ]

/-! ## readers, named after the members -/

def MVal.boolValue_ : MVal → Bool
  | .bool b => b
  | _ => false
def MVal.intValue_ : MVal → BitVec 32
  | .int v => v
  | _ => 0
def MVal.unsignedIntValue_ : MVal → BitVec 32
  | .uint v => v
  | _ => 0
def MVal.longIntValue_ : MVal → BitVec 64
  | .long v => v
  | _ => 0
def MVal.unsignedLongIntValue_ : MVal → BitVec 64
  | .ulong v => v
  | _ => 0
def MVal.longLongIntValue_ : MVal → BitVec 64
  | .llong v => v
  | _ => 0
def MVal.unsignedLongLongIntValue_ : MVal → BitVec 64
  | .ullong v => v
  | _ => 0
def MVal.doubleValue_value : MVal → D Float
  | .dbl v _ => v
  | _ => .nan
def MVal.doubleValue_tolerance : MVal → D Float
  | .dbl _ t => t
  | _ => .nan
def MVal.stringValue_ : MVal → Option Bytes
  | .str s => s
  | _ => none
/-- `pointerValue_` (`void*`) and `constPointerValue_` (`const void*`) are the same 8 bytes with pointee types that
    differ in `const` only: a load through either member returns the stored address (`getConstPointerValue` does
    read `pointerValue_`) -/
def MVal.pointerValue_ : MVal → Nat
  | .ptr a => a
  | .cptr a => a
  | _ => 0
def MVal.constPointerValue_ : MVal → Nat
  | .cptr a => a
  | .ptr a => a
  | _ => 0
def MVal.functionPointerValue_ : MVal → Nat
  | .fptr a => a
  | _ => 0
def MVal.memoryBufferValue_ : MVal → Bytes
  | .mem b => b
  | _ => []
def MVal.constObjectPointerValue_ : MVal → Nat
  | .obj _ a _ => a
  | _ => 0
def MVal.objectPointerValue_ : MVal → Nat
  | .obj _ a _ => a
  | _ => 0
/-- `size_` (`size_t`): set by `setMemoryBuffer`, 0 from the constructor otherwise -/
def MVal.size_ : MVal → BitVec 64
  | .mem b => BitVec.ofNat 64 b.length
  | _ => 0
/-- `comparator_`: only `setObjectPointer`/`setConstObjectPointer` look one up -/
def MVal.comparator_ : MVal → Option (Nat → Nat → Bool)
  | .obj _ _ c => c
  | _ => none

/-! ## C conversions used by the generated code -/

/-- `bool` → integer type of width `w` (integral promotion of a `bool`) -/
def boolToBV (w : Nat) (b : Bool) : BitVec w := (BitVec.ofBool b).setWidth w

/-! ## hand-written callees -/

/-- `SimpleString(const char*)`: NULL gives the empty string -/
def simpleStringOfCStr : Option Bytes → Bytes
  | none => []
  | some b => b

/-- `operator==(SimpleString, SimpleString)`: `0 == StrCmp(left, right)` -/
def simpleStringEq (a b : Bytes) : Bool := Text.cmp a b == 0

/-- `SimpleString::MemCmp(s1, s2, n)`: the C loop over the first `n` bytes; the result is the
    `int` difference of the first differing bytes.  A buffer shorter than `n` would be an
    out-of-bounds read in C; `equals` calls it only after `size_ != p.size_` was excluded, i.e. with
    two buffers of `n` bytes, so the last two arms are not reached from there (the harness runs the
    real loop under ASan). -/
def MemCmp : Bytes → Bytes → Nat → BitVec 32
  | _, _, 0 => 0
  | x :: xs, y :: ys, n + 1 =>
    if x ≠ y then BitVec.ofInt 32 ((x.toNat : Int) - (y.toNat : Int)) else MemCmp xs ys n
  | [], _, _ + 1 => 0
  | _ :: _, [], _ + 1 => 0

/-- `MemCmp` called with a `size_t` count -/
def MemCmpSz (a b : Bytes) (n : BitVec 64) : BitVec 32 := MemCmp a b n.toNat

/-- `doubles_equal(d1, d2, threshold)` (src/CppUTest/Utest.cpp) over the classes; `close x y t`
    stands for `fabs(x - y) <= t` on finite operands (false when the difference overflows) -/
def doublesEqual {F : Type} (close : F → F → F → Bool) : D F → D F → D F → Bool
  | .nan, _, _ => false
  | .inf _, .nan, _ => false
  | .fin _, .nan, _ => false
  | .inf _, .inf _, .nan => false
  | .inf _, .fin _, .nan => false
  | .fin _, .inf _, .nan => false
  | .fin _, .fin _, .nan => false
  | .inf n1, .inf n2, .inf neg => n1 == n2 || !neg  -- the same infinity is equal; opposite ones are compared by
  | .inf n1, .inf n2, .fin _ => n1 == n2            --   fabs(d1 − d2) = +inf ≤ t, true only for t = +inf
  | .inf _, .fin _, .inf neg => !neg               -- fabs(±inf − y) = +inf ≤ t  iff  t = +inf
  | .inf _, .fin _, .fin _ => false
  | .fin _, .inf _, .inf neg => !neg
  | .fin _, .inf _, .fin _ => false
  | .fin _, .fin _, .inf neg => !neg               -- fabs(x − y) ≤ +inf always, ≤ −inf never
  | .fin x, .fin y, .fin t => close x y t

/-- the hardware comparison on finite doubles -/
def floatClose (x y t : Float) : Bool := Float.abs (x - y) ≤ t

def doubles_equal (d1 d2 t : D Float) : Bool := doublesEqual floatClose d1 d2 t

/-- classification of a hardware double (driver side) -/
def classify (x : Float) : D Float :=
  if x.isNaN then .nan else if x.isInf then .inf (x < 0) else .fin x

/-- `comparator_->isEqual(o1, o2)`; the comparator is a parameter (environment) -/
def comparatorIsEqual (c : Option (Nat → Nat → Bool)) (o1 o2 : Nat) : Bool :=
  match c with
  | some f => f o1 o2
  | none => false

/-! ## rendering (`toString`): the `StringFrom` family of src/CppUTest/SimpleString.cpp

Integer renderings are defined here as the textbook meaning of `%d/%u/%ld/%lu/%lld/%llu` (decimal, `-` for
negative) and `%x/%lx/%llx` (lower-case hexadecimal, no leading zeros, of the value converted to the
unsigned type of the SAME width) and checked against libc by the correspondence.  What only libc or the
machine knows is an input (`Env`): the `%.6g` rendering of a finite double, the machine address of a
pointer payload, the text a comparator's `valueToString` produces. -/

/-- bytes of an ASCII literal (kernel-reducible, unlike `String.toUTF8`); the translator only emits it for ASCII
    literals, type names are ASCII -/
def ascii (s : String) : Bytes := s.toList.map fun c => UInt8.ofNat c.toNat

/-- environment of one `toString()` call -/
structure Env where
  /-- `snprintf("%.*g", 6, value)` for this value's (finite) double -/
  g6 : Bytes
  /-- machine address of a pointer payload (pointer payloads are abstract identities in `MVal`) -/
  addrOf : Nat → Nat
  /-- `comparator_->valueToString(object)` -/
  valueToString : Nat → Bytes

/-- one digit, lower case -/
def digitChar (d : Nat) : UInt8 := if d < 10 then UInt8.ofNat (48 + d) else UInt8.ofNat (87 + d)
/-- positional digits of `n`, most significant first, no leading zeros (one digit for 0); `fuel` bounds the
    number of digits (structural recursion, so the kernel can evaluate it) -/
def natDigits (base : Nat) : Nat → Nat → Bytes → Bytes
  | 0, _, acc => acc
  | fuel + 1, n, acc =>
    if n < base then digitChar n :: acc else natDigits base fuel (n / base) (digitChar (n % base) :: acc)
/-- `%u` and friends -/
def decNat (n : Nat) : Bytes := natDigits 10 (n + 1) n []
/-- `%d` and friends -/
def decInt (i : Int) : Bytes := if i < 0 then 45 :: decNat i.natAbs else decNat i.toNat
/-- `%x` and friends: lower case, no leading zeros, "0" for zero -/
def hexNat (n : Nat) : Bytes := natDigits 16 (n + 1) n []

def StringFrom_bool (b : Bool) : Bytes := ascii (if b then "true" else "false")
def StringFrom_int (v : BitVec 32) : Bytes := decInt v.toInt
def StringFrom_uint (v : BitVec 32) : Bytes := decNat v.toNat
def StringFrom_long (v : BitVec 64) : Bytes := decInt v.toInt
def StringFrom_ulong (v : BitVec 64) : Bytes := decNat v.toNat
def StringFrom_llong (v : BitVec 64) : Bytes := decInt v.toInt
def StringFrom_ullong (v : BitVec 64) : Bytes := decNat v.toNat

/-- `BracketsFormattedHexString(HexStringFrom(value))`: every `HexStringFrom` overload first converts to the
    unsigned type of the same width, so the digits are those of the bit pattern -/
def bracketsHex {w : Nat} (v : BitVec w) : Bytes := ascii "(0x" ++ hexNat v.toNat ++ ascii ")"
def BracketsFormattedHexStringFrom_int (v : BitVec 32) : Bytes := bracketsHex v
def BracketsFormattedHexStringFrom_uint (v : BitVec 32) : Bytes := bracketsHex v
def BracketsFormattedHexStringFrom_long (v : BitVec 64) : Bytes := bracketsHex v
def BracketsFormattedHexStringFrom_ulong (v : BitVec 64) : Bytes := bracketsHex v
def BracketsFormattedHexStringFrom_llong (v : BitVec 64) : Bytes := bracketsHex v
def BracketsFormattedHexStringFrom_ullong (v : BitVec 64) : Bytes := bracketsHex v

/-- `StringFrom(const void*)`: "0x" + `%llx` of the address -/
def StringFrom_constVoidPtr (env : Env) (a : Nat) : Bytes := ascii "0x" ++ hexNat (env.addrOf a)
def StringFrom_fnPtr (env : Env) (a : Nat) : Bytes := ascii "0x" ++ hexNat (env.addrOf a)

/-- `StringFrom(double, precision = 6)` -/
def StringFrom_double (env : Env) : D Float → Bytes
  | .nan => ascii "Nan - Not a number"
  | .inf _ => ascii "Inf - Infinity"
  | .fin _ => env.g6

def hexDigitU (n : Nat) : UInt8 := if n < 10 then UInt8.ofNat (48 + n) else UInt8.ofNat (55 + n)
/-- `%02X` of one byte -/
def hex2U (b : UInt8) : Bytes := [hexDigitU (b.toNat / 16), hexDigitU (b.toNat % 16)]

/-- the loop of `StringFromBinary`: `result += StringFromFormat("%02X ", value[i])` for the first `n` bytes -/
def binaryLoop : Bytes → Nat → Bytes
  | _, 0 => []
  | [], _ + 1 => []                        -- fewer than n bytes: out-of-bounds read in C, not reached (n ≤ size)
  | b :: bs, n + 1 => hex2U b ++ [32] ++ binaryLoop bs n

/-- `StringFromBinary(value, size)`: the loop, then `subString(0, size() - 1)` drops the last blank (an empty
    result stays empty) -/
def StringFromBinary (value : Bytes) (n : Nat) : Bytes := (binaryLoop value n).dropLast

/-- `StringFromBinaryWithSize(value, size)` for a non-NULL buffer: `"Size = %u | HexContents = "` with the size
    converted to `unsigned`, at most 128 bytes shown, `" ..."` when more -/
def StringFromBinaryWithSize (value : Bytes) (size : BitVec 64) : Bytes :=
  ascii "Size = " ++ decNat (size.setWidth 32).toNat ++ ascii " | HexContents = " ++
    StringFromBinary value (if size.toNat > 128 then 128 else size.toNat) ++
    (if size.toNat > 128 then ascii " ..." else [])

/-- buffers in `MVal` are never NULL (the harness never passes NULL with `setMemoryBuffer`) -/
def StringFromBinaryWithSizeOrNull (value : Bytes) (size : BitVec 64) : Bytes := StringFromBinaryWithSize value size

/-- the platform predicates as the class model `D` assumes them: `classify` = isnan / isinf of the double itself,
    `floatClose` uses the C library's fabs (same text as C03's expectedPlatformPredicates) -/
def modelledPlatformPredicates : List (String × String) :=
  [ ("IsNanImplementation", "returnisnan(d);"),
    ("IsInfImplementation", "returnisinf(d);"),
    ("PlatformSpecificFabs", "fabs"),
    ("PlatformSpecificIsNan", "IsNanImplementation"),
    ("PlatformSpecificIsInf", "IsInfImplementation") ]

end Mock
