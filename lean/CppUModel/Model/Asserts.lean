import CppUModel.Spec.Text
import CppUModel.Gen.AssertShapes
/-!
Model of the check macros (C03): `UtestShell::assert*` (src/CppUTest/Utest.cpp), `doubles_equal`
(Utest.cpp top), the macros of include/CppUTest/UtestMacros.h and the C entry points of
src/CppUTest/TestHarness_c.cpp, written from the C++ line by line.

Every `assert*` body has the shape

    getTestResult()->countCheck();
    [if (c) return;]*            -- early "passes" (NULL rules, zero length)
    [if (c) failWith(F(...), terminator);]+

and `failWith` records the failure and leaves the test through the terminator (exception or
longjmp), so one executed check records at most one failure.  The shape itself (one
`countCheck()` first, the condition texts, the failure classes) is regenerated from the source
into `Gen/AssertShapes.lean` on every run and compared with `expectedShapes` below by
`Props/C03.lean : shapes_match`.

Integers: the declared parameter types are `BitVec 8/32/64` (LP64: int 32, long = long long =
pointer = size_t 64, char signed).  A macro operand is a C integer of any type: it is
represented by its type and its mathematical value; a C conversion to an `n` bit integer type
is `BitVec.ofInt n value` (C++ [conv.integral]: the value modulo 2^n).
Strings: `Option Bytes`, `none` = NULL, bytes without the terminator.
Doubles: the class model `D F` with the finite arithmetic as parameters.
-/
namespace Asserts
open Text

/-- what one executed check did to the `TestResult`: was a failure recorded, how many times
    was `countCheck()` called -/
structure Outcome where
  fails   : Bool
  counted : Nat
deriving Repr, DecidableEq, Inhabited

/-- `getTestResult()->countCheck(); if (c) failWith(...);` -/
def countThenFailIf (c : Bool) : Outcome := { fails := c, counted := 1 }

/-- no assert function is called at all -/
def nothing : Outcome := { fails := false, counted := 0 }

/-! ## C integers -/

structure CTy where
  w      : Nat
  signed : Bool
deriving Repr, DecidableEq, Inhabited

/-- a macro operand of integer type: its type and its mathematical value -/
structure CInt where
  ty  : CTy
  val : Int
deriving Repr, DecidableEq, Inhabited

def tyInt : CTy := { w := 32, signed := true }

/-- C conversion of a value to an integer type of `n` bits (value modulo 2^n) -/
def conv (n : Nat) (v : Int) : BitVec n := BitVec.ofInt n v

/-- integral promotion: everything narrower than `int` becomes `int` -/
def promote (t : CTy) : CTy := if t.w < 32 then tyInt else t

/-- the common type of two promoted types (usual arithmetic conversions; `long long` is not
    distinguished from `long`, both are 64 bit here) -/
def commonPromoted (t u : CTy) : CTy :=
  if t.signed = u.signed then { w := max t.w u.w, signed := t.signed }
  else if t.signed then
    (if u.w ≥ t.w then { w := u.w, signed := false } else { w := t.w, signed := true })
  else
    (if t.w ≥ u.w then { w := t.w, signed := false } else { w := u.w, signed := true })

def common (t u : CTy) : CTy := commonPromoted (promote t) (promote u)

/-- the mathematical value of a bit pattern read at a type -/
def valueAt (signed : Bool) {n : Nat} (b : BitVec n) : Int :=
  if signed then b.toInt else (b.toNat : Int)

/-- the operands' own `!=` for two integer operands (usual arithmetic conversions) -/
def cppNe (e a : CInt) : Bool :=
  conv (common e.ty a.ty).w e.val != conv (common e.ty a.ty).w a.val

/-- the relational operators usable in `CHECK_COMPARE` -/
inductive RelOp where
  | lt | le | gt | ge | eq | ne
deriving Repr, DecidableEq, Inhabited

def RelOp.holds : RelOp → Int → Int → Bool
  | .lt, a, b => decide (a < b)
  | .le, a, b => decide (a ≤ b)
  | .gt, a, b => decide (a > b)
  | .ge, a, b => decide (a ≥ b)
  | .eq, a, b => decide (a = b)
  | .ne, a, b => decide (a ≠ b)

/-- `(first) relop (second)` for two integer operands: both are converted to the common type
    and compared at that type -/
def cppRel (op : RelOp) (e a : CInt) : Bool :=
  op.holds (valueAt (common e.ty a.ty).signed (conv (common e.ty a.ty).w e.val))
           (valueAt (common e.ty a.ty).signed (conv (common e.ty a.ty).w a.val))

/-- `(x) & m` with an `int` literal `m`: computed in the common type of `x` and `int` -/
def andLit (x : CInt) (m : Nat) : CInt :=
  { ty := common x.ty tyInt,
    val := valueAt (common x.ty tyInt).signed
            (conv (common x.ty tyInt).w x.val &&& BitVec.ofNat (common x.ty tyInt).w m) }

/-! ## doubles: class model -/

inductive D (F : Type) where
  | nan
  | inf (neg : Bool)
  | fin (x : F)
deriving Repr, DecidableEq, Inhabited

/-- finite arithmetic, parameters of the model.  `sub` of two finite numbers may overflow to
    an infinity, so it returns a `D F`. -/
structure FinOps (F : Type) where
  sub : F → F → D F
  abs : F → F
  le  : F → F → Bool
  pos : F → Bool          -- `x > 0`

namespace D
variable {F : Type}

def isNan : D F → Bool
  | nan => true
  | _ => false

def isInf : D F → Bool
  | inf _ => true
  | _ => false

/-- IEEE `d1 - d2` on the classes -/
def sub (o : FinOps F) : D F → D F → D F
  | nan, _ => nan
  | _, nan => nan
  | inf n, inf m => if n = m then nan else inf n
  | inf n, fin _ => inf n
  | fin _, inf m => inf (!m)
  | fin x, fin y => o.sub x y

/-- `fabs` -/
def abs (o : FinOps F) : D F → D F
  | nan => nan
  | inf _ => inf false
  | fin x => fin (o.abs x)

/-- IEEE `a <= b` -/
def le (o : FinOps F) : D F → D F → Bool
  | nan, _ => false
  | _, nan => false
  | inf true, _ => true
  | inf false, inf false => true
  | inf false, _ => false
  | fin _, inf m => !m
  | fin x, fin y => o.le x y

/-- `d > 0` -/
def gt0 (o : FinOps F) : D F → Bool
  | nan => false
  | inf n => !n
  | fin x => o.pos x

end D

/-- `doubles_equal` (Utest.cpp):
```
if (IsNan(d1) || IsNan(d2) || IsNan(threshold)) return false;
if (IsInf(d1) && IsInf(d2) && (d1 > 0) == (d2 > 0)) { return true; }
return Fabs(d1 - d2) <= threshold;
``` -/
def doublesEqual {F : Type} (o : FinOps F) (d1 d2 threshold : D F) : Bool :=
  if d1.isNan || d2.isNan || threshold.isNan then false
  else if d1.isInf && d2.isInf && (D.gt0 o d1 == D.gt0 o d2) then true
  else D.le o (D.abs o (D.sub o d1 d2)) threshold

/-! ## memory compare -/

/-- `SimpleString::MemCmp(s1, s2, n)`; the blocks hold at least `n` bytes (a shorter list is
    outside the function's contract; the model then stops with 0) -/
def memCmp : Nat → Bytes → Bytes → Int
  | 0, _, _ => 0
  | n + 1, x :: xs, y :: ys => if x ≠ y then (x.toNat : Int) - (y.toNat : Int) else memCmp n xs ys
  | _ + 1, _, _ => 0

/-! ## the `UtestShell::assert*` family (declared parameter types) -/

/-- `assertTrue(bool condition, …)`: `countCheck(); if (!condition) failWith(CheckFailure)` -/
def assertTrue (condition : Bool) : Outcome := countThenFailIf (!condition)

/-- `fail(text, …)`: `countCheck(); failWith(FailFailure)` -/
def fail : Outcome := countThenFailIf true

/-- `assertLongsEqual(long, long)`: `if (expected != actual) failWith(LongsEqualFailure)` -/
def assertLongsEqual (expected actual : BitVec 64) : Outcome := countThenFailIf (expected != actual)

def assertUnsignedLongsEqual (expected actual : BitVec 64) : Outcome :=
  countThenFailIf (expected != actual)

def assertLongLongsEqual (expected actual : BitVec 64) : Outcome :=
  countThenFailIf (expected != actual)

def assertUnsignedLongLongsEqual (expected actual : BitVec 64) : Outcome :=
  countThenFailIf (expected != actual)

/-- `assertSignedBytesEqual(signed char, signed char)`: the `!=` is evaluated after integral
    promotion of both operands to `int` -/
def assertSignedBytesEqual (expected actual : BitVec 8) : Outcome :=
  countThenFailIf (expected.signExtend 32 != actual.signExtend 32)

def assertPointersEqual (expected actual : BitVec 64) : Outcome :=
  countThenFailIf (expected != actual)

def assertFunctionPointersEqual (expected actual : BitVec 64) : Outcome :=
  countThenFailIf (expected != actual)

/-- `assertDoublesEqual`: `if (!doubles_equal(expected, actual, threshold)) failWith(…)` -/
def assertDoublesEqual {F : Type} (o : FinOps F) (expected actual threshold : D F) : Outcome :=
  countThenFailIf (!doublesEqual o expected actual threshold)

/-- `assertBitsEqual(unsigned long expected, actual, mask, size_t byteCount)`:
    `if ((expected & mask) != (actual & mask)) failWith(BitsEqualFailure)`; `byteCount` is only
    used by the failure text -/
def assertBitsEqual (expected actual mask : BitVec 64) (_byteCount : Nat) : Outcome :=
  countThenFailIf ((expected &&& mask) != (actual &&& mask))

/-- `assertEquals(bool failed, …)`: `if (failed) failWith(CheckEqualFailure)` -/
def assertEquals (failed : Bool) : Outcome := countThenFailIf failed

/-- `assertCompare(bool comparison, …)`: `if (!comparison) failWith(ComparisonFailure)` -/
def assertCompare (comparison : Bool) : Outcome := countThenFailIf (!comparison)

/-- the common skeleton of the five string checks:
```
countCheck();
if (actual == NULLPTR && expected == NULLPTR) return;
if (actual == NULLPTR || expected == NULLPTR) failWith(…);
if (<mismatch expected actual>) failWith(…);
``` -/
def cstrCheck (mismatch : Bytes → Bytes → Bool) : Option Bytes → Option Bytes → Outcome
  | none, none => { fails := false, counted := 1 }
  | none, some _ => { fails := true, counted := 1 }
  | some _, none => { fails := true, counted := 1 }
  | some e, some a => countThenFailIf (mismatch e a)

/-- `SimpleString::StrCmp(expected, actual) != 0` -/
def assertCstrEqual (expected actual : Option Bytes) : Outcome :=
  cstrCheck (fun e a => Text.cmp e a != 0) expected actual

/-- `SimpleString::StrNCmp(expected, actual, length) != 0` -/
def assertCstrNEqual (expected actual : Option Bytes) (length : Nat) : Outcome :=
  cstrCheck (fun e a => Text.ncmp length e a != 0) expected actual

/-- `!SimpleString(expected).equalsNoCase(actual)` -/
def assertCstrNoCaseEqual (expected actual : Option Bytes) : Outcome :=
  cstrCheck (fun e a => !Text.equalsNoCase e a) expected actual

/-- `!SimpleString(actual).contains(expected)` -/
def assertCstrContains (expected actual : Option Bytes) : Outcome :=
  cstrCheck (fun e a => !Text.isInfix a e) expected actual

/-- `!SimpleString(actual).containsNoCase(expected)` -/
def assertCstrNoCaseContains (expected actual : Option Bytes) : Outcome :=
  cstrCheck (fun e a => !Text.containsNoCase a e) expected actual

/-- `assertBinaryEqual(expected, actual, length)`:
```
countCheck();
if (length == 0) return;
if (actual == NULLPTR && expected == NULLPTR) return;
if (actual == NULLPTR || expected == NULLPTR) failWith(BinaryEqualFailure);
if (SimpleString::MemCmp(expected, actual, length) != 0) failWith(BinaryEqualFailure);
``` -/
def assertBinaryEqual (expected actual : Option Bytes) (length : Nat) : Outcome :=
  if length = 0 then { fails := false, counted := 1 }
  else cstrCheck (fun e a => memCmp length e a != 0) expected actual

/-! ## the statement list of an assert body (what `translate/extract_asserts_ast.py` regenerates from the typed AST)

`Gen/AssertFns.lean` holds every `UtestShell::assert*` body as `runAssert 0 [stmts]` in source order; `Props/C03.lean`
proves each of them equal to the hand-written function above for all operands. -/

inductive BodyStmt where
  | count                    -- `getTestResult()->countCheck();`
  | retIf (c : Bool)         -- `if (c) return;`
  | failIf (c : Bool)        -- `if (c) failWith(F(this, …)[, testTerminator]);`  (failWith leaves the test)
  | failAlways               -- `failWith(…);`
deriving Repr, DecidableEq, Inhabited

/-- run the statements in order; `n` = how often `countCheck()` ran so far -/
def runAssert (n : Nat) : List BodyStmt → Outcome
  | [] => { fails := false, counted := n }
  | .count :: rest => runAssert (n + 1) rest
  | .retIf c :: rest => if c then { fails := false, counted := n } else runAssert n rest
  | .failIf c :: rest => if c then { fails := true, counted := n } else runAssert n rest
  | .failAlways :: _ => { fails := true, counted := n }

/-- two statements of a macro body in sequence: a failing check leaves the test, so the second statement runs only
    after a passing (or absent) first one -/
def seqO (a b : Outcome) : Outcome :=
  if a.fails then a else { fails := b.fails, counted := a.counted + b.counted }

/- the callees of the assert bodies on `const char*` / block operands (`none` = NULL).  The C functions dereference
    their arguments: a NULL argument is undefined behaviour, the value chosen here for it (0 / the empty string, which
    is what `SimpleString(NULL)` really is) is never used by a body that tests for NULL first. -/
namespace P

def StrCmp : Option Bytes → Option Bytes → Int
  | some x, some y => Text.cmp x y
  | _, _ => 0

def StrNCmp : Option Bytes → Option Bytes → BitVec 64 → Int
  | some x, some y, n => Text.ncmp n.toNat x y
  | _, _, _ => 0

def MemCmp : Option Bytes → Option Bytes → BitVec 64 → Int
  | some x, some y, n => memCmp n.toNat x y
  | _, _, _ => 0

/-- `SimpleString(const char*)`: NULL gives the empty string -/
def SimpleString : Option Bytes → Bytes
  | some x => x
  | none => []

def equalsNoCase (self other : Bytes) : Bool := Text.equalsNoCase self other
def contains (self other : Bytes) : Bool := Text.isInfix self other
def containsNoCase (self other : Bytes) : Bool := Text.containsNoCase self other

end P

/-! ## the macros of UtestMacros.h (casts as written in the macro bodies) -/

/-- `CHECK(c)`, `CHECK_TRUE(c)`: `assertTrue((bool)(c))` -/
def CHECK (condition : Bool) : Outcome := assertTrue condition

/-- `CHECK_FALSE(c)`: `assertTrue(!(c))` -/
def CHECK_FALSE (condition : Bool) : Outcome := assertTrue (!condition)

/-- `CHECK_EQUAL(e, a)`: `ne` is the value of `(e) != (a)` by the operands' own operator.
    `if (ne) assertEquals(true, …) else assertLongsEqual((long)0, (long)0, …)` -/
def CHECK_EQUAL (ne : Bool) : Outcome :=
  if ne then assertEquals true else assertLongsEqual 0 0

/-- `CHECK_EQUAL` on two integer operands -/
def CHECK_EQUAL_int (e a : CInt) : Outcome := CHECK_EQUAL (cppNe e a)

/-- `CHECK_COMPARE(first, relop, second)`: `success` is the value of `(first) relop (second)`;
    `if (!success) assertCompare(false, …)` and nothing at all otherwise -/
def CHECK_COMPARE (success : Bool) : Outcome :=
  if !success then assertCompare false else nothing

/-- `CHECK_COMPARE` on two integer operands -/
def CHECK_COMPARE_int (op : RelOp) (e a : CInt) : Outcome := CHECK_COMPARE (cppRel op e a)

/-- `LONGS_EQUAL(e, a)`: `assertLongsEqual((long)(e), (long)(a))` -/
def LONGS_EQUAL (e a : Int) : Outcome := assertLongsEqual (conv 64 e) (conv 64 a)

/-- `UNSIGNED_LONGS_EQUAL(e, a)`: `assertUnsignedLongsEqual((unsigned long)(e), (unsigned long)(a))` -/
def UNSIGNED_LONGS_EQUAL (e a : Int) : Outcome := assertUnsignedLongsEqual (conv 64 e) (conv 64 a)

def LONGLONGS_EQUAL (e a : Int) : Outcome := assertLongLongsEqual (conv 64 e) (conv 64 a)

def UNSIGNED_LONGLONGS_EQUAL (e a : Int) : Outcome :=
  assertUnsignedLongLongsEqual (conv 64 e) (conv 64 a)

/-- `BYTES_EQUAL(e, a)`: `LONGS_EQUAL((e) & 0xff, (a) & 0xff)`; the mask constant is
    regenerated from the macro text -/
def BYTES_EQUAL (e a : CInt) : Outcome :=
  LONGS_EQUAL (andLit e Gen.AssertShapes.bytesMask).val (andLit a Gen.AssertShapes.bytesMask).val

/-- `SIGNED_BYTES_EQUAL(e, a)`: the arguments are converted to the `signed char` parameters -/
def SIGNED_BYTES_EQUAL (e a : Int) : Outcome := assertSignedBytesEqual (conv 8 e) (conv 8 a)

/-- `POINTERS_EQUAL`, `FUNCTIONPOINTERS_EQUAL`: addresses as 64 bit values -/
def POINTERS_EQUAL (e a : BitVec 64) : Outcome := assertPointersEqual e a
def FUNCTIONPOINTERS_EQUAL (e a : BitVec 64) : Outcome := assertFunctionPointersEqual e a

def DOUBLES_EQUAL {F : Type} (o : FinOps F) (e a t : D F) : Outcome := assertDoublesEqual o e a t

def STRCMP_EQUAL := assertCstrEqual
def STRNCMP_EQUAL := assertCstrNEqual
def STRCMP_NOCASE_EQUAL := assertCstrNoCaseEqual
def STRCMP_CONTAINS := assertCstrContains
def STRCMP_NOCASE_CONTAINS := assertCstrNoCaseContains
def MEMCMP_EQUAL := assertBinaryEqual

/-- `BITS_EQUAL(e, a, m)`: `assertBitsEqual(e, a, m, sizeof(a))`, the three operands are
    converted to the `unsigned long` parameters -/
def BITS_EQUAL (e a m : Int) (sizeofActual : Nat) : Outcome :=
  assertBitsEqual (conv 64 e) (conv 64 a) (conv 64 m) sizeofActual

/-- `ENUMS_EQUAL_TYPE(T, e, a)` (`ENUMS_EQUAL_INT` is `T = int`): both operands are cast to
    `T` (`w` bits), compared with `!=`, then as in `CHECK_EQUAL` -/
def ENUMS_EQUAL_TYPE (w : Nat) (e a : Int) : Outcome :=
  if conv w e != conv w a then assertEquals true else assertLongsEqual 0 0

def FAIL : Outcome := fail

/-- `CHECK_EQUAL_ZERO(actual)`: `CHECK_EQUAL(0, (actual))`, the expected operand is the `int` literal 0 -/
def CHECK_EQUAL_ZERO (a : CInt) : Outcome := CHECK_EQUAL_int { ty := tyInt, val := 0 } a

/-- how the expression of `CHECK_THROWS(expected, expression)` ended -/
inductive Thrown where
  | nothing      -- returned normally
  | expected     -- threw an exception caught by `catch (const expected &)`
  | other        -- threw something else (`catch (...)`)
deriving Repr, DecidableEq, Inhabited

/-- `UtestShell::countCheck()`: counts, never fails -/
def countOnly : Outcome := { fails := false, counted := 1 }

/-- `CHECK_THROWS(expected, expression)`:
```
try { (expression); } catch (const expected &) { caught_expected = true; } catch (...) { failure_msg = …; }
if (!caught_expected) UtestShell::getCurrent()->fail(failure_msg…); else UtestShell::getCurrent()->countCheck();
``` -/
def CHECK_THROWS : Thrown → Outcome
  | .expected => countOnly
  | .nothing => fail
  | .other => fail

/-! ## a test body: several check statements in sequence

`failWith` ends with `terminator.exitCurrentTest()`: the C++ checks use the current terminator
(`NormalTestTerminator`: `throw CppUTestFailedException()` in the exception build), the C entry
points pass `getCurrentTestTerminatorWithoutExceptions()` (`PlatformSpecificLongJmp()`); both
leave the test body, so the statements after a failing check are not executed. -/

inductive Stmt where
  | check (o : Outcome)      -- one check macro whose own outcome (on its operands) is `o`
  | exit                     -- `TEST_EXIT`
deriving Repr, DecidableEq, Inhabited

structure BodyResult where
  failures : Nat
  checks   : Nat
  executed : Nat             -- statements that were started
deriving Repr, DecidableEq, Inhabited

/-- a passing statement in front of the rest of the body -/
def BodyResult.after (o : Outcome) (r : BodyResult) : BodyResult :=
  { failures := r.failures, checks := o.counted + r.checks, executed := r.executed + 1 }

def runBody : List Stmt → BodyResult
  | [] => { failures := 0, checks := 0, executed := 0 }
  | .exit :: _ => { failures := 0, checks := 0, executed := 1 }
  | .check o :: rest =>
    if o.fails then { failures := 1, checks := o.counted, executed := 1 }
    else (runBody rest).after o

/-! ## operands with side effects: how often a macro evaluates them

`e k` / `a k` is the value the expected / actual operand expression yields at its `k`-th
evaluation (both of type `t`).  `CHECK_EQUAL_LOCATION` evaluates `(expected) != (actual)` once;
when they differ it evaluates `(actual) != (actual)` and `(expected) != (expected)` (printing
a warning for each that is true) and then `StringFrom(expected)`, `StringFrom(actual)`:
4 evaluations of each operand.  `CHECK_COMPARE_LOCATION` evaluates the comparison once and, when
it fails, `StringFrom(first)` / `StringFrom(second)`: 2 evaluations.  The function-style macros
(`LONGS_EQUAL` …) evaluate every operand exactly once. -/

structure Evals where
  expected : Nat
  actual   : Nat
  warnings : Nat
deriving Repr, DecidableEq, Inhabited

def warnIf (b : Bool) : Nat := if b then 1 else 0

def checkEqualRun (t : CTy) (e a : Nat → Int) : Outcome × Evals :=
  if cppNe ⟨t, e 0⟩ ⟨t, a 0⟩ then
    (assertEquals true,
      { expected := 4, actual := 4,
        warnings := warnIf (cppNe ⟨t, a 1⟩ ⟨t, a 2⟩) + warnIf (cppNe ⟨t, e 1⟩ ⟨t, e 2⟩) })
  else (assertLongsEqual 0 0, { expected := 1, actual := 1, warnings := 0 })

def checkCompareRun (op : RelOp) (t : CTy) (e a : Nat → Int) : Outcome × Evals :=
  if cppRel op ⟨t, e 0⟩ ⟨t, a 0⟩ then (nothing, { expected := 1, actual := 1, warnings := 0 })
  else (assertCompare false, { expected := 2, actual := 2, warnings := 0 })

def longsEqualRun (e a : Nat → Int) : Outcome × Evals :=
  (LONGS_EQUAL (e 0) (a 0), { expected := 1, actual := 1, warnings := 0 })

/-! ## the C entry points of TestHarness_c.cpp (arguments converted to the declared parameters) -/

/-- `assertEquals(!!expected != !!actual, …)` with `int` parameters -/
def CHECK_EQUAL_C_BOOL (e a : Int) : Outcome :=
  assertEquals ((conv 32 e != 0) != (conv 32 a != 0))

/-- `assertLongsEqual((long)expected, (long)actual)` with `int` parameters -/
def CHECK_EQUAL_C_INT (e a : Int) : Outcome :=
  assertLongsEqual ((conv 32 e).signExtend 64) ((conv 32 a).signExtend 64)

/-- `assertUnsignedLongsEqual((unsigned long)expected, …)` with `unsigned int` parameters -/
def CHECK_EQUAL_C_UINT (e a : Int) : Outcome :=
  assertUnsignedLongsEqual ((conv 32 e).zeroExtend 64) ((conv 32 a).zeroExtend 64)

def CHECK_EQUAL_C_LONG (e a : Int) : Outcome := assertLongsEqual (conv 64 e) (conv 64 a)
def CHECK_EQUAL_C_ULONG (e a : Int) : Outcome := assertUnsignedLongsEqual (conv 64 e) (conv 64 a)
def CHECK_EQUAL_C_LONGLONG (e a : Int) : Outcome := assertLongLongsEqual (conv 64 e) (conv 64 a)
def CHECK_EQUAL_C_ULONGLONG (e a : Int) : Outcome :=
  assertUnsignedLongLongsEqual (conv 64 e) (conv 64 a)

def CHECK_EQUAL_C_REAL {F : Type} (o : FinOps F) (e a t : D F) : Outcome :=
  assertDoublesEqual o e a t

/-- `assertEquals((expected) != (actual), …)` with `char` parameters (char is signed here);
    the comparison is made after promotion to `int` -/
def CHECK_EQUAL_C_CHAR (e a : Int) : Outcome :=
  assertEquals ((conv 8 e).signExtend 32 != (conv 8 a).signExtend 32)

def CHECK_EQUAL_C_UBYTE (e a : Int) : Outcome :=
  assertEquals ((conv 8 e).zeroExtend 32 != (conv 8 a).zeroExtend 32)

def CHECK_EQUAL_C_SBYTE (e a : Int) : Outcome :=
  assertEquals ((conv 8 e).signExtend 32 != (conv 8 a).signExtend 32)

def CHECK_EQUAL_C_STRING := assertCstrEqual
def CHECK_EQUAL_C_POINTER (e a : BitVec 64) : Outcome := assertPointersEqual e a
def CHECK_EQUAL_C_MEMCMP := assertBinaryEqual

/-- `assertBitsEqual(expected, actual, mask, size)` with `unsigned int` parameters, converted
    to `unsigned long` -/
def CHECK_EQUAL_C_BITS (e a m : Int) (size : Nat) : Outcome :=
  assertBitsEqual ((conv 32 e).zeroExtend 64) ((conv 32 a).zeroExtend 64) ((conv 32 m).zeroExtend 64) size

/-- `assertTrue(condition != 0, "CHECK_C", …)` with an `int` parameter -/
def CHECK_C (c : Int) : Outcome := assertTrue (conv 32 c != 0)

def FAIL_C : Outcome := fail

/-! ## the boolean macros on a compound condition

`CHECK(a || b)`, `CHECK_FALSE(a == b)`, `CHECK_C(a ? b : 0)` …: the macro argument is an expression whose top-level
operator binds weaker than unary `!` and than a cast.  `CHECK_TRUE_LOCATION` hands `(condition)` and
`CHECK_FALSE_LOCATION` hands `!(condition)` to `assertTrue`: the argument is parenthesised, so the check sees the
value of the WHOLE expression.  `CHECK_C` passes the expression as a function argument.  Operands are two `int`s. -/
inductive CondOp where
  | or | and | eq | ne | lt | cond
deriving Repr, DecidableEq, Inhabited

/-- the `int` value of the C++ expression `a || b`, `a && b`, `a == b`, `a != b`, `a < b`, `a ? b : 0` -/
def CondOp.value : CondOp → Int → Int → Int
  | .or, a, b => if (a != 0 || b != 0) then 1 else 0
  | .and, a, b => if (a != 0 && b != 0) then 1 else 0
  | .eq, a, b => if RelOp.holds .eq a b then 1 else 0
  | .ne, a, b => if RelOp.holds .ne a b then 1 else 0
  | .lt, a, b => if RelOp.holds .lt a b then 1 else 0
  | .cond, a, b => if a != 0 then b else 0

/-- the expression converted to `bool` -/
def CondOp.truth (op : CondOp) (a b : Int) : Bool := op.value a b != 0

def condOp? : String → Option CondOp
  | "or" => some .or | "and" => some .and | "eq" => some .eq | "ne" => some .ne | "lt" => some .lt
  | "cond" => some .cond | _ => none

/-- one boolean check macro (base name, the `_TEXT` form expands alike) on the compound condition `op a b` -/
def boolxMacro (m : String) (op : CondOp) (a b : Int) : Option Outcome :=
  match m with
  | "CHECK" => some (CHECK (op.truth a b))
  | "CHECK_TRUE" => some (CHECK (op.truth a b))
  | "CHECK_FALSE" => some (CHECK_FALSE (op.truth a b))
  | "CHECK_C" => some (CHECK_C (op.value a b))
  | _ => none

/-! ## the tables the model above was written against

Reviewed copies of what `translate/extract_asserts.py` reads from the source (white space is
removed from expression texts, string literals are `S`).  `Props/C03.lean` proves by `decide`
that the regenerated tables of `Gen/AssertShapes.lean` are equal to these; a source edit that
changes a condition, a cast, a failure class, a callee or the position of `countCheck()`
breaks that obligation.

`expectedShapes`: per assert function the statements after the leading `countCheck()` as
(kind, condition, failure class); kind 0 = `if (c) return;`, 1 = `if (c) failWith(F…)`,
2 = unconditional `failWith(F…)`. -/

/-- per assert function: statements after the leading countCheck(): (kind, condition, failure class) -/
def expectedShapes : List (String × List (Nat × String × String)) := [
  ("assertTrue", [(1, "!condition", "CheckFailure")]),
  ("fail", [(2, "", "FailFailure")]),
  ("assertCstrEqual", [(0, "actual==NULLPTR&&expected==NULLPTR", ""), (1, "actual==NULLPTR||expected==NULLPTR", "StringEqualFailure"), (1, "SimpleString::StrCmp(expected,actual)!=0", "StringEqualFailure")]),
  ("assertCstrNEqual", [(0, "actual==NULLPTR&&expected==NULLPTR", ""), (1, "actual==NULLPTR||expected==NULLPTR", "StringEqualFailure"), (1, "SimpleString::StrNCmp(expected,actual,length)!=0", "StringEqualFailure")]),
  ("assertCstrNoCaseEqual", [(0, "actual==NULLPTR&&expected==NULLPTR", ""), (1, "actual==NULLPTR||expected==NULLPTR", "StringEqualNoCaseFailure"), (1, "!SimpleString(expected).equalsNoCase(actual)", "StringEqualNoCaseFailure")]),
  ("assertCstrContains", [(0, "actual==NULLPTR&&expected==NULLPTR", ""), (1, "actual==NULLPTR||expected==NULLPTR", "ContainsFailure"), (1, "!SimpleString(actual).contains(expected)", "ContainsFailure")]),
  ("assertCstrNoCaseContains", [(0, "actual==NULLPTR&&expected==NULLPTR", ""), (1, "actual==NULLPTR||expected==NULLPTR", "ContainsFailure"), (1, "!SimpleString(actual).containsNoCase(expected)", "ContainsFailure")]),
  ("assertLongsEqual", [(1, "expected!=actual", "LongsEqualFailure")]),
  ("assertUnsignedLongsEqual", [(1, "expected!=actual", "UnsignedLongsEqualFailure")]),
  ("assertLongLongsEqual", [(1, "expected!=actual", "LongLongsEqualFailure")]),
  ("assertUnsignedLongLongsEqual", [(1, "expected!=actual", "UnsignedLongLongsEqualFailure")]),
  ("assertSignedBytesEqual", [(1, "expected!=actual", "SignedBytesEqualFailure")]),
  ("assertPointersEqual", [(1, "expected!=actual", "EqualsFailure")]),
  ("assertFunctionPointersEqual", [(1, "expected!=actual", "EqualsFailure")]),
  ("assertDoublesEqual", [(1, "!doubles_equal(expected,actual,threshold)", "DoublesEqualFailure")]),
  ("assertBinaryEqual", [(0, "length==0", ""), (0, "actual==NULLPTR&&expected==NULLPTR", ""), (1, "actual==NULLPTR||expected==NULLPTR", "BinaryEqualFailure"), (1, "SimpleString::MemCmp(expected,actual,length)!=0", "BinaryEqualFailure")]),
  ("assertBitsEqual", [(1, "(expected&mask)!=(actual&mask)", "BitsEqualFailure")]),
  ("assertEquals", [(1, "failed", "CheckEqualFailure")]),
  ("assertCompare", [(1, "!comparison", "ComparisonFailure")])
]

def expectedParams : List (String × List String) := [
  ("assertTrue", ["bool"]),
  ("assertCstrEqual", ["const char*", "const char*"]),
  ("assertCstrNEqual", ["const char*", "const char*", "size_t"]),
  ("assertCstrNoCaseEqual", ["const char*", "const char*"]),
  ("assertCstrContains", ["const char*", "const char*"]),
  ("assertCstrNoCaseContains", ["const char*", "const char*"]),
  ("assertLongsEqual", ["long", "long"]),
  ("assertUnsignedLongsEqual", ["unsigned long", "unsigned long"]),
  ("assertLongLongsEqual", ["cpputest_longlong", "cpputest_longlong"]),
  ("assertUnsignedLongLongsEqual", ["cpputest_ulonglong", "cpputest_ulonglong"]),
  ("assertSignedBytesEqual", ["signed char", "signed char"]),
  ("assertPointersEqual", ["const void*", "const void*"]),
  ("assertFunctionPointersEqual", ["void (*)()", "void (*)()"]),
  ("assertDoublesEqual", ["double", "double", "double"]),
  ("assertBinaryEqual", ["const void*", "const void*", "size_t"]),
  ("assertBitsEqual", ["unsigned long", "unsigned long", "unsigned long", "size_t"]),
  ("assertEquals", ["bool"]),
  ("assertCompare", ["bool"])
]

def expectedDoublesEqual : List String := [
  "if(PlatformSpecificIsNan(d1)||PlatformSpecificIsNan(d2)||PlatformSpecificIsNan(threshold))returnfalse;",
  "if(PlatformSpecificIsInf(d1)&&PlatformSpecificIsInf(d2)&&(d1>0)==(d2>0)){returntrue;}",
  "returnPlatformSpecificFabs(d1-d2)<=threshold;"
]

def expectedMacros : List (String × String × List String) := [
  ("CHECK_TRUE_LOCATION", "assertTrue", ["(condition)"]),
  ("CHECK_FALSE_LOCATION", "assertTrue", ["!(condition)"]),
  ("STRCMP_EQUAL_LOCATION", "assertCstrEqual", ["expected", "actual"]),
  ("STRNCMP_EQUAL_LOCATION", "assertCstrNEqual", ["expected", "actual", "length"]),
  ("STRCMP_NOCASE_EQUAL_LOCATION", "assertCstrNoCaseEqual", ["expected", "actual"]),
  ("STRCMP_CONTAINS_LOCATION", "assertCstrContains", ["expected", "actual"]),
  ("STRCMP_NOCASE_CONTAINS_LOCATION", "assertCstrNoCaseContains", ["expected", "actual"]),
  ("LONGS_EQUAL_LOCATION", "assertLongsEqual", ["(long)(expected)", "(long)(actual)"]),
  ("UNSIGNED_LONGS_EQUAL_LOCATION", "assertUnsignedLongsEqual", ["(unsignedlong)(expected)", "(unsignedlong)(actual)"]),
  ("LONGLONGS_EQUAL_LOCATION", "assertLongLongsEqual", ["(cpputest_longlong)(expected)", "(cpputest_longlong)(actual)"]),
  ("UNSIGNED_LONGLONGS_EQUAL_LOCATION", "assertUnsignedLongLongsEqual", ["(cpputest_ulonglong)(expected)", "(cpputest_ulonglong)(actual)"]),
  ("SIGNED_BYTES_EQUAL_LOCATION", "assertSignedBytesEqual", ["expected", "actual"]),
  ("SIGNED_BYTES_EQUAL_TEXT_LOCATION", "assertSignedBytesEqual", ["expected", "actual"]),
  ("POINTERS_EQUAL_LOCATION", "assertPointersEqual", ["(constvoid*)(expected)", "(constvoid*)(actual)"]),
  ("FUNCTIONPOINTERS_EQUAL_LOCATION", "assertFunctionPointersEqual", ["(void(*)())(expected)", "(void(*)())(actual)"]),
  ("DOUBLES_EQUAL_LOCATION", "assertDoublesEqual", ["expected", "actual", "threshold"]),
  ("MEMCMP_EQUAL_LOCATION", "assertBinaryEqual", ["expected", "actual", "size"]),
  ("BITS_LOCATION", "assertBitsEqual", ["expected", "actual", "mask", "sizeof(actual)"]),
  ("FAIL_LOCATION", "fail", []),
  ("FAIL_TEST_LOCATION", "fail", [])
]

def expectedCheckEqual : String :=
  "do{if((expected)!=(actual)){if((actual)!=(actual))UtestShell::getCurrent()->print(S,file,line);if((expected)!=(expected))UtestShell::getCurrent()->print(S,file,line);UtestShell::getCurrent()->assertEquals(true,StringFrom(expected).asCharString(),StringFrom(actual).asCharString(),text,file,line);}else{UtestShell::getCurrent()->assertLongsEqual((long)0,(long)0,NULLPTR,file,line);}}while(0)"

def expectedCheckCompare : String :=
  "do{boolsuccess=(first)relop(second);if(!success){SimpleStringconditionString;conditionString+=StringFrom(first);conditionString+=S;conditionString+=#relop;conditionString+=S;conditionString+=StringFrom(second);UtestShell::getCurrent()->assertCompare(false,S,conditionString.asCharString(),text,__FILE__,__LINE__);}}while(0)"

def expectedEnumsEqual : String :=
  "do{underlying_typeexpected_underlying_value=(underlying_type)(expected);underlying_typeactual_underlying_value=(underlying_type)(actual);if(expected_underlying_value!=actual_underlying_value){UtestShell::getCurrent()->assertEquals(true,StringFrom(expected_underlying_value).asCharString(),StringFrom(actual_underlying_value).asCharString(),text,file,line);}else{UtestShell::getCurrent()->assertLongsEqual((long)0,long(0),NULLPTR,file,line);}}while(0)"

def expectedCheckThrows : String :=
  "do{SimpleStringfailure_msg(S);boolcaught_expected=false;try{(expression);}catch(constexpected&){caught_expected=true;}catch(...){failure_msg=S;}if(!caught_expected){UtestShell::getCurrent()->fail(failure_msg.asCharString(),__FILE__,__LINE__);}else{UtestShell::getCurrent()->countCheck();}}while(0)"

def expectedTestExit : String :=
  "do{UtestShell::getCurrent()->exitTest();}while(0)"

def expectedFront : List (String × String × List String) := [
  ("CHECK", "CHECK_TRUE_LOCATION", ["condition"]),
  ("CHECK_TEXT", "CHECK_TRUE_LOCATION", ["(bool)(condition)"]),
  ("CHECK_TRUE", "CHECK_TRUE_LOCATION", ["(bool)(condition)"]),
  ("CHECK_TRUE_TEXT", "CHECK_TRUE_LOCATION", ["condition"]),
  ("CHECK_FALSE", "CHECK_FALSE_LOCATION", ["condition"]),
  ("CHECK_FALSE_TEXT", "CHECK_FALSE_LOCATION", ["condition"]),
  ("CHECK_EQUAL", "CHECK_EQUAL_LOCATION", ["expected", "actual"]),
  ("CHECK_EQUAL_TEXT", "CHECK_EQUAL_LOCATION", ["expected", "actual"]),
  ("CHECK_EQUAL_ZERO", "CHECK_EQUAL", ["0", "(actual)"]),
  ("CHECK_EQUAL_ZERO_TEXT", "CHECK_EQUAL_TEXT", ["0", "(actual)"]),
  ("CHECK_COMPARE", "CHECK_COMPARE_TEXT", ["first", "relop", "second"]),
  ("CHECK_COMPARE_TEXT", "CHECK_COMPARE_LOCATION", ["first", "relop", "second"]),
  ("STRCMP_EQUAL", "STRCMP_EQUAL_LOCATION", ["expected", "actual"]),
  ("STRCMP_EQUAL_TEXT", "STRCMP_EQUAL_LOCATION", ["expected", "actual"]),
  ("STRNCMP_EQUAL", "STRNCMP_EQUAL_LOCATION", ["expected", "actual", "length"]),
  ("STRNCMP_EQUAL_TEXT", "STRNCMP_EQUAL_LOCATION", ["expected", "actual", "length"]),
  ("STRCMP_NOCASE_EQUAL", "STRCMP_NOCASE_EQUAL_LOCATION", ["expected", "actual"]),
  ("STRCMP_NOCASE_EQUAL_TEXT", "STRCMP_NOCASE_EQUAL_LOCATION", ["expected", "actual"]),
  ("STRCMP_CONTAINS", "STRCMP_CONTAINS_LOCATION", ["expected", "actual"]),
  ("STRCMP_CONTAINS_TEXT", "STRCMP_CONTAINS_LOCATION", ["expected", "actual"]),
  ("STRCMP_NOCASE_CONTAINS", "STRCMP_NOCASE_CONTAINS_LOCATION", ["expected", "actual"]),
  ("STRCMP_NOCASE_CONTAINS_TEXT", "STRCMP_NOCASE_CONTAINS_LOCATION", ["expected", "actual"]),
  ("LONGS_EQUAL", "LONGS_EQUAL_LOCATION", ["(expected)", "(actual)"]),
  ("LONGS_EQUAL_TEXT", "LONGS_EQUAL_LOCATION", ["(expected)", "(actual)"]),
  ("UNSIGNED_LONGS_EQUAL", "UNSIGNED_LONGS_EQUAL_LOCATION", ["(expected)", "(actual)"]),
  ("UNSIGNED_LONGS_EQUAL_TEXT", "UNSIGNED_LONGS_EQUAL_LOCATION", ["(expected)", "(actual)"]),
  ("LONGLONGS_EQUAL", "LONGLONGS_EQUAL_LOCATION", ["expected", "actual"]),
  ("LONGLONGS_EQUAL_TEXT", "LONGLONGS_EQUAL_LOCATION", ["expected", "actual"]),
  ("UNSIGNED_LONGLONGS_EQUAL", "UNSIGNED_LONGLONGS_EQUAL_LOCATION", ["expected", "actual"]),
  ("UNSIGNED_LONGLONGS_EQUAL_TEXT", "UNSIGNED_LONGLONGS_EQUAL_LOCATION", ["expected", "actual"]),
  ("BYTES_EQUAL", "LONGS_EQUAL", ["(expected)&0xff", "(actual)&0xff"]),
  ("BYTES_EQUAL_TEXT", "LONGS_EQUAL_TEXT", ["(expected)&0xff", "(actual)&0xff"]),
  ("SIGNED_BYTES_EQUAL", "SIGNED_BYTES_EQUAL_LOCATION", ["expected", "actual"]),
  ("SIGNED_BYTES_EQUAL_TEXT", "SIGNED_BYTES_EQUAL_TEXT_LOCATION", ["expected", "actual"]),
  ("POINTERS_EQUAL", "POINTERS_EQUAL_LOCATION", ["(expected)", "(actual)"]),
  ("POINTERS_EQUAL_TEXT", "POINTERS_EQUAL_LOCATION", ["(expected)", "(actual)"]),
  ("FUNCTIONPOINTERS_EQUAL", "FUNCTIONPOINTERS_EQUAL_LOCATION", ["(expected)", "(actual)"]),
  ("FUNCTIONPOINTERS_EQUAL_TEXT", "FUNCTIONPOINTERS_EQUAL_LOCATION", ["(expected)", "(actual)"]),
  ("DOUBLES_EQUAL", "DOUBLES_EQUAL_LOCATION", ["expected", "actual", "threshold"]),
  ("DOUBLES_EQUAL_TEXT", "DOUBLES_EQUAL_LOCATION", ["expected", "actual", "threshold"]),
  ("MEMCMP_EQUAL", "MEMCMP_EQUAL_LOCATION", ["expected", "actual", "size"]),
  ("MEMCMP_EQUAL_TEXT", "MEMCMP_EQUAL_LOCATION", ["expected", "actual", "size"]),
  ("BITS_EQUAL", "BITS_LOCATION", ["expected", "actual", "mask"]),
  ("BITS_EQUAL_TEXT", "BITS_LOCATION", ["expected", "actual", "mask"]),
  ("ENUMS_EQUAL_INT", "ENUMS_EQUAL_TYPE", ["int", "expected", "actual"]),
  ("ENUMS_EQUAL_INT_TEXT", "ENUMS_EQUAL_TYPE_TEXT", ["int", "expected", "actual"]),
  ("ENUMS_EQUAL_TYPE", "ENUMS_EQUAL_TYPE_LOCATION", ["underlying_type", "expected", "actual"]),
  ("ENUMS_EQUAL_TYPE_TEXT", "ENUMS_EQUAL_TYPE_LOCATION", ["underlying_type", "expected", "actual"]),
  ("FAIL", "FAIL_LOCATION", []),
  ("FAIL_TEST", "FAIL_TEST_LOCATION", [])
]

def expectedCEntries : List (String × List String × String × List String) := [
  ("CHECK_EQUAL_C_BOOL_LOCATION", ["int", "int"], "assertEquals", ["!!expected!=!!actual"]),
  ("CHECK_EQUAL_C_INT_LOCATION", ["int", "int"], "assertLongsEqual", ["(long)expected", "(long)actual"]),
  ("CHECK_EQUAL_C_UINT_LOCATION", ["unsigned int", "unsigned int"], "assertUnsignedLongsEqual", ["(unsignedlong)expected", "(unsignedlong)actual"]),
  ("CHECK_EQUAL_C_LONG_LOCATION", ["long", "long"], "assertLongsEqual", ["expected", "actual"]),
  ("CHECK_EQUAL_C_ULONG_LOCATION", ["unsigned long", "unsigned long"], "assertUnsignedLongsEqual", ["expected", "actual"]),
  ("CHECK_EQUAL_C_LONGLONG_LOCATION", ["cpputest_longlong", "cpputest_longlong"], "assertLongLongsEqual", ["expected", "actual"]),
  ("CHECK_EQUAL_C_ULONGLONG_LOCATION", ["cpputest_ulonglong", "cpputest_ulonglong"], "assertUnsignedLongLongsEqual", ["expected", "actual"]),
  ("CHECK_EQUAL_C_REAL_LOCATION", ["double", "double", "double"], "assertDoublesEqual", ["expected", "actual", "threshold"]),
  ("CHECK_EQUAL_C_CHAR_LOCATION", ["char", "char"], "assertEquals", ["((expected)!=(actual))"]),
  ("CHECK_EQUAL_C_UBYTE_LOCATION", ["unsigned char", "unsigned char"], "assertEquals", ["((expected)!=(actual))"]),
  ("CHECK_EQUAL_C_SBYTE_LOCATION", ["char signed", "signed char"], "assertEquals", ["((expected)!=(actual))"]),
  ("CHECK_EQUAL_C_STRING_LOCATION", ["const char*", "const char*"], "assertCstrEqual", ["expected", "actual"]),
  ("CHECK_EQUAL_C_POINTER_LOCATION", ["const void*", "const void*"], "assertPointersEqual", ["expected", "actual"]),
  ("CHECK_EQUAL_C_MEMCMP_LOCATION", ["const void*", "const void*", "size_t"], "assertBinaryEqual", ["expected", "actual", "size"]),
  ("CHECK_EQUAL_C_BITS_LOCATION", ["unsigned int", "unsigned int", "unsigned int", "size_t"], "assertBitsEqual", ["expected", "actual", "mask", "size"]),
  ("FAIL_TEXT_C_LOCATION", [], "fail", []),
  ("FAIL_C_LOCATION", [], "fail", []),
  ("CHECK_C_LOCATION", ["int"], "assertTrue", ["condition!=0"])
]

def expectedCFront : List (String × String × List String) := [
  ("CHECK_EQUAL_C_BOOL", "CHECK_EQUAL_C_BOOL_LOCATION", ["expected", "actual"]),
  ("CHECK_EQUAL_C_BOOL_TEXT", "CHECK_EQUAL_C_BOOL_LOCATION", ["expected", "actual"]),
  ("CHECK_EQUAL_C_INT", "CHECK_EQUAL_C_INT_LOCATION", ["expected", "actual"]),
  ("CHECK_EQUAL_C_INT_TEXT", "CHECK_EQUAL_C_INT_LOCATION", ["expected", "actual"]),
  ("CHECK_EQUAL_C_UINT", "CHECK_EQUAL_C_UINT_LOCATION", ["expected", "actual"]),
  ("CHECK_EQUAL_C_UINT_TEXT", "CHECK_EQUAL_C_UINT_LOCATION", ["expected", "actual"]),
  ("CHECK_EQUAL_C_LONG", "CHECK_EQUAL_C_LONG_LOCATION", ["expected", "actual"]),
  ("CHECK_EQUAL_C_LONG_TEXT", "CHECK_EQUAL_C_LONG_LOCATION", ["expected", "actual"]),
  ("CHECK_EQUAL_C_ULONG", "CHECK_EQUAL_C_ULONG_LOCATION", ["expected", "actual"]),
  ("CHECK_EQUAL_C_ULONG_TEXT", "CHECK_EQUAL_C_ULONG_LOCATION", ["expected", "actual"]),
  ("CHECK_EQUAL_C_LONGLONG", "CHECK_EQUAL_C_LONGLONG_LOCATION", ["expected", "actual"]),
  ("CHECK_EQUAL_C_LONGLONG_TEXT", "CHECK_EQUAL_C_LONGLONG_LOCATION", ["expected", "actual"]),
  ("CHECK_EQUAL_C_ULONGLONG", "CHECK_EQUAL_C_ULONGLONG_LOCATION", ["expected", "actual"]),
  ("CHECK_EQUAL_C_ULONGLONG_TEXT", "CHECK_EQUAL_C_ULONGLONG_LOCATION", ["expected", "actual"]),
  ("CHECK_EQUAL_C_REAL", "CHECK_EQUAL_C_REAL_LOCATION", ["expected", "actual", "threshold"]),
  ("CHECK_EQUAL_C_REAL_TEXT", "CHECK_EQUAL_C_REAL_LOCATION", ["expected", "actual", "threshold"]),
  ("CHECK_EQUAL_C_CHAR", "CHECK_EQUAL_C_CHAR_LOCATION", ["expected", "actual"]),
  ("CHECK_EQUAL_C_CHAR_TEXT", "CHECK_EQUAL_C_CHAR_LOCATION", ["expected", "actual"]),
  ("CHECK_EQUAL_C_UBYTE", "CHECK_EQUAL_C_UBYTE_LOCATION", ["expected", "actual"]),
  ("CHECK_EQUAL_C_UBYTE_TEXT", "CHECK_EQUAL_C_UBYTE_LOCATION", ["expected", "actual"]),
  ("CHECK_EQUAL_C_SBYTE", "CHECK_EQUAL_C_SBYTE_LOCATION", ["expected", "actual"]),
  ("CHECK_EQUAL_C_SBYTE_TEXT", "CHECK_EQUAL_C_SBYTE_LOCATION", ["expected", "actual"]),
  ("CHECK_EQUAL_C_STRING", "CHECK_EQUAL_C_STRING_LOCATION", ["expected", "actual"]),
  ("CHECK_EQUAL_C_STRING_TEXT", "CHECK_EQUAL_C_STRING_LOCATION", ["expected", "actual"]),
  ("CHECK_EQUAL_C_POINTER", "CHECK_EQUAL_C_POINTER_LOCATION", ["expected", "actual"]),
  ("CHECK_EQUAL_C_POINTER_TEXT", "CHECK_EQUAL_C_POINTER_LOCATION", ["expected", "actual"]),
  ("CHECK_EQUAL_C_MEMCMP", "CHECK_EQUAL_C_MEMCMP_LOCATION", ["expected", "actual", "size"]),
  ("CHECK_EQUAL_C_MEMCMP_TEXT", "CHECK_EQUAL_C_MEMCMP_LOCATION", ["expected", "actual", "size"]),
  ("CHECK_EQUAL_C_BITS", "CHECK_EQUAL_C_BITS_LOCATION", ["expected", "actual", "mask", "sizeof(actual)"]),
  ("CHECK_EQUAL_C_BITS_TEXT", "CHECK_EQUAL_C_BITS_LOCATION", ["expected", "actual", "mask", "sizeof(actual)"]),
  ("FAIL_TEXT_C", "FAIL_TEXT_C_LOCATION", []),
  ("FAIL_C", "FAIL_C_LOCATION", []),
  ("CHECK_C", "CHECK_C_LOCATION", ["condition"]),
  ("CHECK_C_TEXT", "CHECK_C_LOCATION", ["condition"])
]

/-- every check macro defined by UtestMacros.h / TestHarness_c.h, in order -/
def expectedAllMacros : List String := ["CHECK", "CHECK_TEXT", "CHECK_TRUE", "CHECK_TRUE_TEXT", "CHECK_FALSE", "CHECK_FALSE_TEXT", "CHECK_TRUE_LOCATION", "CHECK_FALSE_LOCATION", "CHECK_EQUAL", "CHECK_EQUAL_TEXT", "CHECK_EQUAL_LOCATION", "CHECK_EQUAL_ZERO", "CHECK_EQUAL_ZERO_TEXT", "CHECK_COMPARE", "CHECK_COMPARE_TEXT", "CHECK_COMPARE_LOCATION", "STRCMP_EQUAL", "STRCMP_EQUAL_TEXT", "STRCMP_EQUAL_LOCATION", "STRNCMP_EQUAL", "STRNCMP_EQUAL_TEXT", "STRNCMP_EQUAL_LOCATION", "STRCMP_NOCASE_EQUAL", "STRCMP_NOCASE_EQUAL_TEXT", "STRCMP_NOCASE_EQUAL_LOCATION", "STRCMP_CONTAINS", "STRCMP_CONTAINS_TEXT", "STRCMP_CONTAINS_LOCATION", "STRCMP_NOCASE_CONTAINS", "STRCMP_NOCASE_CONTAINS_TEXT", "STRCMP_NOCASE_CONTAINS_LOCATION", "LONGS_EQUAL", "LONGS_EQUAL_TEXT", "UNSIGNED_LONGS_EQUAL", "UNSIGNED_LONGS_EQUAL_TEXT", "LONGS_EQUAL_LOCATION", "UNSIGNED_LONGS_EQUAL_LOCATION", "LONGLONGS_EQUAL", "LONGLONGS_EQUAL_TEXT", "UNSIGNED_LONGLONGS_EQUAL", "UNSIGNED_LONGLONGS_EQUAL_TEXT", "LONGLONGS_EQUAL_LOCATION", "UNSIGNED_LONGLONGS_EQUAL_LOCATION", "BYTES_EQUAL", "BYTES_EQUAL_TEXT", "SIGNED_BYTES_EQUAL", "SIGNED_BYTES_EQUAL_LOCATION", "SIGNED_BYTES_EQUAL_TEXT", "SIGNED_BYTES_EQUAL_TEXT_LOCATION", "POINTERS_EQUAL", "POINTERS_EQUAL_TEXT", "POINTERS_EQUAL_LOCATION", "FUNCTIONPOINTERS_EQUAL", "FUNCTIONPOINTERS_EQUAL_TEXT", "FUNCTIONPOINTERS_EQUAL_LOCATION", "DOUBLES_EQUAL", "DOUBLES_EQUAL_TEXT", "DOUBLES_EQUAL_LOCATION", "MEMCMP_EQUAL", "MEMCMP_EQUAL_TEXT", "MEMCMP_EQUAL_LOCATION", "BITS_EQUAL", "BITS_EQUAL_TEXT", "BITS_LOCATION", "ENUMS_EQUAL_INT", "ENUMS_EQUAL_INT_TEXT", "ENUMS_EQUAL_TYPE", "ENUMS_EQUAL_TYPE_TEXT", "ENUMS_EQUAL_TYPE_LOCATION", "FAIL", "FAIL_LOCATION", "FAIL_TEST", "FAIL_TEST_LOCATION", "TEST_EXIT", "CHECK_THROWS"]

def expectedAllCMacros : List String := ["CHECK_EQUAL_C_BOOL", "CHECK_EQUAL_C_BOOL_TEXT", "CHECK_EQUAL_C_INT", "CHECK_EQUAL_C_INT_TEXT", "CHECK_EQUAL_C_UINT", "CHECK_EQUAL_C_UINT_TEXT", "CHECK_EQUAL_C_LONG", "CHECK_EQUAL_C_LONG_TEXT", "CHECK_EQUAL_C_ULONG", "CHECK_EQUAL_C_ULONG_TEXT", "CHECK_EQUAL_C_LONGLONG", "CHECK_EQUAL_C_LONGLONG_TEXT", "CHECK_EQUAL_C_ULONGLONG", "CHECK_EQUAL_C_ULONGLONG_TEXT", "CHECK_EQUAL_C_REAL", "CHECK_EQUAL_C_REAL_TEXT", "CHECK_EQUAL_C_CHAR", "CHECK_EQUAL_C_CHAR_TEXT", "CHECK_EQUAL_C_UBYTE", "CHECK_EQUAL_C_UBYTE_TEXT", "CHECK_EQUAL_C_SBYTE", "CHECK_EQUAL_C_SBYTE_TEXT", "CHECK_EQUAL_C_STRING", "CHECK_EQUAL_C_STRING_TEXT", "CHECK_EQUAL_C_POINTER", "CHECK_EQUAL_C_POINTER_TEXT", "CHECK_EQUAL_C_MEMCMP", "CHECK_EQUAL_C_MEMCMP_TEXT", "CHECK_EQUAL_C_BITS", "CHECK_EQUAL_C_BITS_TEXT", "FAIL_TEXT_C", "FAIL_C", "CHECK_C", "CHECK_C_TEXT"]

/-- the platform predicates doubles_equal relies on (src/Platforms/Gcc/UtestPlatform.cpp) -/
def expectedPlatformPredicates : List (String × String) := [
  ("IsNanImplementation", "returnisnan(d);"),
  ("IsInfImplementation", "returnisinf(d);"),
  ("PlatformSpecificFabs", "fabs"),
  ("PlatformSpecificIsNan", "IsNanImplementation"),
  ("PlatformSpecificIsInf", "IsInfImplementation")
]


end Asserts
